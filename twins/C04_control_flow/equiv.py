"""
Deterministic equivalence driver for the goose kernels (property C04).

Run with the tree to be examined on PYTHONPATH, e.g.

    cd <worktree> && PYTHONPATH=<worktree> python _twin/<name>/equiv.py

Prints one line per scenario with a SHA-256 digest over the exact bytes, dtypes
and shapes of every array that came out of the scenario.  Nothing is rounded, so
two trees print the same text only if they compute bit-identical results.
"""

import hashlib
import logging
import os
import sys
import warnings

os.environ.setdefault("JAX_PLATFORMS", "cpu")
warnings.filterwarnings("ignore")
logging.disable(logging.CRITICAL)

import jax  # noqa: E402
import jax.numpy as jnp  # noqa: E402
import numpy as np  # noqa: E402
import tensorflow_probability.substrates.jax.bijectors as tfb  # noqa: E402
import tensorflow_probability.substrates.jax.distributions as tfd  # noqa: E402

import liesel.goose as gs  # noqa: E402
import liesel.model as lsl  # noqa: E402
from liesel.goose.epoch import EpochConfig, EpochType  # noqa: E402
from liesel.goose.kernel_sequence import KernelSequence  # noqa: E402
from liesel.goose.mh import mh_step  # noqa: E402
from liesel.goose.mh_kernel import MHProposal  # noqa: E402
from liesel.goose.types import Position  # noqa: E402

# --------------------------------------------------------------------------------------
# digest helpers
# --------------------------------------------------------------------------------------


def digest(tree) -> str:
    h = hashlib.sha256()
    leaves, treedef = jax.tree_util.tree_flatten(tree)
    h.update(str(treedef).encode())
    for leaf in leaves:
        arr = np.asarray(leaf)
        h.update(str(arr.dtype).encode())
        h.update(str(arr.shape).encode())
        h.update(np.ascontiguousarray(arr).tobytes())
    return h.hexdigest()[:24]


def show(label: str, tree, peek=None) -> None:
    extra = "" if peek is None else f"  peek={peek}"
    print(f"{label:<58s} {digest(tree)}{extra}")


def show_exc(label: str, fn) -> None:
    try:
        fn()
    except Exception as e:  # noqa: BLE001
        print(f"{label:<58s} raised {type(e).__name__}: {e}")
    else:
        print(f"{label:<58s} no exception")


# --------------------------------------------------------------------------------------
# a dictionary-style model with proper priors (linear regression)
# --------------------------------------------------------------------------------------

rng = np.random.default_rng(20240511)
N, P = 25, 2
X = np.column_stack([np.ones(N), rng.uniform(size=(N, P - 1))]).astype(np.float32)
Y = rng.normal(X @ np.ones(P), 0.3, size=N).astype(np.float32)

A_PRIOR, B_PRIOR = 2.0, 0.5

DICT_STATE = {
    "y": jnp.asarray(Y),
    "X": jnp.asarray(X),
    "beta": jnp.asarray([0.9, 1.1], dtype=jnp.float32),
    "log_sigma": jnp.asarray(np.log(0.3), dtype=jnp.float32),
}


def dict_log_prob(ms):
    mu = ms["X"] @ ms["beta"]
    sigma = jnp.exp(ms["log_sigma"])
    ll = jnp.sum(jax.scipy.stats.norm.logpdf(ms["y"], mu, sigma))
    prior_beta = jnp.sum(jax.scipy.stats.norm.logpdf(ms["beta"], 0.0, 10.0))
    # sigma^2 ~ InverseGamma(a, b); density of log_sigma incl. Jacobian
    s2 = sigma**2
    prior_ls = (
        -(A_PRIOR + 1.0) * jnp.log(s2) - B_PRIOR / s2 + jnp.log(2.0) + jnp.log(s2)
    )
    return ll + prior_beta + prior_ls


def gibbs_log_sigma(prng_key, ms):
    """Exact full conditional of log_sigma given beta."""
    resid = ms["y"] - ms["X"] @ ms["beta"]
    a = A_PRIOR + resid.shape[0] / 2.0
    b = B_PRIOR + 0.5 * jnp.sum(resid**2)
    s2 = b / jax.random.gamma(prng_key, a)
    return {"log_sigma": 0.5 * jnp.log(s2)}


def mh_sym(key, ms, step_size):
    k0, k1 = jax.random.split(key)
    beta = ms["beta"] + step_size * jax.random.normal(k0, ms["beta"].shape)
    ls = ms["log_sigma"] + step_size * jax.random.normal(k1, ms["log_sigma"].shape)
    return MHProposal(Position({"beta": beta, "log_sigma": ls}), 0.0)


def mh_asym(key, ms, step_size):
    mean_prop = ms["beta"] + step_size
    beta = mean_prop + step_size * jax.random.normal(key, ms["beta"].shape)
    fwd = jax.scipy.stats.norm.logpdf(beta, mean_prop, step_size).sum()
    bwd = jax.scipy.stats.norm.logpdf(ms["beta"], beta + step_size, step_size).sum()
    return MHProposal(Position({"beta": beta}), bwd - fwd)


def chol_info_beta(ms):
    sigma2 = jnp.exp(2.0 * ms["log_sigma"])
    info = ms["X"].T @ ms["X"] / sigma2 + jnp.eye(P) / 100.0
    return jnp.linalg.cholesky(info)


def run_engine(label, model, state, kernels, seed, chains=2, warmup=150, post=40):
    builder = gs.EngineBuilder(seed, num_chains=chains)
    for k in kernels:
        builder.add_kernel(k)
    builder.set_model(model)
    builder.set_initial_values(state)
    builder.set_duration(warmup_duration=warmup, posterior_duration=post)
    builder.show_progress = False
    engine = builder.build()
    engine.sample_all_epochs()
    res = engine.get_results()
    samples = res.get_samples()
    post_samples = res.get_posterior_samples()
    infos = res.transition_infos.combine_all().unwrap()
    tuning = None
    if not res.tuning_infos.is_none():
        tuning = res.tuning_infos.unwrap().get().unwrap()
    errlog = res.get_error_log().unwrap()
    errs = {
        k: (np.asarray(v.error_codes), np.asarray(v.transition))
        for k, v in errlog.items()
    }
    first = sorted(post_samples.keys())[0]
    peek = float(np.asarray(post_samples[first]).reshape(-1)[-1])
    show(label + " samples", samples, peek=repr(peek))
    show(label + " post", post_samples)
    show(label + " infos", infos)
    show(label + " tuning", tuning)
    show(label + " errors", errs)


def dict_scenarios():
    model = gs.DictInterface(dict_log_prob)
    both = ["beta", "log_sigma"]

    def s(label, kernels, seed, **kw):
        run_engine("dict/" + label, model, DICT_STATE, kernels, seed, **kw)

    s("nuts-diag", [gs.NUTSKernel(both)], 1)
    s("nuts-full", [gs.NUTSKernel(both, mm_diag=False, max_treedepth=4)], 2)
    s(
        "nuts-fixed",
        [
            gs.NUTSKernel(
                both,
                initial_step_size=0.05,
                initial_inverse_mass_matrix=jnp.asarray([0.02, 0.05, 0.03]),
            )
        ],
        3,
    )
    s("hmc-diag", [gs.HMCKernel(both, num_integration_steps=5)], 4)
    s("hmc-full", [gs.HMCKernel(both, mm_diag=False, initial_step_size=0.02)], 5)
    s("iwls-auto", [gs.IWLSKernel(both)], 6)
    s(
        "iwls-chol+gibbs",
        [
            gs.IWLSKernel(["beta"], chol_info_fn=chol_info_beta, initial_step_size=0.5),
            gs.GibbsKernel(["log_sigma"], gibbs_log_sigma),
        ],
        7,
    )
    s("rw", [gs.RWKernel(both, initial_step_size=0.1)], 8)
    s("mh-sym-tuned", [gs.MHKernel(both, mh_sym, da_tune_step_size=True)], 9)
    s("mh-sym-fixed", [gs.MHKernel(both, mh_sym, initial_step_size=0.05)], 10)
    s(
        "mh-asym+rw",
        [
            gs.MHKernel(
                ["beta"],
                mh_asym,
                initial_step_size=0.05,
                da_tune_step_size=True,
                da_target_accept=0.3,
            ),
            gs.RWKernel(["log_sigma"]),
        ],
        11,
    )
    s(
        "nuts+hmc",
        [gs.NUTSKernel(["beta"]), gs.HMCKernel(["log_sigma"])],
        12,
    )
    s(
        "gibbs+nuts (3 chains, key seed)",
        [gs.GibbsKernel(["log_sigma"], gibbs_log_sigma), gs.NUTSKernel(["beta"])],
        jax.random.PRNGKey(13),
        chains=3,
    )
    s("rw zero posterior", [gs.RWKernel(both)], 14, post=1)


# --------------------------------------------------------------------------------------
# a Liesel graph model with a transformed parameter
# --------------------------------------------------------------------------------------


def liesel_model():
    r = np.random.default_rng(7)
    yv = r.normal(1.5, 0.7, size=30).astype(np.float32)
    mu = lsl.Var(
        jnp.float32(1.0),
        lsl.Dist(tfd.Normal, loc=jnp.float32(0.0), scale=jnp.float32(5.0)),
        name="mu",
    )
    sigma = lsl.Var(
        jnp.float32(1.0),
        lsl.Dist(
            tfd.InverseGamma,
            concentration=jnp.float32(3.0),
            scale=jnp.float32(2.0),
        ),
        name="sigma",
    )
    mu.parameter = True
    sigma.parameter = True
    y = lsl.Var(jnp.asarray(yv), lsl.Dist(tfd.Normal, loc=mu, scale=sigma), name="y")
    y.observed = True
    sigma.transform(tfb.Exp())
    return lsl.Model([y])


def liesel_scenarios():
    model = liesel_model()
    iface = gs.LieselInterface(model)
    state = model.state
    both = ["mu", "sigma_transformed"]

    def s(label, kernels, seed, **kw):
        run_engine("lsl/" + label, iface, state, kernels, seed, **kw)

    s("nuts", [gs.NUTSKernel(both)], 21)
    s("hmc-full", [gs.HMCKernel(both, mm_diag=False)], 22)
    s("iwls", [gs.IWLSKernel(both, initial_step_size=0.3)], 23)
    s(
        "iwls+rw",
        [gs.IWLSKernel(["mu"]), gs.RWKernel(["sigma_transformed"])],
        24,
    )
    s(
        "nuts+mh",
        [
            gs.NUTSKernel(["sigma_transformed"]),
            gs.MHKernel(
                ["mu"],
                lambda key, ms, step: MHProposal(
                    Position({"mu": ms["mu_value"].value + step * jax.random.normal(key)}),
                    0.0,
                ),
                da_tune_step_size=True,
            ),
        ],
        25,
    )


# --------------------------------------------------------------------------------------
# direct calls (no engine, no jit): boundaries of mh_step, kernel protocol, kernel seq.
# --------------------------------------------------------------------------------------


def direct_scenarios():
    model = gs.DictInterface(dict_log_prob)
    key = jax.random.PRNGKey(99)

    # mh_step: ordinary, with correction, nan, -inf, +inf (prob clipped to one)
    prop = Position({"beta": jnp.asarray([1.0, 1.0], dtype=jnp.float32)})
    worse = Position({"beta": jnp.asarray([0.9, 1.05], dtype=jnp.float32)})
    for i in range(6):
        k = jax.random.fold_in(key, i)
        info, ms = mh_step(k, model, worse, DICT_STATE)
        peek = (float(info.acceptance_prob), bool(info.position_moved))
        show(f"mh_step plain {i}", (info, ms), peek=peek)
        show(f"mh_step better {i}", mh_step(k, model, prop, DICT_STATE))
        show(f"mh_step corr {i}", mh_step(k, model, prop, DICT_STATE, -0.7 * i))
    nanprop = Position({"beta": jnp.asarray([jnp.nan, 1.0], dtype=jnp.float32)})
    show("mh_step nan proposal", mh_step(key, model, nanprop, DICT_STATE))
    show("mh_step nan correction", mh_step(key, model, prop, DICT_STATE, jnp.nan))
    show("mh_step -inf correction", mh_step(key, model, prop, DICT_STATE, -jnp.inf))
    show("mh_step +inf correction", mh_step(key, model, prop, DICT_STATE, jnp.inf))
    show("mh_step huge correction", mh_step(key, model, prop, DICT_STATE, 1e30))
    infprop = Position({"log_sigma": jnp.asarray(-jnp.inf, dtype=jnp.float32)})
    show("mh_step degenerate proposal", mh_step(key, model, infprop, DICT_STATE))
    info, _ = jax.jit(lambda k: mh_step(k, model, prop, DICT_STATE, 0.25))(key)
    show("mh_step jitted info", info, peek=repr(float(info.acceptance_prob)))

    # every kernel on its own, one transition per epoch type, un-jitted and jitted
    both = ["beta", "log_sigma"]
    kernels = {
        "nuts": gs.NUTSKernel(both, max_treedepth=3),
        "nuts-full": gs.NUTSKernel(both, mm_diag=False, initial_step_size=0.01),
        "hmc": gs.HMCKernel(both, num_integration_steps=3),
        "hmc-full-imm": gs.HMCKernel(
            both, mm_diag=False, initial_inverse_mass_matrix=0.1 * jnp.eye(3)
        ),
        "iwls": gs.IWLSKernel(both),
        "iwls-chol": gs.IWLSKernel(["beta"], chol_info_fn=chol_info_beta),
        "rw": gs.RWKernel(both, initial_step_size=0.2),
        "mh-tuned": gs.MHKernel(both, mh_sym, da_tune_step_size=True),
        "mh-fixed": gs.MHKernel(["beta"], mh_asym, initial_step_size=0.1),
        "gibbs": gs.GibbsKernel(["log_sigma"], gibbs_log_sigma),
    }
    configs = {
        "init": EpochConfig(EpochType.INITIAL_VALUES, 1, 1, None),
        "fast": EpochConfig(EpochType.FAST_ADAPTATION, 5, 1, None),
        "slow": EpochConfig(EpochType.SLOW_ADAPTATION, 5, 1, None),
        "burn": EpochConfig(EpochType.BURNIN, 5, 1, None),
        "post": EpochConfig(EpochType.POSTERIOR, 5, 1, None),
    }
    hist = Position(
        {
            "beta": jnp.asarray(rng.normal(1.0, 0.1, size=(12, 2)), dtype=jnp.float32),
            "log_sigma": jnp.asarray(rng.normal(-1, 0.2, size=12), dtype=jnp.float32),
        }
    )

    for name, kernel in kernels.items():
        show_exc(f"kernel {name} model unset", lambda: kernel.model)
        print(f"kernel {name} has_model before={kernel.has_model()}", end=" ")
        kernel.set_model(model)
        print(f"after={kernel.has_model()} keys={kernel.position_keys}")
        kernel.identifier = name
        show(f"kernel {name} position", kernel.position(DICT_STATE))
        lp = kernel.log_prob_fn(DICT_STATE)
        pos = kernel.position(DICT_STATE)
        show(f"kernel {name} log_prob_fn", (lp(pos), jax.grad(lp)(pos)))

        kstate = kernel.init_state(jax.random.fold_in(key, 1), DICT_STATE)
        show(f"kernel {name} init_state", kstate)
        mstate = DICT_STATE
        trans = jax.jit(kernel.transition)
        for j, (cname, cfg) in enumerate(configs.items()):
            epoch = cfg.to_state(j, 5 * j)
            kstate = kernel.start_epoch(key, kstate, mstate, epoch)
            for t in range(3):
                epoch.time_in_epoch = t
                k = jax.random.fold_in(key, 100 * j + t)
                out = trans(k, kstate, mstate, epoch)
                kstate, mstate = out.kernel_state, out.model_state
                show(f"kernel {name} {cname} trans {t}", (out.info, kstate, mstate))
            if not name.startswith(("nuts", "hmc")) or cname == "post":
                # op-by-op execution, without an enclosing jit
                out_eager = kernel.transition(key, kstate, mstate, epoch)
                show(f"kernel {name} {cname} trans eager", out_eager)
            kstate = kernel.end_epoch(key, kstate, mstate, epoch)
            show(f"kernel {name} {cname} end_epoch", kstate)
            for hname, h in (("none", None), ("hist", hist)):
                tout = kernel.tune(key, kstate, mstate, epoch, h)
                show(f"kernel {name} {cname} tune {hname}", tout)
                kstate = tout.kernel_state
        wout = kernel.end_warmup(key, kstate, mstate, None)
        show(f"kernel {name} end_warmup", wout)

    # kernel sequence
    class _Anon:
        identifier = ""

        def __repr__(self):
            return "<anon kernel>"

    show_exc("kseq empty identifier", lambda: KernelSequence([_Anon()]))
    a, b = gs.RWKernel(["beta"]), gs.RWKernel(["log_sigma"])
    a.identifier = b.identifier = "dup"
    show_exc("kseq duplicate identifier", lambda: KernelSequence([a, b]))
    show("kseq empty", KernelSequence([]).get_kernels())

    k0 = gs.NUTSKernel(["beta"], max_treedepth=3)
    k1 = gs.GibbsKernel(["log_sigma"], gibbs_log_sigma)
    k2 = gs.RWKernel(["log_sigma"], initial_step_size=0.05)
    for i, k in enumerate((k0, k1, k2)):
        k.set_model(model)
        k.identifier = f"kernel_{i:02d}"
    klist = (k0, k1, k2)
    kseq = KernelSequence(klist)
    print("kseq kernels identity", [k is kk for k, kk in zip(klist, kseq.get_kernels())])
    print("kseq get_kernels is stable", kseq.get_kernels() is kseq.get_kernels())
    kstates = kseq.init_states(key, DICT_STATE)
    kseq_trans = jax.jit(kseq.transition)
    show("kseq init_states", kstates)
    mstate = DICT_STATE
    tinfos = None
    for j, (cname, cfg) in enumerate(configs.items()):
        epoch = cfg.to_state(j, 5 * j)
        kstates = kseq.start_epoch(jax.random.fold_in(key, j), kstates, mstate, epoch)
        show(f"kseq {cname} start_epoch", kstates)
        for t in range(3):
            epoch.time_in_epoch = t
            out = kseq_trans(
                jax.random.fold_in(key, 10 * j + t), kstates, mstate, epoch
            )
            kstates, mstate = out.kernel_states, out.model_state
            show(f"kseq {cname} transition {t}", out)
            print("   info keys", list(out.infos.keys()))
        kstates = kseq.end_epoch(key, kstates, mstate, epoch)
        show(f"kseq {cname} end_epoch", kstates)
        tout = kseq.tune(key, kstates, mstate, epoch, hist if j % 2 else None)
        show(f"kseq {cname} tune", tout)
        print("   tuning keys", list(tout.infos.keys()))
        kstates, tinfos = tout.kernel_states, tout.infos
    w_none = kseq.end_warmup(key, kstates, mstate, None)
    show("kseq end_warmup none", w_none)
    w_hist = kseq.end_warmup(key, kstates, mstate, tinfos)
    show("kseq end_warmup hist", w_hist)
    print("   error code keys", list(w_hist.error_codes.keys()))
    show_exc(
        "kseq end_warmup missing key",
        lambda: kseq.end_warmup(key, kstates, mstate, {"kernel_00": None}),
    )
    show_exc(
        "kseq transition short states",
        lambda: kseq.transition(key, kstates[:2], mstate, epoch),
    )


def main(argv):
    print("jax", jax.__version__, "x64", jax.config.jax_enable_x64)
    # which tree is under test goes to stderr so that stdout is comparable
    print("liesel imported from", os.path.dirname(gs.__file__), file=sys.stderr)
    which = set(argv[1:]) or {"direct", "dict", "liesel"}
    if "direct" in which:
        direct_scenarios()
    if "dict" in which:
        dict_scenarios()
    if "liesel" in which:
        liesel_scenarios()


if __name__ == "__main__":
    main(sys.argv)
