import ast

from .runner import (V, expr, expr_is, is_assign_to, is_expr_call, replace_expr,
                     replace_stmt, stmt)

D = "liesel/model/distreg.py"
G = "liesel/model/goose.py"
M = "liesel/distributions/mvn_degen.py"
T = "tau2_gibbs_kernel.transition"
F = "finite_discrete_gibbs_kernel"

VARIANTS = [
    V("c13_gamma_over_b", "M", D, T,
      *replace_expr("b_gibbs / jax.random.gamma(prng_key, a_gibbs)",
                    "jax.random.gamma(prng_key, a_gibbs) / b_gibbs"),
      note="Gamma instead of inverse Gamma draw", expect_rule="C13.R1"),
    V("c13_rank_full", "M", D, T, *replace_expr("a_prior + 0.5 * rank", "a_prior + rank"),
      note="shape a + rank instead of a + rank/2", expect_rule="C13.R1"),
    V("c13_quad_no_half", "M", D, T, *replace_expr("b_prior + 0.5 * (beta @ K @ beta)", "b_prior + beta @ K @ beta"),
      note="scale without the factor 1/2", expect_rule="C13.R1"),
    V("c13_loc_one", "M", D, "DistRegBuilder.add_np_smooth",
      lambda nd: isinstance(nd, ast.keyword) and nd.arg == "loc" and ast.unparse(nd.value) == "0.0",
      lambda nd: ast.keyword(arg="loc", value=expr("1.0")),
      note="non-zero prior location: the quadratic form is wrong", expect_rule="C13.R1"),
    V("c13_scale_a", "M", D, "DistRegBuilder.add_np_smooth",
      *replace_expr("Dist(tfd.InverseGamma, concentration=a_var, scale=b_var)",
                    "Dist(tfd.InverseGamma, concentration=b_var, scale=a_var)"),
      note="hyperparameters swapped in the model", expect_rule="C13.R1"),
    V("c13_group_key", "M", D, "DistRegBuilder.add_np_smooth",
      lambda nd: isinstance(nd, ast.keyword) and nd.arg == "rank" and ast.unparse(nd.value) == "rank_var"
      and False, lambda nd: nd, note="placeholder"),
    V("c13_rank_rederived", "M", M, "MultivariateNormalDegenerate.from_penalty",
      *replace_stmt("rank = _rank(evals) if rank is None else rank", "rank = _rank(evals)"),
      note="a supplied rank is overridden by the eigenvalue count (kernel and model disagree "
           "for small-scale penalties)", expect_rule="C13.R1"),
    V("c13_prior_logits", "M", G, f"{F}.transition_fn.conditional_log_prob_fn",
      *replace_stmt("return model.log_prob", "return model.vars[name].log_prob"),
      note="logits are the prior only", expect_rule="C13.R2"),
    V("c13_lik_logits", "M", G, f"{F}.transition_fn.conditional_log_prob_fn",
      *replace_stmt("return model.log_prob", "return model.vars[name].log_prob + model.log_lik"),
      note="prior + likelihood: factors through non-observed children dropped",
      expect_rule="C13.R2"),
    V("c13_probs", "M", G, f"{F}.transition_fn",
      *replace_expr("jax.random.categorical(prng_key, logits=conditional_log_probs)",
                    "jax.random.categorical(prng_key, logits=jnp.exp(conditional_log_probs))"),
      note="probabilities passed as logits", expect_rule="C13.R2"),
    V("c13_no_state", "M", G, f"{F}.transition_fn", *replace_stmt("model.state = model_state", None),
      note="conditional evaluated at a stale state", expect_rule="C13.R2"),
    V("c13_no_update", "M", G, f"{F}.transition_fn.conditional_log_prob_fn",
      *replace_stmt("model.update('_model_log_prob')", None),
      note="log-prob not refreshed after the assignment", expect_rule="C13.R2"),
    V("c13_outcomes_cast", "M", "liesel/model/goose.py", "finite_discrete_gibbs_kernel",
      *replace_stmt("outcomes = jnp.asarray(outcomes)",
                    "outcomes = jnp.asarray(outcomes, dtype=jnp.result_type(model.vars[name].value))"),
      note="fractional outcomes truncated for an integer-valued variable", expect_rule="C13.R2"),
    V("c13_bernoulli_support", "M", "liesel/model/goose.py", "finite_discrete_gibbs_kernel",
      *replace_expr("jnp.array([0, 1], dtype=dist.dtype)", "jnp.array([1], dtype=dist.dtype)"),
      note="Bernoulli support misses 0", expect_rule="C13.R2"),
    V("c13_pipeline_late_binding", "M", D, "dist_reg_mcmc",
      *replace_stmt("tau2_kernel = tau2_gibbs_kernel(group)",
                    "tau2_kernel = GibbsKernel([position_key], lambda key, ms: "
                    "tau2_gibbs_kernel(group)._transition_fn(key, ms))"),
      note="every smoothing-variance kernel reads the LAST group when it runs",
      expect_rule="C13.R4"),
    V("c13_pipeline_other_factory", "M", D, "dist_reg_mcmc",
      *replace_stmt("tau2_kernel = tau2_gibbs_kernel(group)",
                    "tau2_kernel = GibbsKernel([position_key], tau2_jitter_fn)"),
      note="the pipeline registers something else than the verified factory's kernel",
      expect_rule="C13.R4"),
    # ---- twins
    V("c13_t_outcomes_array", "T", "liesel/model/goose.py", "finite_discrete_gibbs_kernel",
      *replace_stmt("outcomes = jnp.asarray(outcomes)", "outcomes = jnp.array(outcomes)"),
      note="array instead of asarray"),
    V("c13_t_names", "T", D, T, *replace_stmt("a_gibbs = jnp.squeeze(a_prior + 0.5 * rank)",
                                              "shape = jnp.squeeze(a_prior + rank / 2)\na_gibbs = shape"),
      note="intermediate names, rank / 2"),
    V("c13_t_full_update", "T", G, f"{F}.transition_fn.conditional_log_prob_fn",
      *replace_stmt("model.update('_model_log_prob')", "model.update()"), note="full update"),
]
VARIANTS += [
    V("c13_t_pipeline_temp", "T", D, "dist_reg_mcmc",
      *replace_stmt("tau2_kernel = tau2_gibbs_kernel(group)",
                    "the_group = group\ntau2_kernel = tau2_gibbs_kernel(the_group)"),
      note="temporary"),
]
VARIANTS = [v for v in VARIANTS if v.vid != "c13_group_key"]
