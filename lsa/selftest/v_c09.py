import ast

from .runner import (V, expr, expr_is, is_assign_to, replace_expr, replace_stmt, stmt)

Q = "liesel/goose/kernel_sequence.py"
N = "liesel/goose/nuts.py"
H = "liesel/goose/hmc.py"
G = "liesel/goose/gibbs.py"
RW = "liesel/goose/rw.py"
D = "liesel/model/distreg.py"
MG = "liesel/model/goose.py"

VARIANTS = [
    V("c09_raw_merge", "M", G, "GibbsKernel.transition",
      *replace_expr("self.model.update_state(position, model_state)", "model_state | position"),
      note="state patched by hand: derived quantities stale", expect_rule="C09.R1"),
    V("c09_nuts_old_state", "M", N, "NUTSKernel._standard_transition",
      *replace_stmt("model_state = self.model.update_state(blackjax_state.position, model_state)",
                    "new_state = self.model.update_state(blackjax_state.position, model_state)"),
      note="NUTS returns the input state (dropping the move) -- still coherent, caught by "
           "C04; here as a twin of C09", ),
    V("c09_no_rebind", "M", Q, "KernelSequence.transition",
      *replace_stmt("model_state = result.model_state", None),
      note="every kernel starts from the iteration's initial state", expect_rule="C09.R3"),
    V("c09_keys0", "M", Q, "KernelSequence.transition",
      *replace_expr("kernel_states[i]", "kernel_states[0]"),
      note="kernel state index", expect_rule="C09.R3"),
    V("c09_reversed", "M", Q, "KernelSequence.transition",
      *replace_expr("enumerate(self._kernels)", "enumerate(reversed(self._kernels))"),
      note="kernels run in reverse order", expect_rule="C09.R3"),
    V("c09_gibbs_other_key", "M", D, "tau2_gibbs_kernel.transition",
      *replace_expr("{position_key: draw}", "{group['beta'].name: draw}"),
      note="Gibbs factory writes another parameter", expect_rule="C09.R2"),
    V("c09_rw_all_keys", "M", RW, "RWKernel._standard_transition",
      *replace_expr("self.position(model_state)",
                    "self.model.extract_position(list(model_state.keys()), model_state)"),
      note="RW perturbs every entry of the model state", expect_rule="C09.R2"),
    V("c09_hmc_partial", "M", H, "HMCKernel._standard_transition",
      *replace_expr("self.model.update_state(blackjax_state.position, model_state)",
                    "{**model_state, **blackjax_state.position}"),
      note="HMC patches the state dict directly", expect_rule="C09.R1"),
    V("c09_fd_name", "M", MG, "finite_discrete_gibbs_kernel",
      *replace_expr("GibbsKernel([name], transition_fn)", "GibbsKernel([name + '_value'], transition_fn)"),
      note="registered key differs from the returned key", expect_rule="C09.R2"),
    V("c09_sorted_kernels", "M", Q, "KernelSequence.__init__",
      *replace_stmt("self._kernels = list(kernels)",
                    "self._kernels = sorted(kernels, key=lambda k: k.identifier)"),
      note="kernels re-ordered by identifier", expect_rule="C09.R3"),
    V("c09_targeted_writeback", "M", "liesel/goose/interface.py", "LieselInterface.update_state",
      *replace_stmt("self._model.update()",
                    "self._model.update('_model_log_lik', '_model_log_prior', '_model_log_prob')"),
      note="derived quantities outside the log-prob ancestors stay stale", expect_rule="C09.R4"),
    V("c09_reject_mixes_states", "M", "liesel/goose/mh.py", "mh_step",
      lambda nd: is_assign_to(nd, "model_state") and "lax.cond" in ast.unparse(nd),
      lambda nd: stmt("model_state = jax.tree_util.tree_map(lambda p, q: jnp.where(do_accept, p, q) "
                      "if jnp.issubdtype(p.dtype, jnp.floating) else p, proposed_model_state, model_state)"),
      note="a rejection keeps the proposal's integer leaves", expect_rule="C09.R5"),
    V("c09_factory_late_binding", "M", D, "dist_reg_mcmc",
      *replace_stmt("tau2_kernel = tau2_gibbs_kernel(group)",
                    "tau2_kernel = GibbsKernel([position_key], lambda key, ms: "
                    "tau2_gibbs_kernel(group)._transition_fn(key, ms))"),
      note="every kernel of the loop writes the last group's key", expect_rule="C09.R2"),
    # ---- twins
    V("c09_t_tmp", "T", Q, "KernelSequence.transition",
      *replace_stmt("model_state = result.model_state",
                    "new_state = result.model_state\nmodel_state = new_state"),
      note="temporary for the rebinding"),
    V("c09_t_kw", "T", G, "GibbsKernel.transition",
      *replace_expr("self.model.update_state(position, model_state)",
                    "self.model.update_state(position=position, model_state=model_state)"),
      note="keyword arguments"),
]
# the NUTS old-state variant keeps the state coherent: it is a twin for C09
VARIANTS[1].kind = "T"
