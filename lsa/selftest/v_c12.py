import ast

from .runner import (V, expr, expr_is, is_assign_to, replace_expr, replace_stmt, stmt)

M = "liesel/goose/mm.py"
N = "liesel/goose/nuts.py"
H = "liesel/goose/hmc.py"
E = "liesel/goose/engine.py"

OLD = ("return jnp.column_stack([jax.vmap(jnp.ravel, in_axes=0, out_axes=0)(x) "
       "for x in history.values()])")

VARIANTS = [
    V("c12_values_order", "M", M, "_history_to_matrix",
      lambda nd: isinstance(nd, ast.Return), lambda nd: stmt(OLD),
      note="revert to history.values() (insertion order = listed key order)",
      expect_rule="C12.R1"),
    V("c12_listed_order", "M", M, "_history_to_matrix",
      lambda nd: isinstance(nd, ast.Return),
      lambda nd: stmt("return jnp.column_stack([jax.vmap(jnp.ravel)(history[k]) for k in history])"),
      note="iterate the dict (insertion order)", expect_rule="C12.R1"),
    V("c12_whole_history_nuts", "M", N, "NUTSKernel._tune_slow",
      *replace_stmt("history = Position({k: history[k] for k in self.position_keys})", None),
      note="tuner sees other kernels' parameters", expect_rule="C12.R2"),
    V("c12_whole_history_hmc", "M", H, "HMCKernel._tune_slow",
      *replace_stmt("history = Position({k: history[k] for k in self.position_keys})", None),
      note="tuner sees other kernels' parameters", expect_rule="C12.R2"),
    V("c12_trace_diag", "M", N, "NUTSKernel._tune_slow",
      *replace_stmt("trace_fn = jnp.sum", "trace_fn = jnp.trace"),
      note="trace of a vector for the diagonal case", expect_rule="C12.R2"),
    V("c12_eye_wrong", "M", N, "NUTSKernel.init_state",
      *replace_expr("jnp.ones_like(flat_position)", "jnp.ones(len(self.position_keys))"),
      note="initial matrix sized by number of keys", expect_rule="C12.R1"),
    V("c12_hist_axis_none", "M", E, "Engine._tune_kernels",
      *replace_expr("(0, 0, 0, None, 0)", "(0, 0, 0, None, None)"),
      note="all chains tune on the pooled history array with a chain axis",
      expect_rule="C12.R3"),
    V("c12_store_old", "M", H, "HMCKernel._tune_slow",
      *replace_stmt("kernel_state.inverse_mass_matrix = new_inv_mm",
                    "kernel_state.inverse_mass_matrix = old_inv_mm"),
      note="tuned matrix dropped"),
    V("c12_leaf_transposed", "M", M, "_history_to_matrix",
      lambda nd: isinstance(nd, ast.Return),
      lambda nd: stmt("return jnp.concatenate([x.T.reshape(-1, x.shape[0]) for x in "
                      "jax.tree_util.tree_leaves(history)], axis=0).T"),
      note="column-major element order inside matrix-valued leaves", expect_rule="C12.R1"),
    V("c12_leaf_order_f", "M", M, "_history_to_matrix",
      lambda nd: isinstance(nd, ast.Return),
      lambda nd: stmt("return jnp.column_stack([x.reshape((x.shape[0], -1), order='F') for x "
                      "in jax.tree_util.tree_leaves(history)])"),
      note="Fortran-order reshape", expect_rule="C12.R1"),
    V("c12_seq_history_rebound", "M", "liesel/goose/kernel_sequence.py", "KernelSequence.tune",
      lambda nd: isinstance(nd, ast.Assign) and ast.unparse(nd.targets[0]) == "result",
      lambda nd: stmt("result = kernel.tune(keys[i], kernel_states[i], model_state, phase, history)\n"
                      "history = None"),
      note="only the first kernel sees the history", expect_rule="C12.R3"),
    V("c12_seq_history_dropped", "M", "liesel/goose/kernel_sequence.py", "KernelSequence.tune",
      *replace_expr("kernel.tune(keys[i], kernel_states[i], model_state, phase, history)",
                    "kernel.tune(keys[i], kernel_states[i], model_state, phase, None)"),
      note="no kernel sees the history", expect_rule="C12.R3"),
    V("c12_var_axis", "M", M, "tune_inv_mm_diag",
      *replace_expr("jnp.var(matrix, axis=0, ddof=1)", "jnp.var(matrix, axis=1, ddof=1)"),
      note="variance over the coordinates instead of over time", expect_rule="C12.R1"),
    V("c12_cov_rowvar", "M", M, "tune_inv_mm_full",
      *replace_expr("jnp.cov(matrix, rowvar=False)", "jnp.cov(matrix, rowvar=True)"),
      note="time points treated as variables", expect_rule="C12.R1"),
    V("c12_reg_subtracted", "M", M, "tune_inv_mm_diag",
      *replace_stmt("var = var + 0.001", "var = var - 0.001"),
      note="regulariser subtracted", expect_rule="C12.R1"),
    V("c12_reg_offdiag", "M", M, "tune_inv_mm_full",
      *replace_expr("cov.at[jnp.diag_indices_from(cov)].add(0.001)",
                    "cov.at[jnp.triu_indices_from(cov)].add(0.001)"),
      note="regulariser added to the upper triangle", expect_rule="C12.R1"),
    V("c12_step_divided", "M", N, "NUTSKernel._tune_slow",
      *replace_stmt("kernel_state.step_size = adjustment * kernel_state.step_size",
                    "kernel_state.step_size = kernel_state.step_size / adjustment"),
      note="step size rescaled in the wrong direction", expect_rule="C12.R2"),
    V("c12_guard_negated", "M", H, "HMCKernel._tune_slow",
      *replace_expr("history is not None", "history is None"),
      note="re-tuning only without history", expect_rule="C12.R2"),
    V("c12_init_arms_swapped", "M", N, "NUTSKernel.init_state",
      *replace_expr("self.mm_diag", "not self.mm_diag"),
      note="dense identity in diagonal mode and vice versa", expect_rule="C12.R1"),
    # ---- twins
    V("c12_t_reshape_rowmajor", "T", M, "_history_to_matrix",
      lambda nd: isinstance(nd, ast.Return),
      lambda nd: stmt("return jnp.column_stack([x.reshape(x.shape[0], -1) "
                      "for x in jax.tree_util.tree_leaves(history)])"),
      note="row-major reshape per leaf"),
    V("c12_t_moveaxis", "T", M, "_history_to_matrix",
      lambda nd: isinstance(nd, ast.Return),
      lambda nd: stmt("return jnp.concatenate([jnp.moveaxis(x, 0, -1).reshape(-1, x.shape[0]) "
                      "for x in jax.tree_util.tree_leaves(history)], axis=0).T"),
      note="time axis moved last, remaining axes keep their order"),
    V("c12_t_seq_kwargs", "T", "liesel/goose/kernel_sequence.py", "KernelSequence.tune",
      *replace_expr("kernel.tune(keys[i], kernel_states[i], model_state, phase, history)",
                    "kernel.tune(keys[i], kernel_states[i], model_state, epoch=phase, history=history)"),
      note="keyword arguments"),
    V("c12_t_sorted", "T", M, "_history_to_matrix",
      lambda nd: isinstance(nd, ast.Return),
      lambda nd: stmt("return jnp.column_stack([jax.vmap(jnp.ravel)(history[k]) "
                      "for k in sorted(history)])"),
      note="explicitly sorted keys"),
    V("c12_t_tree_leaves", "T", M, "_history_to_matrix",
      lambda nd: isinstance(nd, ast.Return),
      lambda nd: stmt("return jnp.column_stack([jax.vmap(jnp.ravel)(x) "
                      "for x in jax.tree_util.tree_leaves(history)])"),
      note="tree_leaves order"),
    V("c12_t_tmp", "T", N, "NUTSKernel._tune_slow",
      *replace_stmt("old_inv_mm = kernel_state.inverse_mass_matrix",
                    "previous = kernel_state.inverse_mass_matrix\nold_inv_mm = previous"),
      note="temporary"),
]
