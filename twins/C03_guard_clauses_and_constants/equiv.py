"""
Deterministic behaviour digest for the Goose model interfaces and the model code they
rest on (Model.state / Model.update / Model._copy_computational_model).

Run with the library under test first on PYTHONPATH, e.g. from the worktree root:

    PYTHONPATH=$PWD python _twin/<name>/equiv.py

Prints one line per observation; the last line is a sha256 over all of them.
"""

import dataclasses
import hashlib
import warnings
from typing import NamedTuple

import jax
import jax.numpy as jnp
import numpy as np
import tensorflow_probability.substrates.jax.distributions as tfd

import liesel.goose as gs
import liesel.model as lsl
from liesel.goose.types import Position
from liesel.model.goose import GooseModel, finite_discrete_gibbs_kernel

LINES: list[str] = []


def fmt(x) -> str:
    """Canonical, bit-exact text form of (nested) results."""
    if isinstance(x, dict):
        return "{" + ", ".join(f"{k!r}: {fmt(v)}" for k, v in x.items()) + "}"
    if isinstance(x, tuple) and hasattr(x, "_fields"):
        inner = ", ".join(f"{f}={fmt(getattr(x, f))}" for f in x._fields)
        return f"{type(x).__name__}({inner})"
    if dataclasses.is_dataclass(x) and not isinstance(x, type):
        inner = ", ".join(
            f"{f.name}={fmt(getattr(x, f.name))}" for f in dataclasses.fields(x)
        )
        return f"{type(x).__name__}({inner})"
    if isinstance(x, (list, tuple)):
        return type(x).__name__ + "[" + ", ".join(fmt(v) for v in x) + "]"
    if x is None or isinstance(x, (bool, str, int)):
        return repr(x)
    if isinstance(x, float):
        return f"float:{x.hex()}"
    try:
        arr = np.asarray(x)
    except Exception:  # pragma: no cover
        return f"<{type(x).__name__}>"
    if arr.dtype == object:
        return f"<object {type(x).__name__}>"
    return f"arr[{arr.dtype}{list(arr.shape)}:{arr.tobytes().hex()}]"


def out(label: str, value) -> None:
    line = f"{label} = {fmt(value)}"
    LINES.append(line)
    print(line)


def attempt(label: str, fn) -> None:
    """Records the result of fn() or the exception it raises (type, args, context)."""
    try:
        result = fn()
    except Exception as exc:  # noqa: BLE001
        ctx = type(exc.__context__).__name__ if exc.__context__ is not None else None
        out(label, f"RAISED {type(exc).__name__}: {exc.args!r} ctx={ctx}")
    else:
        out(label, result)


# --------------------------------------------------------------------------------------
# models
# --------------------------------------------------------------------------------------


def build_regression() -> lsl.Model:
    xs = jnp.linspace(-1.0, 1.0, 7)
    x = lsl.obs(xs, name="x")
    beta = lsl.param(0.5, lsl.Dist(tfd.Normal, loc=0.0, scale=10.0), name="beta")
    sigma = lsl.param(1.5, lsl.Dist(tfd.InverseGamma, 2.0, 1.0), name="sigma")
    mu = lsl.Var(lsl.Calc(lambda x, b: x * b + 0.25, x, beta), name="mu")
    ys = 0.3 * xs + jnp.sin(3.0 * xs)
    y = lsl.obs(ys, lsl.Dist(tfd.Normal, loc=mu, scale=sigma), name="y")
    return lsl.GraphBuilder().add(y).build_model()


def build_lookup_model() -> lsl.Model:
    """A model whose calculator raises KeyError for some inputs (eager mode only)."""
    table = {0: 10.0, 1: 11.0}
    k = lsl.Var(0, name="k")
    looked = lsl.Var(lsl.Calc(lambda k: table[int(k)], k), name="looked")
    return lsl.GraphBuilder().add(looked).build_model()


def make_interfaces(model):
    with warnings.catch_warnings(record=True) as caught:
        warnings.simplefilter("always")
        gm = GooseModel(model)
    out("goosemodel.warnings", [(w.category.__name__, str(w.message)) for w in caught])
    return {"liesel": gs.LieselInterface(model), "goosemodel": gm}


# --------------------------------------------------------------------------------------
# LieselInterface / GooseModel
# --------------------------------------------------------------------------------------


def check_model_interfaces() -> None:
    model = build_regression()
    before = model.state
    out("model.repr", repr(model))
    out("model.state.keys", list(before))
    out("model.state.before", before)

    for tag, iface in make_interfaces(model).items():
        p = f"{tag}."
        out(p + "type", type(iface).__name__)
        out(p + "inner.is_model", iface._model is model)
        out(p + "inner.auto_update", iface._model.auto_update)
        out(p + "inner.state", iface._model.state)
        out(p + "model.state.after_init", model.state)

        # extract: by node name, by variable name, mixed, empty, weak var, unknown
        st = model.state
        attempt(p + "extract.node", lambda: iface.extract_position(["beta_value"], st))
        attempt(p + "extract.var", lambda: iface.extract_position(["beta"], st))
        attempt(
            p + "extract.mixed",
            lambda: iface.extract_position(
                ("sigma", "beta_value", "mu", "y_log_prob", "_model_log_prob"), st
            ),
        )
        attempt(p + "extract.empty", lambda: iface.extract_position([], st))
        attempt(p + "extract.generator", lambda: iface.extract_position(iter("x"), st))
        attempt(p + "extract.unknown", lambda: iface.extract_position(["nope"], st))
        attempt(
            p + "extract.partial_state",
            lambda: iface.extract_position(["beta"], {"beta_var_value": st["y_value"]}),
        )
        attempt(
            p + "extract.var_missing_in_state",
            lambda: iface.extract_position(["beta"], {}),
        )
        attempt(
            p + "extract.type",
            lambda: type(iface.extract_position(["beta"], st)).__name__,
        )

        # update: sequences of calls with different arguments
        pos_a = Position({"beta": jnp.asarray(2.0)})
        pos_b = Position({"beta_value": jnp.asarray(-1.25), "sigma": jnp.asarray(0.7)})
        pos_c = Position({"sigma_value": jnp.asarray(3.0)})

        s_a = iface.update_state(pos_a, st)
        out(p + "update.a", s_a)
        out(p + "update.a.keys", list(s_a))
        out(p + "update.a.is_input", s_a is st)
        s_b = iface.update_state(pos_b, st)
        out(p + "update.b", s_b)
        s_a2 = iface.update_state(pos_a, st)
        out(p + "update.a_again_equal", fmt(s_a2) == fmt(s_a))
        s_ab = iface.update_state(pos_c, s_b)
        out(p + "update.c_on_b", s_ab)
        s_empty = iface.update_state(Position({}), s_ab)
        out(p + "update.empty_on_cb", s_empty)
        out(p + "update.input_untouched", fmt(st) == fmt(before))
        out(p + "update.model_untouched", fmt(model.state) == fmt(before))
        out(p + "inner.state.after_calls", iface._model.state)

        # get after put
        attempt(
            p + "roundtrip.b",
            lambda: iface.extract_position(list(pos_b), iface.update_state(pos_b, st)),
        )
        attempt(p + "log_prob.before", lambda: iface.log_prob(st))
        attempt(p + "log_prob.a", lambda: iface.log_prob(s_a))
        attempt(p + "log_prob.no_key", lambda: iface.log_prob({}))

        # direct assignment on a fresh model for comparison
        direct = build_regression()
        direct.vars["beta"].value = jnp.asarray(2.0)
        out(p + "direct.a.equal", fmt(direct.state) == fmt(s_a))
        out(p + "direct.a.log_prob", direct.log_prob)

        # failures and what they leave behind
        attempt(p + "update.unknown", lambda: iface.update_state({"nope": 1.0}, st))
        attempt(p + "update.weak_var", lambda: iface.update_state({"mu": 1.0}, st))
        attempt(
            p + "update.calc_node", lambda: iface.update_state({"mu_value": 1.0}, st)
        )
        attempt(
            p + "update.half_then_unknown",
            lambda: iface.update_state({"beta": jnp.asarray(9.0), "nope": 1.0}, st),
        )
        out(p + "inner.state.after_failures", iface._model.state)
        attempt(
            p + "update.bad_state_key", lambda: iface.update_state(pos_a, {"zzz": 1})
        )
        out(p + "update.after_failures", iface.update_state(pos_b, st))

        # outdated flags in the incoming state are cleared, partial states allowed
        flagged = {k: type(v)(v.value, True) for k, v in st.items()}
        out(p + "update.flagged_state", iface.update_state(pos_c, flagged))
        part = {k: st[k] for k in ("beta_value", "sigma_value")}
        out(p + "update.partial_state", iface.update_state(pos_a, part))

        # eager / jit / vmap
        jitted = jax.jit(iface.update_state)
        out(p + "jit.a.equal_eager", fmt(jitted(pos_a, st)) == fmt(s_a))
        out(p + "jit.b", jitted(pos_b, st))
        out(p + "jit.a.second_call", jitted(pos_a, st))
        betas = jnp.asarray([2.0, -1.25, 0.0])
        batched = jax.vmap(lambda b: iface.update_state({"beta": b}, st))(betas)
        out(p + "vmap.beta", batched)
        out(
            p + "vmap.log_prob",
            jax.vmap(lambda b: iface.log_prob(iface.update_state({"beta": b}, st)))(
                betas
            ),
        )
        out(
            p + "jit.extract",
            jax.jit(lambda s: iface.extract_position(["beta", "sigma_value"], s))(s_b),
        )
        grad = jax.grad(lambda b: iface.log_prob(iface.update_state({"beta": b}, st)))
        out(p + "grad.beta", grad(jnp.asarray(0.5)))
        out(p + "eager.after_tracing", iface.update_state(pos_a, st))
        out(p + "model.state.final_equal", fmt(model.state) == fmt(before))


def check_keyerror_from_calculator() -> None:
    model = build_lookup_model()
    st = model.state
    out("lookup.state", st)
    for tag, iface in make_interfaces(model).items():
        p = f"lookup.{tag}."
        attempt(p + "ok.var", lambda: iface.update_state({"k": 1}, st))
        attempt(p + "bad.var", lambda: iface.update_state({"k": 5}, st))
        out(p + "inner.after_bad_var", iface._model.state)
        attempt(p + "bad.node", lambda: iface.update_state({"k_value": 7}, st))
        out(p + "inner.after_bad_node", iface._model.state)
        attempt(p + "ok.node", lambda: iface.update_state({"k_value": 0}, st))
        out(p + "model.untouched", fmt(model.state) == fmt(st))


# --------------------------------------------------------------------------------------
# Model.state / Model.update / Model._copy_computational_model
# --------------------------------------------------------------------------------------


def flags(model) -> dict:
    return {name: node.outdated for name, node in model.nodes.items()}


def check_model_methods() -> None:
    model = build_regression()
    before = model.state

    model.auto_update = False
    hollow = model._copy_computational_model()
    out("copy.type", type(hollow).__name__)
    out("copy.is_self", hollow is model)
    out("copy.auto_update", hollow.auto_update)
    out("copy.state", hollow.state)
    out("copy.flags", flags(hollow))
    out("copy.nodes", list(hollow.nodes))
    out("copy.vars", list(hollow.vars))
    out("copy.shares_nodes", any(hollow.nodes[n] is model.nodes[n] for n in model.nodes))
    out("copy.model_state_equal", fmt(model.state) == fmt(before))
    out("copy.model_flags", flags(model))
    out("copy.node_models", all(n.model is hollow for n in hollow.nodes.values()))
    model.auto_update = True
    out("copy.auto_update.after", (hollow.auto_update, model.auto_update))

    # state setter: partial, unknown key, full
    attempt("state.set.partial", lambda: setattr(hollow, "state", {"x_value": before["x_value"]}))
    out("state.after_partial", hollow.state)
    attempt(
        "state.set.unknown",
        lambda: setattr(
            hollow, "state", {"beta_value": before["beta_value"], "zzz": 1, "sigma_value": before["sigma_value"]}
        ),
    )
    out("state.after_unknown", hollow.state)
    hollow.state = before
    out("state.after_full", hollow.state)
    out("state.getter.fresh_dict", hollow.state is hollow.state)

    # update: targeted and full sweeps with auto_update off
    m = build_regression()
    m.auto_update = False
    m.vars["beta"].value = jnp.asarray(-3.0)
    m.vars["sigma"].value = jnp.asarray(2.5)
    out("update.flags.dirty", flags(m))
    attempt("update.unknown", lambda: m.update("mu_value", "zzz"))
    out("update.flags.after_unknown", flags(m))
    out("update.returns_self", m.update("mu_value") is m)
    out("update.flags.after_mu", flags(m))
    out("update.state.after_mu", m.state)
    m.update("sigma_log_prob", "beta_log_prob")
    out("update.flags.after_priors", flags(m))
    m.update("x_value")
    out("update.flags.after_data", flags(m))
    m.update()
    out("update.flags.after_full", flags(m))
    out("update.state.after_full", m.state)
    m.update()
    out("update.state.idempotent", m.state)
    out("update.log_prob", m.log_prob)

    # a second copy taken from a dirty model keeps the dirt in the original only
    m.vars["beta"].value = jnp.asarray(4.0)
    dirty = m.state
    c2 = m._copy_computational_model()
    out("copy2.state", c2.state)
    out("copy2.origin_equal", fmt(m.state) == fmt(dirty))
    out("copy2.origin_flags", flags(m))


# --------------------------------------------------------------------------------------
# finite discrete Gibbs kernel (uses the same hollow copy + state loading)
# --------------------------------------------------------------------------------------


def check_gibbs_kernel() -> None:
    values = [0.0, 1.0, 2.0]
    grid = lsl.Var(values, name="value_grid")
    prior = lsl.Dist(tfd.FiniteDiscrete, outcomes=grid, probs=[0.1, 0.2, 0.7])
    cat = lsl.Var(values[0], prior, name="categorical_var")
    model = lsl.GraphBuilder().add(cat).build_model()
    before = model.state

    kernel = finite_discrete_gibbs_kernel("categorical_var", model)
    out("gibbs.position_keys", list(kernel.position_keys))
    for seed in range(4):
        key = jax.random.PRNGKey(seed)
        out(f"gibbs.draw.{seed}", kernel._transition_fn(key, model.state))
    out("gibbs.jit", jax.jit(kernel._transition_fn)(jax.random.PRNGKey(1), model.state))
    out("gibbs.after_jit", kernel._transition_fn(jax.random.PRNGKey(1), model.state))
    out("gibbs.model_untouched", fmt(model.state) == fmt(before))
    out("gibbs.model_auto_update", model.auto_update)

    flagged = {k: type(v)(v.value, True) for k, v in before.items()}
    out("gibbs.flagged", kernel._transition_fn(jax.random.PRNGKey(2), flagged))
    attempt("gibbs.bad_state", lambda: kernel._transition_fn(jax.random.PRNGKey(2), {"q": 1}))

    bern = lsl.Var(1, lsl.Dist(tfd.Bernoulli, probs=lsl.Value(0.7)), name="dummy")
    bmodel = lsl.GraphBuilder().add(bern).build_model()
    k2 = finite_discrete_gibbs_kernel("dummy", bmodel, outcomes=[0, 1])
    out("gibbs.bernoulli", k2._transition_fn(jax.random.PRNGKey(3), bmodel.state))
    k3 = finite_discrete_gibbs_kernel("dummy", bmodel)
    out("gibbs.bernoulli.auto", k3._transition_fn(jax.random.PRNGKey(3), bmodel.state))
    nrm = lsl.Var(1.0, lsl.Dist(tfd.Normal, loc=0.0, scale=1.0), name="nrm")
    nmodel = lsl.GraphBuilder().add(nrm).build_model()
    attempt("gibbs.no_outcomes", lambda: finite_discrete_gibbs_kernel("nrm", nmodel))


# --------------------------------------------------------------------------------------
# dict / dataclass / named tuple interfaces
# --------------------------------------------------------------------------------------


@dataclasses.dataclass
class DState:
    x: jnp.ndarray
    loc: jnp.ndarray
    scale: jnp.ndarray


@dataclasses.dataclass(frozen=True)
class FrozenState:
    x: float
    loc: float


class NState(NamedTuple):
    x: jnp.ndarray
    loc: jnp.ndarray
    scale: jnp.ndarray


def check_plain_interfaces() -> None:
    def lp_dict(s):
        return tfd.Normal(s["loc"], s["scale"]).log_prob(s["x"])

    def lp_attr(s):
        return tfd.Normal(s.loc, s.scale).log_prob(s.x)

    vals = dict(x=jnp.asarray(0.5), loc=jnp.asarray(0.0), scale=jnp.asarray(2.0))
    pos = Position({"x": jnp.asarray(1.0), "scale": jnp.asarray(0.5)})

    cases = {
        "dict": (gs.DictInterface(lp_dict), dict(vals)),
        "dataclass": (gs.DataclassInterface(lp_attr), DState(**vals)),
        "namedtuple": (gs.NamedTupleInterface(lp_attr), NState(**vals)),
    }

    for tag, (iface, state) in cases.items():
        p = f"plain.{tag}."
        snapshot = fmt(state)
        out(p + "mro", [c.__name__ for c in type(iface).__mro__ if c is not object][:1])
        out(p + "log_prob_fn.stored", iface._log_prob_fn in (lp_dict, lp_attr))
        attempt(p + "log_prob", lambda: iface.log_prob(state))
        attempt(p + "extract", lambda: iface.extract_position(["scale", "x"], state))
        attempt(p + "extract.empty", lambda: iface.extract_position([], state))
        attempt(p + "extract.iter", lambda: iface.extract_position(iter(["x"]), state))
        attempt(
            p + "extract.type",
            lambda: type(iface.extract_position(["x"], state)).__name__,
        )
        attempt(p + "extract.unknown", lambda: iface.extract_position(["x", "q"], state))
        new = iface.update_state(pos, state)
        out(p + "update", new)
        out(p + "update.type", type(new).__name__)
        out(p + "update.is_input", new is state)
        out(p + "update.input_untouched", fmt(state) == snapshot)
        empty = iface.update_state(Position({}), state)
        out(p + "update.empty", empty)
        out(p + "update.empty.is_input", empty is state)
        attempt(p + "roundtrip", lambda: iface.extract_position(list(pos), new))
        attempt(p + "log_prob.new", lambda: iface.log_prob(new))
        attempt(p + "update.unknown", lambda: iface.update_state({"x": 3.0, "q": 1.0}, state))
        attempt(p + "update.unknown_first", lambda: iface.update_state({"q": 1.0, "x": 3.0}, state))
        out(p + "update.input_untouched.after_error", fmt(state) == snapshot)
        out(p + "again", iface.update_state(pos, state))
        out(
            p + "jit.log_prob",
            jax.jit(lambda v: iface.log_prob(iface.update_state({"x": v}, state)))(
                jnp.asarray(1.0)
            ),
        )
        out(
            p + "vmap.log_prob",
            jax.vmap(lambda v: iface.log_prob(iface.update_state({"x": v}, state)))(
                jnp.asarray([1.0, 0.5, -2.0])
            ),
        )

    di = gs.DataclassInterface(lambda s: s.x)
    frozen = FrozenState(1.0, 2.0)
    attempt("plain.dataclass.frozen", lambda: di.update_state({"x": 2.0}, frozen))
    attempt("plain.dataclass.frozen.empty", lambda: di.update_state({}, frozen))
    attempt("plain.dataclass.frozen.unknown", lambda: di.update_state({"q": 2.0}, frozen))
    out("plain.dataclass.frozen.untouched", frozen)
    attempt("plain.dataclass.method_name", lambda: di.update_state({"__class__": DState}, FrozenState(1.0, 2.0)))
    attempt("plain.dict.non_dict_state", lambda: gs.DictInterface(len).update_state({"a": 1}, [1]))
    attempt("plain.dict.log_prob_error", lambda: gs.DictInterface(lambda s: s["q"]).log_prob({}))
    attempt("plain.namedtuple.on_dict", lambda: gs.NamedTupleInterface(len).update_state({"a": 1}, {"a": 0}))

    for cls in (gs.DictInterface, gs.DataclassInterface, gs.NamedTupleInterface, gs.LieselInterface):
        out(f"plain.{cls.__name__}.public", sorted(n for n in dir(cls) if not n.startswith("_")))
        out(f"plain.{cls.__name__}.bases", [b.__name__ for b in cls.__bases__ if b is not object])


def main() -> None:
    check_model_interfaces()
    check_keyerror_from_calculator()
    check_model_methods()
    check_gibbs_kernel()
    check_plain_interfaces()
    digest = hashlib.sha256("\n".join(LINES).encode()).hexdigest()
    print(f"lines={len(LINES)} sha256={digest}")


if __name__ == "__main__":
    main()
