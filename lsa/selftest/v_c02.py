import ast

from .runner import (V, expr, expr_is, is_assign_to, is_expr_call, replace_expr,
                     replace_stmt, stmt)

M = "liesel/model/model.py"
N = "liesel/model/nodes.py"
G = "GraphBuilder"

VARIANTS = [
    V("c02_lik_uses_parameter", "M", M, f"{G}._add_model_log_lik_node",
      *replace_expr("v.has_dist and v.observed", "v.has_dist and v.parameter"),
      note="likelihood sums the priors", expect_rule="C02.R1"),
    V("c02_prior_uses_observed", "M", M, f"{G}._add_model_log_prior_node",
      *replace_expr("v.has_dist and v.parameter", "v.has_dist and v.observed"),
      note="prior sums the likelihood", expect_rule="C02.R1"),
    V("c02_no_has_dist", "M", M, f"{G}._add_model_log_lik_node",
      *replace_expr("v.has_dist and v.observed", "v.observed"),
      note="observed variables without distribution contribute None", expect_rule="C02.R1"),
    V("c02_prob_from_vars", "M", M, f"{G}._add_model_log_prob_node",
      *replace_stmt("inputs = (n for n in nodes if isinstance(n, Dist))",
                    "inputs = (v.dist_node for v in _ if v.has_dist)"),
      note="stand-alone Dist nodes missing from log_prob", expect_rule="C02.R1"),
    V("c02_sum_after_add", "M", M, "_reduced_sum",
      *replace_stmt("return sum(reduced)", "return sum(args).sum()"),
      note="broadcast-add then sum: per_obs changes the totals", expect_rule="C02.R2"),
    V("c02_logprob_of_value", "M", N, "Dist.update",
      *replace_expr("self.init_dist().log_prob(self.at.value)", "self.init_dist().log_prob(self.value)"),
      note="density at the cached log-prob instead of the variable's value", expect_rule="C02.R2"),
    V("c02_per_obs_inverted", "M", N, "Dist.update",
      *replace_expr("not self.per_obs and hasattr(log_prob, 'sum')", "self.per_obs and hasattr(log_prob, 'sum')"),
      note="per_obs meaning inverted", expect_rule="C02.R2"),
    V("c02_reader_wrong_node", "M", M, "Model.log_prob",
      *replace_expr("self._nodes['_model_log_prob'].value", "self._nodes['_model_log_lik'].value"),
      note="Model.log_prob returns the likelihood", expect_rule="C02.R3"),
    V("c02_user_node_ignored", "M", M, f"{G}._add_model_log_prior_node",
      lambda nd: isinstance(nd, ast.If) and ast.unparse(nd.test) == "self.log_prior_node",
      lambda nd: None, note="user-supplied log-prior node ignored", expect_rule="C02.R3"),
    V("c02_names_before_transform", "M", M, f"{G}.build_model",
      lambda nd: isinstance(nd, ast.For) and "auto_transform" in ast.unparse(nd),
      lambda nd: stmt("gb._add_model_log_lik_node()") + [nd],
      note="model nodes added before the auto-transforms", expect_rule="C02.R4"),
    V("c02_copy_drops_lik", "M", M, "GraphBuilder.copy",
      *replace_stmt("gb.log_lik_node = self.log_lik_node", None),
      note="the builder copy used by build_model forgets the user's log_lik node",
      expect_rule="C02.R3"),
    V("c02_copy_swaps", "M", M, "GraphBuilder.copy",
      *replace_stmt("gb.log_prob_node = self.log_prob_node",
                    "gb.log_prob_node = self.log_prior_node"),
      note="user log_prior node used as log_prob", expect_rule="C02.R3"),
    # ---- twins
    V("c02_t_list", "T", M, f"{G}._add_model_log_lik_node",
      *replace_stmt("inputs = (v.dist_node for v in _vars if v.has_dist and v.observed)",
                    "inputs = [v.dist_node for v in _vars if v.observed and v.has_dist]"),
      note="list instead of generator, conjuncts reordered"),
    V("c02_t_tmp", "T", N, "Dist.update",
      *replace_stmt("self._value = log_prob", "out = log_prob\nself._value = out"), note="temporary"),
]
