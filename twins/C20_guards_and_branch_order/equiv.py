"""
Deterministic equivalence driver for liesel/goose/optim.py.

Run from the worktree root with PYTHONPATH pointing at the tree under test:

    PYTHONPATH=$PWD /venv/bin/python _twin/<name>/equiv.py > out.txt

Everything that is printed is a function of the library's behaviour only (no
paths, no timings), so the output on HEAD and on the patched tree must be
byte-identical.
"""

import hashlib
import itertools
import os
import sys

os.environ.setdefault("JAX_PLATFORMS", "cpu")

import jax
import jax.numpy as jnp
import numpy as np
import tensorflow_probability.substrates.jax.distributions as tfd

import liesel.goose as gs
import liesel.model as lsl
from liesel.goose import optim as optim_mod
from liesel.goose.optim import (
    OptimResult,
    Stopper,
    _find_observed,
    _find_sample_size,
    _generate_batch_indices,
    _validate_log_prob_decomposition,
    array_to_dict,
    batched_nodes,
    history_to_df,
    optim_flat,
)


def h(x) -> str:
    a = np.asarray(x)
    d = hashlib.sha256(a.tobytes()).hexdigest()[:16]
    return f"{a.dtype}{list(a.shape)}:{d}"


def show(label, x):
    a = np.asarray(x)
    flat = a.ravel()
    head = " ".join(repr(float(v)) for v in flat[:4])
    print(f"{label}: {h(a)} [{head}]")


# -------------------------------------------------------------------------------------
# 1. Stopper: exhaustive over small alphabets


def stopper_exhaustive():
    print("== stopper exhaustive")
    alphabet = [0.0, 1.0, 1.0005, -2.0, float("nan")]
    length = 5
    hist = np.array(list(itertools.product(alphabet, repeat=length)), dtype=np.float32)
    idx = np.arange(length, dtype=np.int32)
    H = jnp.asarray(np.repeat(hist, length, axis=0))
    I = jnp.asarray(np.tile(idx, hist.shape[0]))

    tols = [(1e-3, 0.0), (0.0, 0.0), (0.0, 1e-3), (0.5, 0.25), (-1.0, -1.0)]
    for patience in range(1, length + 1):
        for atol, rtol in tols:
            for max_iter in (3, length):
                st = Stopper(max_iter=max_iter, patience=patience, atol=atol, rtol=rtol)
                se = jax.jit(jax.vmap(lambda i, lh: st.stop_early(i, lh)))(I, H)
                sn = jax.jit(jax.vmap(lambda i, lh: st.stop_now(i, lh)))(I, H)
                co = jax.jit(jax.vmap(lambda i, lh: st.continue_(i, lh)))(I, H)
                wb = jax.jit(
                    jax.vmap(lambda i, lh: st.which_best_in_recent_history(i, lh))
                )(I, H)
                print(
                    f"p={patience} atol={atol} rtol={rtol} max_iter={max_iter} "
                    f"early={h(se)}/{int(se.sum())} now={h(sn)}/{int(sn.sum())} "
                    f"cont={h(co)}/{int(co.sum())} best={h(wb)}/{int(wb.sum())}"
                )

    # un-jitted calls, python-int and array iteration index, documented test histories
    print("== stopper eager")
    histories = [
        jnp.array([3.0, 2.0, 1.0, 1.0, 1.0, 1.0, 5.0, 0.0]),
        jnp.array([1.0, 0.9995, 0.9991, 0.9990, 0.9989, 0.9988, 0.9987, 0.1]),
        jnp.array([0.0, 0.0, 0.0, 0.0, 0.0, 0.0, 0.0, 0.0]),
        jnp.array([-1.0, -2.0, -3.0, -3.0, -2.5, -3.0005, -3.0, -3.0]),
        10.0 - jnp.arange(8),
    ]
    for k, lh in enumerate(histories):
        for patience in (1, 2, 3, 8):
            for atol, rtol in ((1e-3, 0.0), (0.0, 1e-3), (0.0, 0.0)):
                st = Stopper(max_iter=7, patience=patience, atol=atol, rtol=rtol)
                row = []
                for i in range(8):
                    for ii in (i, jnp.asarray(i)):
                        a = st.stop_early(ii, lh)
                        b = st.stop_now(i=ii, loss_history=lh)
                        c = st.continue_(ii, loss_history=lh)
                        d = st.which_best_in_recent_history(ii, lh)
                        row.append(
                            f"{int(a)}{int(b)}{int(c)}{int(d)}"
                            f"{type(a).__name__[0]}{np.asarray(d).dtype}"
                        )
                print(f"h{k} p={patience} atol={atol} rtol={rtol}: " + ",".join(row))
    st = Stopper(max_iter=7, patience=3)
    print("repr", repr(st), st == Stopper(7, 3, 1e-3, 0.0))
    print("fields", [f for f in Stopper.__dataclass_fields__])
    print(
        "public",
        sorted(n for n in vars(Stopper) if not n.startswith("_")),
    )


# -------------------------------------------------------------------------------------
# 2. Helpers


def helpers():
    print("== helpers")
    for n, bs, seed in [(23, 5, 0), (23, 7, 1), (23, 23, 2), (10, 3, 3), (11, 10, 4)]:
        b = _generate_batch_indices(jax.random.PRNGKey(seed), n, bs)
        show(f"batches n={n} bs={bs}", b)
    nodes = {"a": jnp.arange(12.0).reshape(6, 2), "b": jnp.arange(6.0)}
    bn = batched_nodes(nodes, jnp.array([4, 0, 2]))
    for k in sorted(bn):
        show(f"batched {k}", bn[k])
    print(sorted(array_to_dict(jnp.ones((3, 2)), "q")))
    print(sorted(array_to_dict(jnp.ones(3), "q", prefix_1d=True)))
    try:
        array_to_dict(jnp.ones((2, 2, 2)))
    except ValueError as e:
        print("ValueError", e)


# -------------------------------------------------------------------------------------
# 3. optim_flat


def data(n, seed):
    k1, k2 = jax.random.split(jax.random.PRNGKey(seed))
    xs = jax.random.normal(k1, (n, 2))
    ys = jnp.sum(xs * 0.5, axis=-1) + jax.random.normal(k2, (n,))
    return xs, ys


def setup_model(n, seed, sigma_param=True):
    xs, ys = data(n, seed)
    x = lsl.obs(xs, name="x")
    coef = lsl.param(jnp.zeros(2), name="coef")
    mu = lsl.Var(lsl.Calc(jnp.dot, x, coef), name="mu")
    log_sigma = lsl.Var(0.5, name="log_sigma")
    sigma = lsl.Var(lsl.Calc(jnp.exp, log_sigma), name="sigma")
    y = lsl.obs(ys, lsl.Dist(tfd.Normal, loc=mu, scale=sigma), name="y")
    return lsl.GraphBuilder().add(y).build_model()


def show_result(tag, res: OptimResult, model):
    print(f"-- {tag}")
    print(
        "iteration",
        int(res.iteration),
        "best",
        int(res.iteration_best),
        "max_iter",
        res.max_iter,
        "n",
        res.n_train,
        res.n_validation,
        type(res.iteration).__name__,
        type(res.iteration_best).__name__,
    )
    for name in sorted(res.position):
        show(f"position[{name}]", res.position[name])
    print("history keys", list(res.history))
    show("loss_train", res.history["loss_train"])
    show("loss_validation", res.history["loss_validation"])
    print(
        "nan counts",
        int(np.isnan(np.asarray(res.history["loss_train"])).sum()),
        int(np.isnan(np.asarray(res.history["loss_validation"])).sum()),
    )
    if res.history["position"] is None:
        print("position history None")
    else:
        print("position history type", type(res.history["position"]).__name__)
        for name in res.history["position"]:
            v = res.history["position"][name]
            show(f"hist[{name}]", v)
            print("  nan", int(np.isnan(np.asarray(v)).sum()))
        ib = int(res.iteration_best)
        print(
            "position == hist[best]",
            all(
                bool(jnp.all(res.history["position"][k][ib] == res.position[k]))
                for k in res.position
            ),
        )
    print("state type", type(res.model_state).__name__, len(res.model_state))
    acc = hashlib.sha256()
    for key in sorted(res.model_state):
        ns = res.model_state[key]
        acc.update(key.encode())
        arr = np.asarray(ns.value)
        acc.update(type(ns.value).__name__.encode())
        if arr.dtype == object:
            acc.update(repr(ns.value).encode())
        else:
            acc.update(str(arr.dtype).encode() + arr.tobytes())
        acc.update(repr(ns.outdated).encode())
        acc.update(repr(ns.extra).encode())
    print("state digest", acc.hexdigest()[:16])
    for name in res.position:
        print(
            "state consistent",
            name,
            bool(
                jnp.all(
                    res.model_state[model.vars[name].value_node.name].value
                    == res.position[name]
                )
            ),
        )
    print("model auto_update", model.auto_update)
    try:
        df = history_to_df(res.history)
    except AttributeError as e:
        print("history_to_df AttributeError", e)
    else:
        print("df", df.shape, list(df.columns))
        show("df values", np.nan_to_num(df.to_numpy(), nan=-777.0))


def run_optim():
    print("== optim_flat")
    train = setup_model(23, 1)
    valid = setup_model(11, 2)

    def fresh_train():
        return setup_model(23, 1)

    # a. no validation model, no batching, small max_iter
    st = Stopper(max_iter=30, patience=5)
    res = optim_flat(train, ["coef"], stopper=st, batch_seed=1, progress_bar=False)
    show_result("a", res, train)
    print("stopper after", st)

    # b. validation, batch size not dividing n, early stop via atol
    st = Stopper(max_iter=300, patience=5, atol=1e-3)
    res = optim_flat(
        train,
        ["coef", "log_sigma"],
        stopper=st,
        batch_size=5,
        batch_seed=3,
        model_validation=valid,
    )
    show_result("b", res, train)
    print("stopper after", st)

    # b2. same with another batch seed and batch size
    res = optim_flat(
        train,
        ["coef", "log_sigma"],
        stopper=st,
        batch_size=7,
        batch_seed=4,
        model_validation=valid,
        progress_bar=False,
    )
    show_result("b2", res, train)

    # c. rtol only, no pruning (NaN padding)
    st = Stopper(max_iter=300, patience=4, atol=0.0, rtol=1e-2)
    res = optim_flat(
        train,
        ["coef"],
        stopper=st,
        batch_size=10,
        batch_seed=5,
        model_validation=valid,
        prune_history=False,
    )
    show_result("c", res, train)

    # d. no position history, no restore
    st = Stopper(max_iter=40, patience=3, atol=0.05)
    res = optim_flat(
        train,
        ["coef"],
        stopper=st,
        batch_size=6,
        batch_seed=6,
        model_validation=valid,
        save_position_history=False,
        restore_best_position=False,
    )
    show_result("d", res, train)
    res = optim_flat(
        train,
        ["coef"],
        stopper=st,
        batch_size=6,
        batch_seed=6,
        model_validation=valid,
        save_position_history=False,
        restore_best_position=False,
        prune_history=False,
        progress_bar=False,
    )
    show_result("d2", res, train)

    # e. history saved, last position returned, no pruning
    res = optim_flat(
        train,
        ["coef"],
        stopper=st,
        batch_size=6,
        batch_seed=6,
        model_validation=valid,
        restore_best_position=False,
        prune_history=False,
    )
    show_result("e", res, train)

    # f/g. boundary iteration limits
    for mi, p in [(1, 1), (2, 1), (2, 5), (3, 2)]:
        st = Stopper(max_iter=mi, patience=p)
        try:
            res = optim_flat(
                train, ["coef"], stopper=st, batch_seed=7, model_validation=valid
            )
        except TypeError as e:
            print(f"f max_iter={mi} p={p} TypeError", str(e)[:100])
        else:
            show_result(f"f max_iter={mi} p={p}", res, train)
        print("stopper after", st)
        try:
            res = optim_flat(train, ["coef"], stopper=st, batch_seed=7, batch_size=4)
        except TypeError as e:
            print(f"g max_iter={mi} p={p} TypeError", str(e)[:100])
        else:
            show_result(f"g max_iter={mi} p={p}", res, train)
        print("stopper after", st)

    # h. invalid combination
    try:
        optim_flat(train, ["coef"], save_position_history=False)
    except AssertionError as e:
        print("AssertionError", e)

    # i. defaults: stopper None, batch_seed None (consumes the global numpy RNG)
    np.random.seed(11)
    m = fresh_train()
    opt_res = optim_flat(m, ["coef"], progress_bar=False, prune_history=False)
    show_result("i", opt_res, m)
    print("numpy rng after", np.random.randint(0, 10**6))
    np.random.seed(11)
    opt_res = optim_flat(
        m, ["coef"], progress_bar=False, batch_seed=0, batch_size=9,
        stopper=Stopper(50, 50),
    )
    show_result("i2", opt_res, m)
    print("numpy rng after", np.random.randint(0, 10**6))

    # j. custom optimizer
    import optax

    st = Stopper(max_iter=25, patience=25)
    res = optim_flat(
        train,
        ["coef"],
        optimizer=optax.sgd(1e-3),
        stopper=st,
        batch_size=11,
        batch_seed=8,
        model_validation=valid,
    )
    show_result("j", res, train)

    # k. errors: the caller's stopper must be untouched afterwards
    st = Stopper(max_iter=9, patience=2)
    try:
        optim_flat(train, ["nope"], stopper=st)
    except Exception as e:
        print(type(e).__name__, str(e)[:80])
    print("stopper after error", st)

    xs, ys = data(9, 3)
    x = lsl.obs(xs, name="x")
    coef = lsl.param(jnp.zeros(2), name="coef")
    mu = lsl.Var(lsl.Calc(jnp.dot, x, coef), name="mu")
    y = lsl.obs(ys[:8], lsl.Dist(tfd.Normal, loc=0.0, scale=1.0), name="y")
    bad = lsl.GraphBuilder().add(y, mu).build_model()
    try:
        optim_flat(bad, ["coef"], stopper=st)
    except ValueError as e:
        print("ValueError", e)
    try:
        print(_find_sample_size(bad))
    except ValueError as e:
        print("ValueError", e)
    print("stopper after error", st)

    # l. log prob decomposition check
    coef = lsl.Var(jnp.zeros(2), lsl.Dist(tfd.Normal, loc=0.0, scale=1.0), name="coef")
    x = lsl.obs(xs, name="x")
    mu = lsl.Var(lsl.Calc(jnp.dot, x, coef), name="mu")
    y = lsl.obs(ys, lsl.Dist(tfd.Normal, loc=mu, scale=1.0), name="y")
    undecomposable = lsl.GraphBuilder().add(y).build_model()
    try:
        optim_flat(undecomposable, ["coef"], stopper=st)
    except ValueError as e:
        print("ValueError", str(e)[:60])
    print("stopper after error", st)
    iface = gs.LieselInterface(train)
    print(
        "validate",
        _validate_log_prob_decomposition(
            iface, iface.extract_position(["coef"], train.state), train.state
        ),
    )
    print("observed", sorted(_find_observed(train)), _find_sample_size(train))

    # m. per-observation sensitivity of the batched fit (fresh minibatches)
    base_x, base_y = data(13, 9)

    def fit(ys):
        x = lsl.obs(base_x, name="x")
        coef = lsl.param(jnp.zeros(2), name="coef")
        mu = lsl.Var(lsl.Calc(jnp.dot, x, coef), name="mu")
        y = lsl.obs(ys, lsl.Dist(tfd.Normal, loc=mu, scale=1.0), name="y")
        mod = lsl.GraphBuilder().add(y).build_model()
        r = optim_flat(
            mod,
            ["coef"],
            stopper=Stopper(max_iter=6, patience=6),
            batch_size=5,
            batch_seed=2,
            progress_bar=False,
        )
        return r.position["coef"]

    ref = fit(base_y)
    show("sens ref", ref)
    changed = []
    for j in range(13):
        alt = fit(base_y.at[j].add(3.0))
        changed.append(int(bool(jnp.any(alt != ref))))
        show(f"sens {j}", alt)
    print("sensitive", changed)


def module_surface():
    print("== module surface")
    import inspect

    print(sorted(n for n in vars(optim_mod) if not n.startswith("_")))
    for prm in inspect.signature(optim_flat).parameters.values():
        print(prm.name, prm.kind.name, repr(prm.default))
    for name in ("stop_early", "stop_now", "continue_", "which_best_in_recent_history"):
        sig = inspect.signature(getattr(Stopper, name))
        print(name, list(sig.parameters))


def dataclass_semantics():
    print("== dataclass semantics")
    import copy
    import dataclasses
    import pickle

    st = Stopper(max_iter=12, patience=4, atol=0.25, rtol=0.5)
    print([(f.name, repr(f.default)[:20].split(" at ")[0]) for f in dataclasses.fields(st)])
    print(dataclasses.asdict(st), dataclasses.replace(st, patience=2))
    print(pickle.loads(pickle.dumps(st)) == st, copy.deepcopy(st) == st)
    print(Stopper.__hash__, Stopper.__dataclass_params__)

    class Loud(Stopper):
        def stop_early(self, i, loss_history):
            return ~super().stop_early(i, loss_history)

    lh = jnp.array([3.0, 2.0, 1.0, 1.0, 1.0, 1.0, 5.0, 0.0, 0.0, 0.0, 0.0, 0.0])
    lo = Loud(max_iter=12, patience=3)
    print(
        [int(lo.stop_now(i, lh)) for i in range(10)],
        [int(lo.continue_(i, lh)) for i in range(10)],
        [int(lo.which_best_in_recent_history(i, lh)) for i in range(10)],
    )
    print([f.name for f in dataclasses.fields(OptimResult)])


def main(extra=None):
    jax.config.update("jax_enable_x64", False)
    stopper_exhaustive()
    helpers()
    run_optim()
    module_surface()
    dataclass_semantics()
    if extra is not None:
        extra()
    print("done")


if __name__ == "__main__":
    main()
