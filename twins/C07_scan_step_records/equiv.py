"""
Deterministic equivalence harness for the engine/kernel lifecycle (property C07).

Runs the goose Engine with an instrumented kernel that folds the arguments of every
lifecycle call (tag, prng key, epoch clock, epoch config, model state, history,
tuning history) into a hash stored in the kernel state, over several epoch
schedules, chunk sizes, chain counts, kernel counts and history requirements, with
all-at-once and one-at-a-time (append_epoch / sample_next_epoch) drivers.  It also
pokes the error paths of EpochManager, KernelSequence and Engine, and hashes the
jaxprs of the traced lifecycle functions.  Everything observable is printed as a
digest; the output on HEAD and on the patched tree has to be identical.

Run from the worktree root:  PYTHONPATH=$PWD python _twin/<name>/equiv.py
"""

from __future__ import annotations

import hashlib
import logging
import os
import pickle
import sys
from dataclasses import dataclass
from typing import ClassVar

os.environ.setdefault("JAX_PLATFORMS", "cpu")

import jax
import jax.numpy as jnp
import numpy as np

import liesel
from liesel.goose.builder import EngineBuilder
from liesel.goose.engine import Engine
from liesel.goose.epoch import EpochConfig, EpochManager, EpochState, EpochType
from liesel.goose.interface import DictInterface
from liesel.goose.kernel import (
    DefaultTransitionInfo,
    DefaultTuningInfo,
    ModelMixin,
    TransitionMixin,
    TransitionOutcome,
    TuningMixin,
    TuningOutcome,
    WarmupOutcome,
)
from liesel.goose.kernel_sequence import KernelSequence
from liesel.goose.pytree import register_dataclass_as_pytree

LINES: list[str] = []


def out(*parts):
    line = " ".join(str(p) for p in parts)
    LINES.append(line)
    print(line)


# --------------------------------------------------------------------------- logging


class ListHandler(logging.Handler):
    def __init__(self):
        super().__init__(level=logging.DEBUG)
        self.records: list[str] = []

    def emit(self, record):
        self.records.append(f"{record.name}|{record.levelname}|{record.getMessage()}")


HANDLER = ListHandler()
_lg = logging.getLogger("liesel")
_lg.setLevel(logging.DEBUG)
_lg.addHandler(HANDLER)
_lg.propagate = False


def take_logs() -> list[str]:
    recs = list(HANDLER.records)
    HANDLER.records.clear()
    return recs


# --------------------------------------------------------------------------- digests


def sha(b: bytes) -> str:
    return hashlib.sha256(b).hexdigest()[:16]


def tree_digest(name: str, tree) -> None:
    leaves = jax.tree_util.tree_flatten_with_path(tree)[0]
    out(f"  [{name}] {len(leaves)} leaves")
    for path, leaf in leaves:
        arr = np.asarray(leaf)
        out(
            "   ",
            jax.tree_util.keystr(path),
            arr.dtype,
            arr.shape,
            sha(np.ascontiguousarray(arr).tobytes()),
        )


def opt_digest(name: str, option) -> None:
    if option.is_some():
        tree_digest(name, option.unwrap())
    else:
        out(f"  [{name}] none")


def small_values(name: str, tree) -> None:
    leaves = jax.tree_util.tree_flatten_with_path(tree)[0]
    for path, leaf in leaves:
        arr = np.asarray(leaf)
        out("   ", name, jax.tree_util.keystr(path), arr.tolist())


# --------------------------------------------------------------------------- kernel

U = jnp.uint32


def as_bits(x) -> jax.Array:
    x = jnp.asarray(x)
    if jnp.issubdtype(x.dtype, jnp.floating):
        x = jax.lax.bitcast_convert_type(x.astype(jnp.float32), jnp.uint32)
    return x.astype(jnp.uint32)


def mix(h, *xs):
    for x in xs:
        bits = as_bits(x).reshape(-1)
        for i in range(bits.shape[0]):
            h = (h * U(1000003)) ^ bits[i]
            h = h + U(0x9E3779B9)
    return h


def epoch_bits(epoch: EpochState):
    return (
        epoch.time,
        epoch.time_in_epoch,
        epoch.time_before_epoch,
        epoch.nth_epoch,
        epoch.config.type,
        epoch.config.duration,
        epoch.config.thinning,
    )


@register_dataclass_as_pytree
@dataclass
class SpyState:
    hash: jax.Array
    n_start: jax.Array
    n_end: jax.Array
    n_std: jax.Array
    n_adapt: jax.Array
    n_tune_fast: jax.Array
    n_tune_slow: jax.Array
    n_end_warmup: jax.Array
    last_time: jax.Array
    last_time_in_epoch: jax.Array
    warmup_done_at: jax.Array


@register_dataclass_as_pytree
@dataclass
class SpyInfo(DefaultTransitionInfo):
    extra: float = 0.0

    def minimize(self) -> "DefaultTransitionInfo":
        return DefaultTransitionInfo(
            self.error_code, self.acceptance_prob, self.position_moved
        )


class SpyKernel(
    ModelMixin,
    TransitionMixin[SpyState, SpyInfo],
    TuningMixin[SpyState, DefaultTuningInfo],
):
    error_book: ClassVar[dict[int, str]] = {0: "no errors", 1: "odd", 7: "warm"}

    def __init__(self, position_keys, identifier, needs_history, warm_code=0):
        self._model = None
        self.position_keys = tuple(position_keys)
        self.identifier = identifier
        self.needs_history = needs_history
        self.warm_code = warm_code

    def __repr__(self):
        return f"SpyKernel({self.identifier!r})"

    def init_state(self, prng_key, model_state):
        z = jnp.zeros((), jnp.int32)
        h = mix(U(17), 0, prng_key, *[model_state[k] for k in self.position_keys])
        return SpyState(h, z, z, z, z, z, z, z, z - 1, z - 1, z - 1)

    def start_epoch(self, prng_key, kernel_state, model_state, epoch):
        ks = kernel_state
        ks.hash = mix(ks.hash, 1, prng_key, *epoch_bits(epoch), model_state["x"])
        ks.n_start = ks.n_start + 1
        return ks

    def end_epoch(self, prng_key, kernel_state, model_state, epoch):
        ks = kernel_state
        ks.hash = mix(ks.hash, 4, prng_key, *epoch_bits(epoch), model_state["x"])
        ks.n_end = ks.n_end + 1
        return ks

    def _move(self, tag, prng_key, ks, model_state, epoch):
        ks.hash = mix(
            ks.hash, tag, prng_key, *epoch_bits(epoch), model_state["x"], model_state["y"]
        )
        ks.last_time = jnp.asarray(epoch.time, jnp.int32)
        ks.last_time_in_epoch = jnp.asarray(epoch.time_in_epoch, jnp.int32)
        pos = self.position(model_state)
        step = jax.random.normal(prng_key, ())
        for k in pos:
            pos[k] = pos[k] + 0.1 * step + 0.001 * epoch.time
        new_ms = self.model.update_state(pos, model_state)
        err = jnp.asarray(epoch.time % 3 == 1, jnp.int32) * (tag == 3)
        info = SpyInfo(err, jnp.abs(jnp.tanh(step)), jnp.asarray(1, jnp.int32), step)
        return TransitionOutcome(info, ks, new_ms)

    def _standard_transition(self, prng_key, kernel_state, model_state, epoch):
        kernel_state.n_std = kernel_state.n_std + 1
        return self._move(2, prng_key, kernel_state, model_state, epoch)

    def _adaptive_transition(self, prng_key, kernel_state, model_state, epoch):
        kernel_state.n_adapt = kernel_state.n_adapt + 1
        return self._move(3, prng_key, kernel_state, model_state, epoch)

    def _tune(self, tag, prng_key, ks, model_state, epoch, history):
        ks.hash = mix(ks.hash, tag, prng_key, *epoch_bits(epoch), model_state["x"])
        if history is not None:
            for k in sorted(history):
                ks.hash = mix(ks.hash, history[k].shape[0], jnp.sum(history[k]))
                ks.hash = mix(ks.hash, history[k][0], history[k][-1])
        else:
            ks.hash = mix(ks.hash, 99)
        info = DefaultTuningInfo(
            error_code=jnp.asarray(0, jnp.int32), time=jnp.asarray(epoch.time)
        )
        return TuningOutcome(info, ks)

    def _tune_fast(self, prng_key, kernel_state, model_state, epoch, history):
        kernel_state.n_tune_fast = kernel_state.n_tune_fast + 1
        return self._tune(5, prng_key, kernel_state, model_state, epoch, history)

    def _tune_slow(self, prng_key, kernel_state, model_state, epoch, history):
        kernel_state.n_tune_slow = kernel_state.n_tune_slow + 1
        return self._tune(6, prng_key, kernel_state, model_state, epoch, history)

    def end_warmup(self, prng_key, kernel_state, model_state, tuning_history):
        ks = kernel_state
        ks.hash = mix(ks.hash, 7, prng_key, model_state["x"])
        if tuning_history is None:
            ks.hash = mix(ks.hash, 98)
        else:
            ks.hash = mix(
                ks.hash, tuning_history.time.shape[0], jnp.sum(tuning_history.time)
            )
        ks.n_end_warmup = ks.n_end_warmup + 1
        ks.warmup_done_at = ks.last_time
        return WarmupOutcome(jnp.asarray(self.warm_code, jnp.int32), ks)


class Quant:
    error_book: ClassVar[dict[int, str]] = {0: "no errors"}

    def __init__(self, identifier):
        self.identifier = identifier

    def set_model(self, model):
        pass

    def has_model(self):
        return False

    def generate(self, prng_key, model_state, epoch):
        u = jax.random.normal(prng_key)
        return {
            "u": u,
            "x": model_state["x"],
            "t": jnp.asarray(epoch.time),
            "tie": jnp.asarray(epoch.time_in_epoch),
        }


# --------------------------------------------------------------------------- drivers

IV = EpochType.INITIAL_VALUES
FA = EpochType.FAST_ADAPTATION
SA = EpochType.SLOW_ADAPTATION
BU = EpochType.BURNIN
PO = EpochType.POSTERIOR


def cfg(t, d, thin=1, opt=None):
    return EpochConfig(t, d, thin, opt)


def make_engine(
    configs,
    chunk,
    chains,
    kernel_specs,
    *,
    position_keys=None,
    minimize=False,
    store=True,
    quants=(),
    progress=False,
    seed=0,
):
    model = DictInterface(lambda ms: -0.5 * ms["x"] ** 2 - 0.5 * ms["y"] ** 2)
    kernels = []
    for keys, ident, needs_hist, warm in kernel_specs:
        ker = SpyKernel(keys, ident, needs_hist, warm)
        ker.set_model(model)
        kernels.append(ker)
    ms = {
        "x": jnp.linspace(0.5, 1.5, chains, dtype=jnp.float32),
        "y": jnp.linspace(-1.0, 1.0, chains, dtype=jnp.float32),
    }
    seeds = jax.random.split(jax.random.PRNGKey(seed), chains)
    return Engine(
        seeds,
        ms,
        KernelSequence(kernels),
        configs,
        chunk,
        model,
        position_keys,
        minimize_transition_infos=minimize,
        store_kernel_states=store,
        quantity_generators=[Quant(q) for q in quants],
        show_progress=progress,
    )


def digest_results(engine: Engine) -> str:
    res = engine.get_results()
    before = len(LINES)
    opt_digest("positions", res.positions.combine_all())
    opt_digest("transition_infos", res.transition_infos.combine_all())
    ks = res.kernel_states
    if ks.is_some():
        full = ks.unwrap().combine_all().unwrap()
        tree_digest("kernel_states", full)
        last = jax.tree_util.tree_map(lambda a: a[:, -1], full)
        small_values("final_ks", last)
    else:
        out("  [kernel_states] none")
    ti = res.tuning_infos.unwrap().get()
    if ti.is_some():
        tree_digest("tuning_infos", ti.unwrap())
        small_values("tuning", ti.unwrap())
    else:
        out("  [tuning_infos] none")
    gq = res.generated_quantities
    if gq.is_some():
        opt_digest("quantities", gq.unwrap().combine_all())
    else:
        out("  [quantities] none")
    out("  epochs", [(e.type.name, e.duration, e.thinning) for e in res.positions.get_epochs()])
    out("  kernel_classes", {k: v.__name__ for k, v in res.kernel_classes.unwrap().items()})
    out("  kernels_by_pos_key", list(res.kernels_by_pos_key.unwrap().items()))
    expect_error(
        "tuning_times",
        lambda: res.get_tuning_times().map_or(None, lambda a: np.asarray(a).tolist()),
    )
    try:
        el = res.get_error_log().map_or({}, lambda x: x)
    except RuntimeError as e:
        out("  error_log raised", str(e).split(" in ")[0])
        el = {}
    for kid, log in el.items():
        out("  error_log", kid, log.transition.tolist(), sha(log.error_codes.tobytes()))
    tree_digest("final_model_states", engine._model_states)
    tree_digest("final_kernel_states", engine._kernel_states)
    tree_digest("prng", engine._prng_key)
    out("  done", engine.is_sampling_done(), "warmup_ended", engine._warmup_has_ended)
    for rec in take_logs():
        out("  log", rec)
    return sha("\n".join(LINES[before:]).encode())


def run_case(name, configs, chunk, chains, kernel_specs, **kw):
    out(f"== case {name}: chunk={chunk} chains={chains} kernels={len(kernel_specs)}")
    digests = {}

    # (a) everything configured up front, sample_all_epochs
    eng = make_engine(configs, chunk, chains, kernel_specs, **kw)
    eng.sample_all_epochs()
    out(" -- driver all_at_once")
    digests["all"] = digest_results(eng)

    # (b) epochs appended and sampled one at a time
    eng = make_engine(configs[:1], chunk, chains, kernel_specs, **kw)
    eng.sample_next_epoch()
    for c in configs[1:]:
        assert eng.is_sampling_done()
        eng.append_epoch(c)
        assert not eng.is_sampling_done()
        eng.sample_next_epoch()
    out(" -- driver one_at_a_time")
    digests["one"] = digest_results(eng)

    # (c) mixed: two up front, sample_next twice, append rest, sample_all
    eng = make_engine(configs[:2], chunk, chains, kernel_specs, **kw)
    eng.sample_next_epoch()
    for c in configs[2:]:
        eng.append_epoch(c)
    if not eng.is_sampling_done():
        eng.sample_next_epoch()
    eng.sample_all_epochs()
    eng.sample_all_epochs()  # nothing left: no-op
    out(" -- driver mixed")
    digests["mixed"] = digest_results(eng)

    out(" -- driver digests", digests, "same", len(set(digests.values())) == 1)


def expect_error(label, fn):
    try:
        r = fn()
        out("  noerr", label, repr(r))
    except Exception as e:  # noqa: BLE001
        out("  error", label, type(e).__name__, str(e))


def error_paths():
    out("== error paths: EpochManager")
    bad_lists = {
        "first_not_iv": [cfg(BU, 3)],
        "second_iv": [cfg(IV, 1), cfg(IV, 1)],
        "iv_duration": [cfg(IV, 2)],
        "iv_duration0": [cfg(IV, 0)],
        "warmup_after_post": [cfg(IV, 1), cfg(PO, 2), cfg(BU, 2)],
        "fast_after_post": [cfg(IV, 1), cfg(PO, 2), cfg(FA, 2)],
        "duration0": [cfg(IV, 1), cfg(BU, 0)],
        "thin0": [cfg(IV, 1), cfg(BU, 4, 0)],
        "thin_gt_dur": [cfg(IV, 1), cfg(BU, 2, 3)],
        "post_not_multiple": [cfg(IV, 1), cfg(PO, 7, 2)],
        "burnin_not_multiple_ok": [cfg(IV, 1), cfg(BU, 7, 2)],
        "post_multiple_ok": [cfg(IV, 1), cfg(PO, 8, 2), cfg(PO, 3, 3)],
        "iv_thin2": [cfg(IV, 1, 2)],
        "second_iv_bad_duration": [cfg(IV, 1), cfg(IV, 5)],
        "none": None,
        "empty": [],
    }
    for label, lst in bad_lists.items():
        expect_error(label, lambda lst=lst: len(EpochManager(lst)._configs))

    em = EpochManager([cfg(IV, 1), cfg(FA, 4), cfg(PO, 6, 2)])
    states = []
    while em.has_more():
        s = em.next()
        states.append(
            (s.nth_epoch, s.time, s.time_before_epoch, s.time_in_epoch, s.time_left(), s.config.type.name)
        )
    out("  states", states)
    expect_error("next_exhausted", em.next)
    expect_error("append_bad_keeps_state", lambda: em.append(cfg(BU, 1)))
    em.append(cfg(PO, 2))
    s = em.next()
    out("  appended", s.nth_epoch, s.time, s.time_before_epoch, em.has_more(), em._next_start_time, em._next_epoch_ptr)
    expect_error("next_exhausted2", em.next)
    out("  is_adaptation", [int(EpochType.is_adaptation(t)) for t in EpochType])
    out("  is_warmup", [int(EpochType.is_warmup(t)) for t in EpochType])

    out("== error paths: KernelSequence")
    model = DictInterface(lambda ms: 0.0)
    expect_error("dup_ident", lambda: KernelSequence([SpyKernel(["x"], "a", False), SpyKernel(["y"], "a", False)]))
    expect_error("empty_ident", lambda: KernelSequence([SpyKernel(["x"], "", False)]))
    expect_error("empty_seq", lambda: len(KernelSequence([]).get_kernels()))
    ks = KernelSequence((SpyKernel(["x"], "a", False), SpyKernel(["y"], "b", True)))
    out("  kernels", type(ks.get_kernels()).__name__, [k.identifier for k in ks.get_kernels()])
    for k in ks.get_kernels():
        k.set_model(model)

    out("== error paths: Engine")
    specs = [(["x"], "k0", False, 0)]
    eng = make_engine([cfg(IV, 1), cfg(BU, 5)], 2, 2, specs)
    expect_error("current_epoch_none", lambda: eng.current_epoch)
    eng.sample_next_epoch()
    expect_error("chunk_not_dividing", eng.sample_next_epoch)
    out("  epoch_active_after_failure", eng._epoch is not None, eng.is_sampling_done())
    expect_error("epoch_still_active", eng.sample_next_epoch)
    expect_error("sample_all_active", eng.sample_all_epochs)
    eng = make_engine([cfg(IV, 1)], 2, 1, specs)
    eng.sample_all_epochs()
    expect_error("no_more_epochs", eng.sample_next_epoch)
    expect_error("append_iv_again", lambda: eng.append_epoch(cfg(IV, 1)))
    eng._epoch = eng._epoch_manager._configs[0].to_state(0, 0)
    expect_error("not_enough_time", lambda: eng._sample_for_duration(duration=2))
    for rec in take_logs():
        out("  log", rec)


def jaxprs():
    out("== jaxprs of traced lifecycle functions")
    model = DictInterface(lambda ms: -0.5 * ms["x"] ** 2)
    kernels = [SpyKernel(["x"], "a", True, 7), SpyKernel(["y"], "b", False), SpyKernel(["x", "y"], "c", False)]
    for k in kernels:
        k.set_model(model)
    ks = KernelSequence(kernels)
    key = jax.random.PRNGKey(3)
    ms = {"x": jnp.float32(0.5), "y": jnp.float32(-0.25)}
    states = ks.init_states(key, ms)
    hist = {"x": jnp.arange(4.0, dtype=jnp.float32), "y": jnp.ones(4, jnp.float32)}
    for t in (FA, SA, BU, PO):
        ep = cfg(t, 4).to_state(2, 10)
        out("  start_epoch", t.name, sha(str(jax.make_jaxpr(ks.start_epoch)(key, states, ms, ep)).encode()))
        out("  end_epoch", t.name, sha(str(jax.make_jaxpr(ks.end_epoch)(key, states, ms, ep)).encode()))
        out("  transition", t.name, sha(str(jax.make_jaxpr(ks.transition)(key, states, ms, ep)).encode()))
        res = jax.jit(ks.transition)(key, states, ms, ep)
        tree_digest("transition_" + t.name, res)
    for t in (FA, SA):
        ep = cfg(t, 4).to_state(2, 10)
        for h in (hist, None):
            out("  tune", t.name, h is None, sha(str(jax.make_jaxpr(ks.tune)(key, states, ms, ep, h)).encode()))
            tree_digest("tune", jax.jit(ks.tune)(key, states, ms, ep, h))
    tun = {k.identifier: DefaultTuningInfo(jnp.zeros(3, jnp.int32), jnp.arange(3)) for k in kernels}
    for th in (tun, None):
        out("  end_warmup", th is None, sha(str(jax.make_jaxpr(ks.end_warmup)(key, states, ms, th)).encode()))
        tree_digest("end_warmup", jax.jit(ks.end_warmup)(key, states, ms, th))
    out("  init_states", sha(str(jax.make_jaxpr(ks.init_states)(key, ms)).encode()))

    for minimize, store, quants in ((False, True, ("q1", "q2")), (True, False, ())):
        eng = make_engine(
            [cfg(IV, 1), cfg(FA, 4)], 2, 2,
            [(["x"], "a", True, 0), (["y"], "b", False, 0)],
            minimize=minimize, store=store, quants=quants,
        )
        ep = cfg(SA, 4).to_state(1, 1)
        keys = jax.random.split(jax.random.PRNGKey(5), 2)
        one_ms = {"x": jnp.float32(0.5), "y": jnp.float32(-0.25)}
        one_ks = eng._kernel_sequence.init_states(key, one_ms)
        jp = jax.make_jaxpr(eng._sample_many)(keys, ep, one_ks, one_ms)
        out("  _sample_many", minimize, store, len(quants), sha(str(jp).encode()))
        res = eng._sample_many(keys, ep, one_ks, one_ms)
        out("  _sample_many out", type(res).__name__, len(res), [type(r).__name__ for r in res])
        tree_digest("_sample_many", tuple(res))


def builder_case():
    out("== case builder")
    b = EngineBuilder(seed=4, num_chains=2)
    b.show_progress = False
    b.set_epochs([cfg(IV, 1), cfg(FA, 4), cfg(SA, 4), cfg(BU, 6, 2), cfg(PO, 8, 4)])
    b.set_initial_values({"x": jnp.float32(1.0), "y": jnp.float32(-1.0)}, multiple_chains=False)
    b.set_model(DictInterface(lambda ms: -0.5 * ms["x"] ** 2 - 0.5 * ms["y"] ** 2))
    b.add_kernel(SpyKernel(["x"], "kx", True, 0))
    b.add_kernel(SpyKernel(["y"], "ky", False, 7))
    b.add_quantity_generator(Quant("g"))
    b.store_kernel_states = True
    eng = b.build()
    eng.sample_all_epochs()
    digest_results(eng)
    # results must stay picklable and contain only library/builtin containers
    res = pickle.loads(pickle.dumps(eng.get_results()))
    tree_digest("pickled_positions", res.positions.combine_all().unwrap())
    tree_digest("pickled_infos", res.transition_infos.combine_all().unwrap())
    structure = jax.tree_util.tree_structure(
        (
            res.positions.combine_all().unwrap(),
            res.transition_infos.combine_all().unwrap(),
            res.kernel_states.unwrap().combine_all().unwrap(),
            res.generated_quantities.unwrap().combine_all().unwrap(),
            res.tuning_infos.unwrap().get().unwrap(),
        )
    )
    out("  structure", sha(str(structure).encode()))


def main():
    out("liesel from worktree:", os.path.realpath(liesel.__file__).startswith(os.path.realpath(os.getcwd())))

    hist2 = [(["x"], "k_hist", True, 0), (["y"], "k_plain", False, 7)]
    run_case(
        "full_schedule",
        [cfg(IV, 1), cfg(FA, 4), cfg(SA, 6), cfg(FA, 2), cfg(BU, 4), cfg(PO, 8), cfg(PO, 2)],
        2, 3, hist2, position_keys=["x", "y"],
    )
    run_case(
        "posterior_only_no_tuning_history",
        [cfg(IV, 1), cfg(PO, 3), cfg(PO, 6)],
        3, 1, [(["x", "y"], "solo", False, 0)],
    )
    run_case(
        "thinning_quants_minimize_progress",
        [cfg(IV, 1), cfg(SA, 5), cfg(BU, 5, 2), cfg(PO, 10, 5)],
        5, 2,
        [(["x"], "a", False, 0), (["y"], "b", False, 7), (["x"], "c", False, 0)],
        minimize=True, store=False, quants=("q1", "q2"), progress=True,
    )
    run_case(
        "chunk1_duration1",
        [cfg(IV, 1), cfg(FA, 1), cfg(SA, 1), cfg(BU, 1), cfg(PO, 1)],
        1, 2, hist2, quants=("q",),
    )
    run_case(
        "warmup_never_ends",
        [cfg(IV, 1), cfg(FA, 3), cfg(BU, 3)],
        3, 2, hist2, position_keys=["y"],
    )
    run_case(
        "only_initial_values",
        [cfg(IV, 1)],
        4, 2, hist2, quants=("q",),
    )
    builder_case()
    error_paths()
    jaxprs()
    out("TOTAL", sha("\n".join(LINES).encode()))


if __name__ == "__main__":
    sys.exit(main())
