"""
C05 -- Metropolis-Hastings acceptance rule (liesel/goose/mh.py).

mh_step is abstractly interpreted once: the terms of the log ratio, the NaN guard,
the acceptance probability, the accept flag, the selected state and the info
object are extracted and checked against the rule.
"""

from __future__ import annotations

from fractions import Fraction

from ..core.terms import (FLIP, c, evaluate, fn_name, kw, n, names_in, pretty,
                          subterms)
from ..domains.interval_nan import INF, IntervalEval
from .common import (LIB_FACTS, cond_parts, find_calls, is_call, kernel_classes, method,
                     short, thunk_value)

MH = "liesel.goose.mh.mh_step"


def _log_prob_of(t):
    """model.log_prob(S) -> S"""
    if t[0] == "call" and t[1] == ("a", n("model"), "log_prob") and len(t[2]) == 1:
        return t[2][0]
    return None


def _flatten_sum(t, sign=1, out=None):
    out = [] if out is None else out
    if t[0] == "op" and t[1] in "+-":
        _flatten_sum(t[2], sign, out)
        _flatten_sum(t[3], sign if t[1] == "+" else -sign, out)
    elif t[0] == "u" and t[1] == "-":
        _flatten_sum(t[2], -sign, out)
    else:
        out.append((sign, t))
    return out


def normalise_cmp(t):
    """-> ('cmp', op, lhs, rhs) for comparisons spelled as operators or jnp.less..."""
    if t[0] == "cmp":
        return t
    table = {"less": "<", "less_equal": "<=", "greater": ">", "greater_equal": ">=",
             "lt": "<", "le": "<=", "gt": ">", "ge": ">="}
    if t[0] == "call" and len(t[2]) == 2:
        nm = (fn_name(t[1]) or "").rsplit(".", 1)[-1]
        if nm in table:
            return ("cmp", table[nm], t[2][0], t[2][1])
    return None


def check(ctx):
    repo = ctx.repo
    ctx.rule("R1", "NaN guard: the log ratio proposed-current+correction is replaced by "
                   "-inf with a documented NaN error code iff it is NaN.")
    ctx.rule("R2", "the acceptance probability lies in [0,1] and is NaN-free "
                   "(interval x NaN abstract interpretation).")
    ctx.rule("R3", "the accept decision equals draw < prob on every boundary ordering of "
                   "draw in [0,1) and prob in [0,1].")
    ctx.rule("R4", "the returned state is the proposed state iff accepted, else the "
                   "unmodified input; info fields are bound to code/prob/accept.")
    ctx.rule("R5", "the MH-type kernels hand mh_step a key not used for the proposal and "
                   "return its state and info unchanged.")
    ctx.trust(LIB_FACTS["uniform"], LIB_FACTS["exp_clip"], LIB_FACTS["cond"])
    ctx.undecided("float rounding of exp() near the boundaries")

    fi = repo.func(MH)
    # helpers of the same module are inlined, so splitting mh_step into a wrapper and a
    # worker function is transparent
    from ..core.terms import make_inliner
    res = evaluate(repo, fi, inline=make_inliner(
        repo, allow=lambda f: f.module.name == fi.module.name and f.cls is None),
        inline_depth=3)
    ret = res.ret()
    ok = ret is not None and ret[0] == "tuple" and len(ret[1]) == 2
    ctx.ob("C05.R4", fi, "mh_step returns a pair (info, model_state) on a single path",
           ok and len(res.returns) == 1, detail=short(ret) if ret else "no return")
    if not ok:
        return
    info_t, state_t = ret[1]

    # ---------------------------------------------------------------- R4 selection
    parts = cond_parts(state_t)
    if parts is None:
        ctx.ob("C05.R4", fi, "the returned state is selected by jax.lax.cond(accept, ...)",
               False, detail=f"returned state is {short(state_t)}", unproven=True,
               node=res.returns[0][2])
        return
    accept_t, tf, ff, ops = parts
    s_true = thunk_value(repo, tf, ops)
    s_false = thunk_value(repo, ff, ops)
    S_in = n("model_state")
    S_prop = ("call", ("a", n("model"), "update_state"), (n("proposal"), S_in), ())

    def is_update(t):
        if not (t and t[0] == "call" and t[1] == ("a", n("model"), "update_state")):
            return False
        pos = kw(t, "position", 0)
        st = kw(t, "model_state", 1)
        return pos == n("proposal") and st == S_in

    ctx.ob("C05.R4", fi, "on acceptance the state is model.update_state(proposal, "
                         "model_state)", s_true is not None and is_update(s_true),
           detail=f"accepted branch yields {short(s_true) if s_true else '?'}",
           node=res.returns[0][2], stmt="accept-branch " + pretty(s_true or ()))
    ctx.ob("C05.R4", fi, "on rejection the state is the unmodified input model_state",
           s_false == S_in,
           detail=f"rejected branch yields {short(s_false) if s_false else '?'}",
           node=res.returns[0][2], stmt="reject-branch " + pretty(s_false or ()))

    # ---------------------------------------------------------------- R3 decision
    cmp_ = normalise_cmp(accept_t)
    if cmp_ is None:
        ctx.ob("C05.R3", fi, "the accept flag is a comparison of a uniform draw with the "
                             "acceptance probability", False, unproven=True,
               detail=f"accept flag is {short(accept_t)}")
        return
    _, op, lhs, rhs = cmp_

    def is_draw(t):
        if not is_call(t, "jax.random.uniform"):
            return False
        key = kw(t, "key", 0)
        extra = [k for k, _ in t[3] if k in ("minval", "maxval")]
        # positional minval / maxval are arguments 3 and 4
        return key == n("prng_key") and not extra and len(t[2]) <= 3

    log_form = False
    if is_call(lhs, "jax.numpy.log") and is_draw(lhs[2][0]):
        lhs, log_form = lhs[2][0], True
    if is_call(rhs, "jax.numpy.log") and is_draw(rhs[2][0]):
        rhs, log_form = rhs[2][0], True
    if is_draw(lhs) and not is_draw(rhs):
        draw_t, prob_t, op_n = lhs, rhs, op
    elif is_draw(rhs) and not is_draw(lhs):
        draw_t, prob_t, op_n = rhs, lhs, FLIP.get(op)
    else:
        ctx.ob("C05.R3", fi, "exactly one side of the accept comparison is "
                             "jax.random.uniform(prng_key) with default bounds", False,
               unproven=True, detail=f"comparison is {short(accept_t)}")
        return
    ctx.ob("C05.R3", fi, "the draw is jax.random.uniform(prng_key) with support [0, 1)",
           True, facts={"draw": pretty(draw_t)})

    # finite set of orderings: the comparison only looks at the order of draw and prob
    grid_d = [Fraction(0), Fraction(1, 4), Fraction(1, 2), Fraction(3, 4)]
    grid_p = [Fraction(0), Fraction(1, 4), Fraction(1, 2), Fraction(3, 4), Fraction(1)]
    ev = {"<": lambda a, b: a < b, "<=": lambda a, b: a <= b,
          ">": lambda a, b: a > b, ">=": lambda a, b: a >= b}.get(op_n)
    bad = []
    if ev is None:
        bad.append(f"unsupported operator {op_n}")
    else:
        for d in grid_d:
            for p in grid_p:
                if ev(d, p) != (d < p):
                    bad.append(f"draw={d}, prob={p}: accept={ev(d, p)}, required {d < p}")
    ctx.ob("C05.R3", fi, "accept == (draw < prob) on all boundary orderings: prob=0 is "
                         "never accepted (also for draw=0), prob=1 always is",
           not bad, detail="; ".join(bad[:3]), stmt=f"draw {op_n} prob",
           facts={"comparison": f"draw {op_n} prob", "orderings": len(grid_d) * len(grid_p)})

    # ---------------------------------------------------------------- R1 guard / R2 range
    # locate the guard: the (unique) lax.cond whose predicate is isnan(.)
    guard = None
    for t in subterms(prob_t):
        p = cond_parts(t)
        if p and is_call(p[0], "jax.numpy.isnan"):
            guard = (t, p)
            break
    if guard is None:
        ctx.ob("C05.R1", fi, "the log ratio passes through a NaN guard "
                             "lax.cond(isnan(L), ...) before exp()", False,
               detail=f"acceptance probability is {short(prob_t)}",
               stmt="no NaN guard")
        guarded_ok = False
    else:
        gterm, (pred, gtf, gff, gops) = guard
        L = pred[2][0]
        vt = thunk_value(repo, gtf, gops)
        vf = thunk_value(repo, gff, gops)
        shape_ok = (vt is not None and vf is not None and vt[0] == "tuple"
                    and vf[0] == "tuple" and len(vt[1]) == 2 and len(vf[1]) == 2)
        ctx.ob("C05.R1", fi, "guard branches both yield (log ratio, error code)", shape_ok,
               detail=f"true={short(vt) if vt else '?'} false={short(vf) if vf else '?'}")
        guarded_ok = False
        if shape_ok:
            neg_inf = vt[1][0] in (("u", "-", ("g", "jax.numpy.inf")),
                                   ("u", "-", ("g", "numpy.inf")),
                                   ("u", "-", ("g", "math.inf")), c(-INF))
            ctx.ob("C05.R1", fi, "a NaN log ratio is mapped to -inf (probability zero)",
                   neg_inf, detail=f"NaN branch yields {short(vt[1][0])}",
                   stmt="nan-branch value " + pretty(vt[1][0]))
            same = vf[1][0] == L
            ctx.ob("C05.R1", fi, "a non-NaN log ratio passes the guard unchanged",
                   same, detail=f"pass-through branch yields {short(vf[1][0])}",
                   stmt="pass-branch value " + pretty(vf[1][0]))
            ctx.ob("C05.R1", fi, "no error is reported for a non-NaN ratio (code 0)",
                   vf[1][1] == c(0), detail=f"code {short(vf[1][1])}")
            # documented error code
            book = {}
            book_expr = fi.module.assigns.get("mh_error_book")
            if book_expr is not None:
                import ast
                try:
                    from .common import literal_of
                    book = literal_of(repo, fi.module, book_expr)
                except Exception:
                    book = {}
            code = vt[1][1][1] if vt[1][1][0] == "c" else None
            ctx.ob("C05.R1", fi, "the NaN error code is a documented key of mh_error_book "
                                 "whose message mentions NaN",
                   code in book and code != 0 and "nan" in str(book.get(code, "")).lower(),
                   detail=f"code={code!r}, book={book}", stmt=f"nan code {code!r}",
                   facts={"code": code, "book": {str(k): v for k, v in book.items()}})
            guarded_ok = neg_inf and same
            # the log ratio itself
            terms = _flatten_sum(L)
            pos = [t for s, t in terms if s > 0]
            neg = [t for s, t in terms if s < 0]
            prop_lp = [t for t in pos if _log_prob_of(t) is not None
                       and is_update(_log_prob_of(t))]
            cur_lp = [t for t in neg if _log_prob_of(t) == S_in]
            corr = [t for t in pos if t == n("log_correction")]
            ok_ratio = (len(prop_lp) == 1 and len(cur_lp) == 1 and len(corr) == 1
                        and len(terms) == 3)
            ctx.ob("C05.R1", fi, "log ratio == log_prob(update_state(proposal, state)) - "
                                 "log_prob(state) + log_correction", ok_ratio,
                   detail=f"log ratio is {short(L)}", stmt="log ratio " + pretty(L),
                   facts={"log_ratio": short(L, 300)})
            if ok_ratio:
                # floating point: the two log-densities are of the same (possibly huge)
                # magnitude, the correction is O(1) -- adding it to ONE of them first
                # rounds it away.  The statement's order is (difference) + correction.
                diff_first = any(
                    t[0] == "op" and sorted(_flatten_sum(t), key=repr)
                    == sorted([(1, prop_lp[0]), (-1, cur_lp[0])], key=repr)
                    for t in subterms(L))
                ctx.ob("C05.R1", fi, "the log-density DIFFERENCE is formed first and the "
                                     "correction added to it (adding the O(1) correction to "
                                     "one large log-density first loses it to rounding)",
                       diff_first, detail=f"log ratio is {short(L)}",
                       stmt="log ratio order " + pretty(L))
            # the guarded value (#0) feeds exp, the code (#1) feeds the info
            guarded_val = ("proj", gterm, 0)
            expg = ("call", ("g", "jax.numpy.exp"), (guarded_val,), ())
            forms = {
                ("call", ("g", "jax.numpy.clip"), (expg,), (("max", c(1.0)),)),
                ("call", ("g", "jax.numpy.clip"), (expg,), (("max", c(1)),)),
                ("call", ("g", "jax.numpy.minimum"), (expg, c(1.0)), ()),
                ("call", ("g", "jax.numpy.minimum"), (c(1.0), expg), ()),
                ("call", ("g", "jax.numpy.exp"),
                 (("call", ("g", "jax.numpy.minimum"), (guarded_val, c(0.0)), ()),), ()),
            }
            if not log_form:
                ctx.ob("C05.R2", fi, "acceptance probability = min(1, exp(guarded log ratio "
                                     "INCLUDING the correction)) -- no shortcut that bypasses "
                                     "the correction", prob_t in forms,
                       detail=f"acceptance probability is {short(prob_t, 200)}",
                       stmt="prob form " + pretty(prob_t)[:200])
            iv = IntervalEval({guarded_val: (-INF, INF, False) if guarded_ok
                               else (-INF, INF, True)})
            lo, hi, nan = iv.ev(prob_t)
            if log_form:
                lo, hi = 0.0, 1.0
            in_range = lo >= 0.0 and hi <= 1.0 and not nan
            ctx.ob("C05.R2", fi, "acceptance probability in [0,1] and never NaN",
                   in_range, unproven=bool(iv.unmodelled),
                   detail=f"abstract value [{lo}, {hi}] maynan={nan}"
                          + (f"; unmodelled {short(iv.unmodelled[0])}"
                             if iv.unmodelled else ""),
                   stmt="prob " + pretty(prob_t)[:200],
                   facts={"interval": [str(lo), str(hi)], "may_be_nan": nan})

    # ---------------------------------------------------------------- R4 info binding
    dti = repo.cls("liesel.goose.kernel.DefaultTransitionInfo")
    fields = dti.annotated_fields()
    if is_call(info_t, "liesel.goose.kernel.DefaultTransitionInfo"):
        bound = {}
        for i, a in enumerate(info_t[2]):
            if i < len(fields):
                bound[fields[i]] = a
        for k, v in info_t[3]:
            bound[k] = v
        want_code = ("proj", guard[0], 1) if guard else None
        ctx.ob("C05.R4", fi, "info.error_code is the guard's error code",
               guard is not None and bound.get("error_code") == want_code,
               detail=f"error_code bound to {short(bound.get('error_code') or ())}")
        prob_in_info = bound.get("acceptance_prob")
        ctx.ob("C05.R4", fi, "info.acceptance_prob is the probability the decision used",
               prob_in_info == prob_t or (log_form and prob_in_info is not None
                                          and contains_exp_of(prob_in_info, prob_t)),
               detail=f"acceptance_prob bound to {short(prob_in_info or ())}")
        ctx.ob("C05.R4", fi, "info.position_moved is the accept flag",
               bound.get("position_moved") == accept_t,
               detail=f"position_moved bound to {short(bound.get('position_moved') or ())}")
    else:
        ctx.ob("C05.R4", fi, "info is a DefaultTransitionInfo", False, unproven=True,
               detail=short(info_t))

    # ---------------------------------------------------------------- R5 callers
    callers = 0
    for name, ci in sorted(kernel_classes(repo).items()):
        st = repo.lookup_method(ci, "_standard_transition")
        if st is None:
            continue
        r = evaluate(repo, st)
        calls = [t for t, _, _ in r.calls if is_call(t, MH)]
        if not calls:
            if name in ("RWKernel", "MHKernel", "IWLSKernel"):
                ctx.ob("C05.R5", st, "the Metropolis-Hastings type kernel decides acceptance "
                                     "through mh_step", False,
                       detail="no call of mh_step in the standard transition",
                       stmt="mh_step not called")
            continue
        callers += 1
        ctx.call_sites += len(calls)
        call = calls[0]
        b = {"prng_key": kw(call, "prng_key", 0), "model": kw(call, "model", 1),
             "proposal": kw(call, "proposal", 2), "model_state": kw(call, "model_state", 3)}
        ctx.ob("C05.R5", st, "mh_step is called once, with the kernel's model interface "
                             "and the transition's input state",
               len(calls) == 1 and b["model"] == ("a", n("self"), "model")
               and b["model_state"] == n("model_state"),
               detail=f"model={short(b['model'] or ())} state={short(b['model_state'] or ())}")
        key = b["prng_key"]
        from ..core.terms import substitute
        hole = {call: ("c", "<mh_step>")}
        read_through = {x[2] for x in getattr(r, "inlined", [])}
        others = [t for t, _, _ in r.calls if t != call and key is not None
                  and t not in read_through
                  and any(x == key for a in list(t[2]) + [v for _, v in t[3]]
                          for x in subterms(substitute(a, hole)))]
        ctx.ob("C05.R5", st, "the key given to mh_step is not used by any other call",
               key is not None and not others and key != n("prng_key"),
               detail=f"key {short(key or ())} also used by "
                      f"{[short(o, 60) for o in others]}" if others else "")
        rt = r.ret()
        okret = (rt is not None and is_call(rt, "liesel.goose.kernel.TransitionOutcome"))
        if okret:
            info_a = kw(rt, "info", 0)
            ms_a = kw(rt, "model_state", 2)
            okret = info_a == ("proj", call, 0) and ms_a == ("proj", call, 1)
        ctx.ob("C05.R5", st, "the outcome carries mh_step's info and state unchanged",
               okret, detail=short(rt) if rt else "no return")
        edits = [(loc, node_) for loc, _, node_, _ in r.stores
                 if loc[0] in ("a", "s") and any(x == call for x in subterms(loc[1]))]
        ctx.ob("C05.R5", st, "the kernel does not write into what mh_step returned (the "
                             "acceptance probability, the moved flag and the error code are "
                             "mh_step's, not re-derived by the kernel)",
               not edits, detail=f"stores to {[short(l, 70) for l, _ in edits]}" if edits else "",
               node=edits[0][1] if edits else None,
               stmt="store into mh_step's result" if edits else None)
    ctx.require_min("kernels calling mh_step", callers, 3)
    # `self.model` above is the interface the kernel was GIVEN: the builder binds its own
    # interface only to kernels that have none
    bld = repo.func("liesel.goose.builder.EngineBuilder.build")
    rb = evaluate(repo, bld)
    binds = [(t, cond) for t, _, cond in rb.calls if t[0] == "call" and t[1][0] == "a"
             and t[1][2] == "set_model" and t[1][1][0] == "iter"]
    bad_b = [short(t, 80) for t, cond in binds
             if not any(a == ("call", ("a", t[1][1], "has_model"), (), ()) and not p
                        for a, p in cond)]
    ctx.ob("C05.R5", bld, "EngineBuilder.build binds the builder's model interface only to "
                          "kernels / generators that have none (`if not k.has_model()`): the "
                          "density in the ratio is that of the model the kernel was given",
           len(binds) >= 1 and not bad_b, detail=f"{len(binds)} binding(s); unguarded: {bad_b}",
           stmt=f"unguarded set_model {bad_b}")

    # ---- shared mechanisms: the neighbour's rules run as obligations of this property
    ctx.include("C03", "C05.R6", only=['C03.R4'])
    ctx.include("C06", "C05.R6", only=['C06.R2', 'C06.R4'])
    ctx.rule("R6", "shared mechanisms, run as obligations of this property: the proposal and the correction handed to mh_step are the two parts of ONE proposal (C06.R4); the log-density mh_step compares is the model's log-probability as it is (NaN and -inf reach the guard unchanged) (C03.R4); an undefined IWLS backward density must reach mh_step as NaN (C06.R2).")


def contains_exp_of(t, inner):
    return any(x == inner for x in subterms(t))
