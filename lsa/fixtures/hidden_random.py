# Positive control for C10.R2: the matcher must report exactly the three calls below.
import os
import random
import time

import numpy as np


def hidden():
    a = np.random.randint(3)
    b = random.random()
    c = os.urandom(4)
    return a, b, c, time.monotonic()
