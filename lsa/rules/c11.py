"""
C11 -- step-size adaptation follows dual averaging, frozen outside adaptation.
"""

from __future__ import annotations

import sympy as sp

from ..algebra import Untranslatable, is_zero, to_sympy
from ..core.terms import (c, evaluate, fn_name, kw, make_inliner, n, pretty, subterms)
from .common import LIB_FACTS, is_call, kernel_classes, method, short

DA = "liesel.goose.da"
SELF = n("self")
KS = n("kernel_state")


def check(ctx):
    repo = ctx.repo
    ctx.rule("R1", "da_step equals the Hoffman-Gelman/Stan dual-averaging recurrence in "
                   "closed form (sympy term normalisation); da_init restarts it from the "
                   "current step size; da_finalize installs exp(averaged log step size).")
    ctx.rule("R2", "the next log step size is strictly increasing in the observed "
                   "acceptance probability (sign of the derivative under gamma, t0+t > 0).")
    ctx.rule("R3", "every step-size-adapting kernel calls the standard transition once and "
                   "then da_step with (outcome state, outcome acceptance prob, time in "
                   "epoch, its own da constants) bound to the right parameters; start_epoch "
                   "= da_init, end_epoch = da_finalize, unconditionally.")
    ctx.rule("R4", "standard transitions never write the kernel state nor pass it to a "
                   "function that mutates it, and return it unchanged; the adaptive "
                   "transition is dispatched in FAST_/SLOW_ADAPTATION epochs only.")
    ctx.trust("sympy.simplify as algebraic normaliser for the extracted terms",
              LIB_FACTS["cond"])
    ctx.undecided("float rounding of exp(log(step size)) at epoch boundaries")

    # ------------------------------------------------------------------ R1 / R2
    E, A, mu = sp.symbols("E A mu", real=True)
    eps, gamma, kappa = sp.symbols("eps gamma kappa", positive=True)
    delta, alpha = sp.symbols("delta alpha", real=True)
    tin = sp.Symbol("t_in", nonnegative=True)
    t0 = sp.Symbol("t0", positive=True)

    def ks_syms(base):
        return {("a", base, "error_sum"): E, ("a", base, "log_avg_step_size"): A,
                ("a", base, "mu"): mu, ("a", base, "step_size"): eps}

    step = repo.func(f"{DA}.da_step")
    rs = evaluate(repo, step)
    syms = ks_syms(KS)
    syms.update({n("acceptance_prob"): alpha, n("time_in_epoch"): tin,
                 n("target_accept"): delta, n("gamma"): gamma, n("kappa"): kappa,
                 n("t0"): t0})
    heap = {loc[2]: val for loc, val in rs.env.heap.items() if loc[0] == "a" and loc[1] == KS}
    t = tin + 1
    E1 = E + delta - alpha
    logeps1 = mu - sp.sqrt(t) * E1 / (gamma * (t0 + t))
    eta = t ** (-kappa)
    ref = {"error_sum": E1, "step_size": sp.exp(logeps1),
           "log_avg_step_size": (1 - eta) * A + eta * logeps1}
    got = {}
    for fld, want in ref.items():
        term = heap.get(fld)
        ok, detail = False, ""
        if term is None:
            detail = f"kernel_state.{fld} is not updated"
        else:
            try:
                e = to_sympy(term, syms)
                got[fld] = e
                ok = is_zero(e - want)
                detail = f"{fld}' = {sp.simplify(e)}; reference {sp.simplify(want)}"
            except Untranslatable as ex:
                detail = f"untranslatable {short(ex.args[0])}"
        ctx.ob("C11.R1", step, f"da_step: new {fld} equals the dual-averaging recurrence "
                               f"(t = time_in_epoch + 1)", ok, detail=detail,
               stmt=f"{fld} := {pretty(term or ())[:200]}",
               facts={"reference": str(want)})
    extra = sorted(set(heap) - set(ref))
    ctx.ob("C11.R1", step, "da_step updates only error_sum, step_size and "
                           "log_avg_step_size (mu is the fixed shrinkage point)", not extra,
           detail=str(extra), stmt=f"extra updates {extra}")
    ctx.ob("C11.R1", step, "eta(t=1) = 1: the restart value of the averaged log step size "
                           "is irrelevant", sp.simplify(eta.subs(tin, 0) - 1) == 0)
    if "step_size" in got:
        d = sp.simplify(sp.diff(sp.log(got["step_size"]), alpha))
        d = sp.simplify(sp.expand_log(d, force=True))
        pos = d.is_positive
        if pos is None:
            pos = sp.simplify(d - sp.sqrt(t) / (gamma * (t0 + t))) == 0
        ctx.ob("C11.R2", step, "d log(step_size') / d acceptance_prob > 0 for gamma > 0, "
                               "t0 + t > 0: a higher acceptance probability never yields a "
                               "smaller next step size", bool(pos), detail=f"derivative {d}",
               stmt=f"derivative {d}", facts={"derivative": str(d)})
    init = repo.func(f"{DA}.da_init")
    ri = evaluate(repo, init)
    hi = {loc[2]: val for loc, val in ri.env.heap.items() if loc[0] == "a" and loc[1] == KS}
    want_i = {"error_sum": sp.Integer(0), "log_avg_step_size": sp.log(eps),
              "mu": sp.log(10 * eps)}
    for fld, want in want_i.items():
        term = hi.get(fld)
        ok = False
        try:
            ok = term is not None and is_zero(to_sympy(term, ks_syms(KS)) - want)
        except Untranslatable:
            ok = False
        ctx.ob("C11.R1", init, f"da_init: {fld} = {want}", ok, detail=short(term or ()),
               stmt=f"init {fld} := {pretty(term or ())[:100]}")
    ctx.ob("C11.R1", init, "da_init leaves the step size itself unchanged",
           "step_size" not in hi, detail=str(sorted(hi)))
    fin = repo.func(f"{DA}.da_finalize")
    rf = evaluate(repo, fin)
    hf = {loc[2]: val for loc, val in rf.env.heap.items() if loc[0] == "a" and loc[1] == KS}
    term = hf.get("step_size")
    ok = False
    try:
        ok = term is not None and is_zero(to_sympy(term, ks_syms(KS)) - sp.exp(A)) \
            and set(hf) == {"step_size"}
    except Untranslatable:
        ok = False
    ctx.ob("C11.R1", fin, "da_finalize: step_size = exp(log_avg_step_size), always", ok,
           detail=short(term or ()), stmt=f"finalize := {pretty(term or ())[:160]}")

    # ------------------------------------------------------------------ mutating functions
    mutators = {}
    for q, fi in repo.functions.items():
        if not fi.qualname.startswith("liesel.goose.") or fi.cls is not None:
            continue
        if "<locals>" in fi.qualname:
            continue
        r = evaluate(repo, fi)
        ps = fi.params()
        for loc, val, _, _ in r.stores:
            base = loc[1]
            if base[0] == "n" and base[1] in ps:
                mutators.setdefault(fi.qualname, set()).add(ps.index(base[1]))
    ctx.extra["mutating_functions"] = {k: sorted(v) for k, v in mutators.items()}
    ctx.require_min("functions of liesel.goose that mutate a parameter (da_*)",
                    len([m for m in mutators if m.startswith(DA)]), 3)

    # ------------------------------------------------------------------ R3 / R4
    kernels = kernel_classes(repo)
    adapting = {nm: ci for nm, ci in kernels.items()
                if repo.lookup_method(ci, "_adaptive_transition") is not None
                and ci.own_method("_adaptive_transition") is not None}
    ctx.require_min("step-size adapting kernels", len(adapting), 5)
    outcome = ("call", ("a", SELF, "_standard_transition"),
               (n("prng_key"), KS, n("model_state"), n("epoch")), ())
    want_bind = {
        "kernel_state": ("a", outcome, "kernel_state"),
        "acceptance_prob": ("a", ("a", outcome, "info"), "acceptance_prob"),
        "time_in_epoch": ("a", n("epoch"), "time_in_epoch"),
        "target_accept": ("a", SELF, "da_target_accept"),
        "gamma": ("a", SELF, "da_gamma"), "kappa": ("a", SELF, "da_kappa"),
        "t0": ("a", SELF, "da_t0"),
    }
    da_params = step.params()
    for nm, ci in sorted(adapting.items()):
        at = method(repo, ci, "_adaptive_transition", own=True)
        ra = evaluate(repo, at)
        st_calls = [t for t, _, _ in ra.calls if t[1] == ("a", SELF, "_standard_transition")]
        ctx.ob("C11.R3", at, "the adaptive transition performs the standard transition "
                             "exactly once, on its own arguments",
               len(st_calls) == 1 and (st_calls[0] == outcome or _same_args(st_calls[0])),
               detail=str([short(t) for t in st_calls]))
        das = [(t, cond) for t, _, cond in ra.calls if is_call(t, f"{DA}.da_step")]
        ok_one = len(das) == 1
        guard_ok = True
        if ok_one:
            t, cond = das[0]
            if cond:
                guard_ok = (nm == "MHKernel" and [(a, p) for a, p in cond]
                            == [(("a", SELF, "da_tune_step_size"), True)])
            bound = {}
            for i, a in enumerate(t[2]):
                if i < len(da_params):
                    bound[da_params[i]] = a
            for k, v in t[3]:
                bound[k] = v
            wrong = {k: pretty(bound.get(k) or ()) for k, v in want_bind.items()
                     if bound.get(k) != v}
            ctx.ob("C11.R3", at, "da_step receives (outcome.kernel_state, outcome.info."
                                 "acceptance_prob, epoch.time_in_epoch, self.da_target_accept,"
                                 " self.da_gamma, self.da_kappa, self.da_t0) bound to the "
                                 "parameters of the same meaning", not wrong,
                   detail=f"mis-bound: {wrong}", stmt=f"da_step binding {sorted(wrong)}",
                   facts={"bound": {k: pretty(v)[:60] for k, v in bound.items()}})
        ctx.ob("C11.R3", at, "da_step is called exactly once per adaptive transition"
                             + (" (MH: iff da_tune_step_size)" if nm == "MHKernel" else
                                ", unconditionally"), ok_one and guard_ok,
               detail=f"{len(das)} call(s); guard {[(pretty(a), p) for a, p in das[0][1]] if das else ''}",
               stmt="da_step count/guard")
        rt = ra.ret()
        ctx.ob("C11.R3", at, "the adaptive transition returns the standard transition's "
                             "outcome", rt is not None and rt[0] == "call"
               and rt[1] == ("a", SELF, "_standard_transition"), detail=short(rt or ()))
        for mname, fn in (("start_epoch", "da_init"), ("end_epoch", "da_finalize")):
            fi = method(repo, ci, mname)
            r = evaluate(repo, fi)
            cs = [(t, cond) for t, _, cond in r.calls if is_call(t, f"{DA}.{fn}")]
            others = [t for t, _, _ in r.calls if is_call(t, f"{DA}.da_init", f"{DA}.da_step",
                                                          f"{DA}.da_finalize")
                      and not is_call(t, f"{DA}.{fn}")]
            ok = (len(cs) == 1 and cs[0][0][2] == (KS,) and not cs[0][1] and not others
                  and r.ret() == KS)
            ctx.ob("C11.R3", fi, f"{mname} calls {fn}(kernel_state) exactly once, in every "
                                 f"epoch type, and returns the state", ok,
                   detail=f"{len(cs)} call(s), guards "
                          f"{[[(pretty(a), p) for a, p in cd] for _, cd in cs]}",
                   stmt=f"{mname}/{fn}")
        # constructor stores the constants under the names used above
        ini = method(repo, ci, "__init__")
        rin = evaluate(repo, ini)
        stored = {loc[2]: val for loc, val, _, cond in rin.stores if loc[1] == SELF}
        wrong = [k for k in ("da_target_accept", "da_gamma", "da_kappa", "da_t0")
                 if stored.get(k) != n(k)]
        ctx.ob("C11.R3", ini, "the dual-averaging constants are stored under their own "
                              "names", not wrong, detail=f"mismatch {wrong}",
               stmt=f"constants {wrong}")
    # tune (except the mass-matrix tuner of HMC/NUTS, C12) and end_warmup leave the
    # kernel state untouched
    for nm, ci in sorted(kernels.items()):
        for mname in ("tune", "_tune_fast", "end_warmup"):
            fi = ci.own_method(mname)
            if fi is None:
                continue
            r = evaluate(repo, fi)
            writes = [loc for loc, _, _, _ in r.stores if _rooted_at(loc, KS)]
            rt = r.ret()
            same = rt is not None and rt[0] == "call" and kw(rt, "kernel_state", 1) == KS
            ctx.ob("C11.R4", fi, f"{mname} returns the kernel state unchanged", same
                   and not writes, detail=f"writes {[pretty(w) for w in writes]}; returns "
                                          f"{short(rt or (), 80)}",
                   stmt=f"{mname} changes kernel state")

    # kernel-state dataclasses restart dual averaging on construction
    n_states = 0
    for q, ci in sorted(repo.classes.items()):
        # (only the classes that carry the dual-averaging fields: some other data class
        # growing a __post_init__ is none of this property's business)
        if not q.startswith("liesel.goose.") or not (
                {"error_sum", "log_avg_step_size", "mu"} & set(ci.annotated_fields())) \
                or any("Protocol" in str(b) for b in ci.base_names):
            continue
        pi = ci.own_method("__post_init__")
        n_states += 1
        if pi is None:
            ctx.ob("C11.R3", ci, "a kernel state with dual-averaging fields initialises them "
                                 "on construction (__post_init__ calls da_init(self))", False,
                   stmt=f"{ci.name} has no __post_init__")
            continue
        r = evaluate(repo, pi)
        cs = [t for t, _, cond in r.calls if is_call(t, f"{DA}.da_init") and not cond]
        ctx.ob("C11.R3", pi, "a new kernel state initialises dual averaging (da_init(self))",
               len(cs) == 1 and cs[0][2] == (SELF,))
    ctx.require_min("kernel-state dataclasses", n_states, 4)

    # ---- R4: the adaptive branch is selected in adaptation epochs only
    from .c07 import dispatch_obligations
    dispatch_obligations(ctx, "C11.R4", "C11.R4")
    # ---- R4
    n_std = 0
    for nm, ci in sorted(kernels.items()):
        for mname in ("_standard_transition", "transition"):
            fi = ci.own_method(mname)
            if fi is None:
                continue
            if mname == "transition" and repo.lookup_method(ci, "_standard_transition"):
                continue
            n_std += 1
            r = evaluate(repo, fi, inline=make_inliner(
                repo, self_class=ci, allow=lambda f: f.cls is not None), inline_depth=2)
            writes = [loc for loc, _, _, _ in r.stores if _rooted_at(loc, KS)]
            passed = []
            for t, _, _ in r.calls:
                q = fn_name(t[1]) or ""
                if q in mutators:
                    for i in mutators[q]:
                        if i < len(t[2]) and _rooted_at(t[2][i], KS, strict=False):
                            passed.append(q)
            ctx.ob("C11.R4", fi, "the standard transition neither writes the kernel state "
                                 "nor hands it to a mutating function (tuning is frozen "
                                 "outside adaptation)", not writes and not passed,
                   detail=f"writes {[pretty(w) for w in writes]}, mutators {passed}",
                   stmt=f"kernel_state mutated {[pretty(w) for w in writes] + passed}")
            bad_ret = []
            for rc, rt, rn in r.returns:
                if is_call(rt, "liesel.goose.kernel.TransitionOutcome"):
                    if kw(rt, "kernel_state", 1) != KS:
                        bad_ret.append(short(kw(rt, "kernel_state", 1) or ()))
            ctx.ob("C11.R4", fi, "the outcome carries the input kernel state unchanged",
                   not bad_ret, detail=str(bad_ret), stmt=f"outcome kernel_state {bad_ret}")
    ctx.require_min("standard transitions", n_std, 6)

    # ---- shared mechanisms: the neighbour's rules run as obligations of this property
    ctx.include("C07", "C11.R5", only=['C07.R3'])
    ctx.rule("R5", "shared mechanisms, run as obligations of this property: the within-epoch clock the recurrence reads advances by one per transition across chunks (C07.R3).")


def _same_args(t) -> bool:
    want = {"prng_key": n("prng_key"), "kernel_state": KS, "model_state": n("model_state"),
            "epoch": n("epoch")}
    names = ["prng_key", "kernel_state", "model_state", "epoch"]
    got = {}
    for i, a in enumerate(t[2]):
        got[names[i]] = a
    for k, v in t[3]:
        got[k] = v
    return got == want


def _rooted_at(t, root, strict=True) -> bool:
    """location/term is `root` or an attribute/subscript chain starting at it."""
    if t == root:
        return not strict
    while isinstance(t, tuple) and t and t[0] in ("a", "s"):
        t = t[1]
        if t == root:
            return True
    return False
