"""
Deterministic equivalence driver for Model.simulate() and the code it rests on
(Model._build_simulation_graph, Model._simulation_nodes, Model.update).

Prints one line per observation and a final sha256 over all lines. Run it with the
worktree on PYTHONPATH, once on HEAD and once with the patch applied; the outputs
must be byte-identical.
"""

from __future__ import annotations

import hashlib
import io
import logging
import re
from copy import deepcopy

import dill
import jax
import jax.numpy as jnp
import jax.random as rnd
import numpy as np
import tensorflow_probability.substrates.jax.distributions as tfd

import liesel.model.model as model_module
from liesel.model import Calc, Dist, GraphBuilder, Model, Value, Var

jax.config.update("jax_enable_x64", False)

LINES: list[str] = []


def emit(*parts) -> None:
    line = " | ".join(str(p) for p in parts)
    line = re.sub(r" at 0x[0-9a-fA-F]+", " at 0x?", line)  # memory addresses
    LINES.append(line)
    print(line)


def bits(x) -> str:
    """Bit-exact fingerprint of a value (dtype, shape, raw bytes)."""
    if x is None:
        return "None"
    try:
        a = np.asarray(x)
    except Exception:  # pragma: no cover
        return "unrepr:" + type(x).__name__
    if a.dtype == object:
        return "obj:" + type(x).__name__
    return f"{a.dtype}{list(a.shape)}:{a.tobytes().hex()}"


def snapshot(tag: str, model: Model) -> None:
    """All node values and outdated flags, in name order, without triggering updates."""
    for name in sorted(model.nodes):
        node = model.nodes[name]
        state = node.state
        emit(tag, "node", name, type(node).__name__, state.outdated, bits(state.value))


def order(tag: str, model: Model) -> None:
    emit(tag, "sorted", [n.name for n in model._sorted_nodes])
    emit(tag, "simnodes", [n.name for n in model._simulation_nodes])
    emit(tag, "simedges", [(a.name, b.name) for a, b in model._simulation_graph.edges])
    emit(tag, "simgraphnodes", [n.name for n in model._simulation_graph.nodes])
    emit(tag, "nodeedges", [(a.name, b.name) for a, b in model.node_graph.edges])
    emit(tag, "instance_attrs", sorted(vars(model)))


class Counter:
    """A user function with an observable call count."""

    def __init__(self, fn):
        self.fn = fn
        self.calls = 0

    def __call__(self, *args, **kwargs):
        self.calls += 1
        return self.fn(*args, **kwargs)


class Recorder:
    """A single-pass / instrumented `skip` container: records every membership test."""

    def __init__(self, names):
        self.names = set(names)
        self.asked: list[str] = []

    def __contains__(self, item):
        self.asked.append(item)
        return item in self.names

    def __iter__(self):  # pragma: no cover
        return iter(sorted(self.names))


# --------------------------------------------------------------------------------------
# model factories
# --------------------------------------------------------------------------------------


def flat_model(value=0.0):
    mu = Var(0.0, name="mu")
    sigma = Var(1.0, name="sigma")
    x = Var(value, Dist(tfd.Normal, mu, sigma), name="x")
    return GraphBuilder().add(x).build_model(), {}


def direct_hier_model(value=0.0):
    mu = Var(0.0, Dist(tfd.Normal, loc=2.0, scale=1.0), name="mu")
    sigma = Var(1.0, name="sigma")
    x = Var(value, Dist(tfd.Normal, mu, sigma), name="x")
    return GraphBuilder().add(x).build_model(), {}


def calc_hier_model(n=4):
    """tau -> exp(tau) -> scale of beta; beta,X -> eta calc -> loc of y."""
    f_exp = Counter(jnp.exp)
    f_eta = Counter(lambda X, b: X @ b + 10.0)

    tau = Var(0.5, Dist(tfd.Normal, loc=0.0, scale=0.25), name="tau")
    scale = Var(Calc(f_exp, tau), name="scale")
    beta = Var(
        jnp.zeros(3), Dist(tfd.Normal, loc=jnp.array([0.0, 1.0, -1.0]), scale=scale),
        name="beta",
    )
    X = Var(jnp.arange(n * 3, dtype=jnp.float32).reshape(n, 3) / 7.0, name="X")
    eta = Calc(f_eta, X, beta, _name="eta")
    sd = Var(0.125, name="sd")
    y = Var(jnp.zeros(n), Dist(tfd.Normal, loc=eta, scale=sd), name="y")
    return GraphBuilder().add(y).build_model(), {"exp": f_exp, "eta": f_eta}


def chain_model():
    """a -> b -> c -> d, each via an intermediate calculation."""
    fs = {}
    prev = Var(1.0, Dist(tfd.Normal, loc=0.0, scale=1.0), name="a")
    for nm in "bcd":
        f = Counter(lambda v: 100.0 + 2.0 * v)
        fs[nm] = f
        loc = Calc(f, prev, _name=f"loc_{nm}")
        prev = Var(jnp.zeros((2,)), Dist(tfd.Normal, loc=loc, scale=0.01), name=nm)
    return GraphBuilder().add(prev).build_model(), fs


def mvn_model():
    """Event shape (3,), batch shape (2,), value with an extra sample dimension."""
    loc = Var(jnp.zeros((2, 3)), Dist(tfd.Normal, loc=5.0, scale=1.0), name="loc")
    sd = Var(jnp.array([1.0, 2.0, 3.0]), name="sd")
    z = Var(
        jnp.zeros((4, 2, 3)), Dist(tfd.MultivariateNormalDiag, loc=loc, scale_diag=sd),
        name="z",
    )
    g = Var(jnp.ones((5,)), Dist(tfd.Gamma, concentration=2.0, rate=jnp.ones(5)), name="g")
    return GraphBuilder().add(z, g).build_model(), {}


def bare_node_model():
    """Distribution nodes evaluated at bare nodes (not the value node of a var)."""
    v = Value(0.0, _name="bare_value")
    d = Dist(tfd.Normal, loc=3.0, scale=1.0, _name="bare_dist")
    d.at = v
    w = Var(0.0, Dist(tfd.Normal, loc=v, scale=1.0), name="w")
    return Model([d, w]), {}


def unsettable_var_model():
    mu = Var(0.0, name="mu")
    sigma = Var(1.0, name="sigma")
    x = Var(Calc(lambda: 0.0), Dist(tfd.Normal, mu, sigma), name="x")
    return GraphBuilder().add(x).build_model(), {}


def unsettable_mixed_model():
    """The first variable can be drawn, the second cannot: partial side effects."""
    mu = Var(0.0, Dist(tfd.Normal, loc=2.0, scale=1.0), name="mu")
    x = Var(Calc(lambda m: m * 0.0, mu), Dist(tfd.Normal, mu, 1.0), name="x")
    return GraphBuilder().add(x).build_model(), {}


FACTORIES = {
    "flat": flat_model,
    "direct": direct_hier_model,
    "calc": calc_hier_model,
    "chain": chain_model,
    "mvn": mvn_model,
    "bare": bare_node_model,
}

# --------------------------------------------------------------------------------------
# scenarios
# --------------------------------------------------------------------------------------


def run_simulate(tag, model, counters, seed, skip=(), auto_update=True):
    model.auto_update = auto_update
    before = {k: c.calls for k, c in counters.items()}
    try:
        ret = model.simulate(seed, skip) if skip != () else model.simulate(seed)
        emit(tag, "returned_self", ret is model)
    except Exception as exc:  # noqa: BLE001
        ctx = exc.__context__
        emit(
            tag, "raised", type(exc).__name__, str(exc), exc.args,
            type(ctx).__name__ if ctx is not None else None,
            type(exc.__cause__).__name__ if exc.__cause__ is not None else None,
            exc.__suppress_context__,
        )
    emit(tag, "calls_after_simulate", {k: c.calls - before[k] for k, c in counters.items()})
    emit(tag, "auto_update", model.auto_update)
    snapshot(tag + ":post", model)
    model.update()
    emit(tag, "calls_after_update", {k: c.calls - before[k] for k, c in counters.items()})
    snapshot(tag + ":upd", model)
    emit(tag, "log_prob", bits(model.log_prob), "log_lik", bits(model.log_lik),
         "log_prior", bits(model.log_prior))
    for name in sorted(model.vars):
        emit(tag, "var", name, bits(model.vars[name].value))


def main() -> None:
    # capture log records of the module under test: logging is a side effect, too
    stream = io.StringIO()
    handler = logging.StreamHandler(stream)
    handler.setLevel(logging.DEBUG)
    lg = logging.getLogger("liesel")
    old_level = lg.level
    lg.setLevel(logging.DEBUG)
    lg.addHandler(handler)

    emit("module", model_module.__name__)

    # 1. orders and graphs
    for name, factory in FACTORIES.items():
        m, _ = factory()
        order(f"order:{name}", m)
    order("order:empty", Model([]))

    # 2. every model x seeds x auto-update
    for name, factory in FACTORIES.items():
        for s in (0, 42, 2**31 - 1):
            for au in (True, False):
                m, cs = factory()
                run_simulate(f"sim:{name}:s{s}:au{int(au)}", m, cs, rnd.PRNGKey(s), (), au)

    # 3. shapes of the current values
    for shape in ((), (1,), (5,), (5, 5), (2, 1, 3), (0,)):
        for fac_name in ("flat", "direct"):
            for au in (True, False):
                m, cs = FACTORIES[fac_name](jnp.zeros(shape))
                run_simulate(f"shape:{fac_name}:{shape}:au{int(au)}", m, cs,
                             rnd.PRNGKey(7), (), au)

    # python scalar / numpy / int valued current values
    for val in (0.0, 1, np.zeros(3), np.float64(2.0), [0.0, 0.0]):
        m, cs = flat_model(val)
        run_simulate(f"valtype:{type(val).__name__}", m, cs, rnd.PRNGKey(3))

    # 4. skip sets of every container kind, by dist / at / var name
    skip_sets = {
        "dist": ["beta_log_prob"],
        "at": ["beta_var_value"],
        "var": ["beta"],
        "top": ["tau"],
        "leaf": ["y"],
        "two": ["tau", "y_log_prob"],
        "all": ["tau", "beta", "y"],
        "unknown": ["nope"],
        "valuenode": ["beta_value"],
        "empty": [],
    }
    for key, names in skip_sets.items():
        for au in (True, False):
            for kind in ("list", "tuple", "set", "frozenset", "dictkeys", "str", "recorder"):
                m, cs = calc_hier_model()
                rec = None
                if kind == "list":
                    skip = list(names)
                elif kind == "tuple":
                    skip = tuple(names)
                    if skip == ():
                        continue
                elif kind == "set":
                    skip = set(names)
                elif kind == "frozenset":
                    skip = frozenset(names)
                elif kind == "dictkeys":
                    skip = dict.fromkeys(names).keys()
                elif kind == "str":
                    # substring semantics of `in` on a plain string
                    skip = ",".join(names)
                else:
                    skip = rec = Recorder(names)
                tag = f"skip:{key}:{kind}:au{int(au)}"
                run_simulate(tag, m, cs, rnd.PRNGKey(11), skip, au)
                if rec is not None:
                    emit(tag, "asked", rec.asked)

    # single-pass iterables: generators and iterators are consumed by `in`
    for key, names in skip_sets.items():
        for au in (True, False):
            m, cs = calc_hier_model()
            gen = (n for n in names)
            tag = f"skip:{key}:generator:au{int(au)}"
            run_simulate(tag, m, cs, rnd.PRNGKey(11), gen, au)
            emit(tag, "left", list(gen))

            m, cs = calc_hier_model()
            it = iter(names + ["x1", "x2", "tau", "x3", "beta_log_prob", "x4"])
            tag = f"skip:{key}:iterator:au{int(au)}"
            run_simulate(tag, m, cs, rnd.PRNGKey(11), it, au)
            emit(tag, "left", list(it))

    for au in (True, False):
        m, cs = bare_node_model()
        for skip in (["bare_dist"], ["bare_value"], ["w"], ["w_var_value"]):
            m, cs = bare_node_model()
            run_simulate(f"skip:bare:{skip[0]}:au{int(au)}", m, cs, rnd.PRNGKey(5), skip, au)

    # keyword call
    m, cs = calc_hier_model()
    m.simulate(seed=rnd.PRNGKey(1), skip=["tau"])
    snapshot("kwcall", m)

    # 5. errors
    for au in (True, False):
        m, cs = unsettable_var_model()
        run_simulate(f"err:var:au{int(au)}", m, cs, rnd.PRNGKey(42), (), au)
        m, cs = unsettable_mixed_model()
        run_simulate(f"err:mixed:au{int(au)}", m, cs, rnd.PRNGKey(42), (), au)

        # at is a bare Calc node: the `else` branch of the assignment
        c = Calc(lambda: 0.0, _name="bare_calc")
        d = Dist(tfd.Normal, loc=0.0, scale=1.0, _name="d_on_calc")
        d.at = c
        # no var -> not simulated, no error
        run_simulate(f"err:barecalc:au{int(au)}", Model([d]), {}, rnd.PRNGKey(42), (), au)

        # a distribution of a var evaluated at a foreign bare node (only reachable by
        # bypassing the `at` setter): the non-VarValue branch of the assignment
        for kind in ("value", "calc"):
            other = (
                Value(0.0, _name="other") if kind == "value"
                else Calc(lambda: 0.0, _name="other")
            )
            p = Var(0.0, Dist(tfd.Normal, loc=2.0, scale=1.0), name="p")
            q = Var(0.0, Dist(tfd.Normal, loc=p, scale=1.0), name="q")
            q.dist_node._at = other
            mm = Model([q, other])
            order(f"err:foreign:{kind}:au{int(au)}", mm)
            run_simulate(f"err:foreign:{kind}:au{int(au)}", mm, {}, rnd.PRNGKey(42), (), au)

    # bad seeds
    for bad in (None, 1.5, jnp.zeros(3)):
        m, cs = direct_hier_model()
        run_simulate(f"err:seed:{bits(bad)[:20]}", m, cs, bad)

    # distribution that cannot be initialised from the drawn parent values stays an error
    def picky(loc, scale):
        raise ValueError("picky distribution")

    mu = Var(0.0, Dist(tfd.Normal, loc=2.0, scale=1.0), name="mu")
    xx = Var(0.0, Dist(tfd.Normal, mu, 1.0), name="x")
    m = GraphBuilder().add(xx).build_model()
    m.nodes["x_log_prob"]._distribution = picky
    try:
        m.simulate(rnd.PRNGKey(0))
    except Exception as exc:  # noqa: BLE001
        emit("err:picky", type(exc).__name__, str(exc))
    for name in sorted(m.nodes):
        st = m.nodes[name].state
        emit("err:picky", name, st.outdated, bits(st.value))

    # 6. repeated simulation, determinism, interplay with update(*names)
    for au in (True, False):
        m, cs = calc_hier_model()
        m.auto_update = au
        for i in range(3):
            m.simulate(rnd.PRNGKey(i))
            snapshot(f"repeat:au{int(au)}:{i}", m)
            m.update("eta")
            snapshot(f"repeat:au{int(au)}:{i}:upd_eta", m)
            m.update("y_log_prob", "tau_log_prob")
            snapshot(f"repeat:au{int(au)}:{i}:upd_two", m)
            emit(f"repeat:au{int(au)}:{i}", "calls", {k: c.calls for k, c in cs.items()})
        emit(f"repeat:au{int(au)}", "update_returns_self", m.update() is m,
             m.update("eta") is m)
        try:
            m.update("does_not_exist")
        except Exception as exc:  # noqa: BLE001
            emit(f"repeat:au{int(au)}", "update_unknown", type(exc).__name__, str(exc))

    # stale intermediate values before simulate, auto-update off
    m, cs = calc_hier_model()
    m.auto_update = False
    m.vars["tau"].value = 3.0
    m.vars["beta"].value = jnp.ones(3)
    snapshot("stale:pre", m)
    run_simulate("stale", m, cs, rnd.PRNGKey(9), ["tau"], False)

    # 7. copies and serialisation carry the simulation order
    m, cs = calc_hier_model()
    m2 = deepcopy(m)
    order("copy:deepcopy", m2)
    run_simulate("copy:deepcopy", m2, {}, rnd.PRNGKey(4), (), False)
    m3 = dill.loads(dill.dumps(m))
    order("copy:dill", m3)
    run_simulate("copy:dill", m3, {}, rnd.PRNGKey(4), (), False)
    m4 = m._copy_computational_model()
    order("copy:computational", m4)
    nodes, _vars = m.copy_nodes_and_vars()
    m5 = GraphBuilder().add(*_vars.values()).build_model()
    order("copy:rebuilt", m5)
    run_simulate("copy:rebuilt", m5, {}, rnd.PRNGKey(4), ["tau"], True)
    nodes, _vars = m.pop_nodes_and_vars()
    emit("pop", sorted(nodes), sorted(_vars), sorted(vars(m)))
    emit("pop", "simnodes_after_pop", [n.name for n in m._simulation_nodes])
    m6 = Model(_vars.values())
    order("copy:popped", m6)
    run_simulate("copy:popped", m6, cs, rnd.PRNGKey(4), (), False)

    # 7b. seed nodes: set_seed() and its interplay with simulate()
    def seeded_model():
        f_noise = Counter(lambda v, seed: v + rnd.normal(seed))
        f_noise2 = Counter(lambda v, seed: v * rnd.uniform(seed, (2,)))
        a = Var(1.0, Dist(tfd.Normal, loc=0.0, scale=1.0), name="a")
        noisy = Calc(f_noise, a, _name="noisy", _needs_seed=True)
        noisy2 = Calc(f_noise2, noisy, _name="noisy2", _needs_seed=True)
        b = Var(jnp.zeros(2), Dist(tfd.Normal, loc=noisy2, scale=0.5), name="b")
        return GraphBuilder().add(b).build_model(), {"n1": f_noise, "n2": f_noise2}

    for au in (True, False):
        m, cs = seeded_model()
        m.auto_update = au
        order(f"seeded:au{int(au)}", m)
        emit(f"seeded:au{int(au)}", "seed_nodes", [n.name for n in m._seed_nodes])
        for s in (0, 5):
            emit(f"seeded:au{int(au)}:s{s}", "set_seed_returns_self",
                 m.set_seed(rnd.PRNGKey(s)) is m)
            snapshot(f"seeded:au{int(au)}:s{s}:set", m)
            run_simulate(f"seeded:au{int(au)}:s{s}", m, cs, rnd.PRNGKey(s + 100), (), au)
        m.set_seed(seed=rnd.PRNGKey(8))
        snapshot(f"seeded:au{int(au)}:kw", m)
        for bad in (None, 1.5):
            try:
                m.set_seed(bad)
            except Exception as exc:  # noqa: BLE001
                emit(f"seeded:au{int(au)}", "bad_seed", type(exc).__name__, str(exc))
            snapshot(f"seeded:au{int(au)}:bad", m)

    # a model without seed nodes
    m, cs = calc_hier_model()
    emit("seeded:none", m.set_seed(rnd.PRNGKey(0)) is m, [n.name for n in m._seed_nodes])
    snapshot("seeded:none", m)
    emit("seeded:empty", Model([]).set_seed(rnd.PRNGKey(0)) is not None)

    # 8. the class surface
    emit("signature", str(__import__("inspect").signature(Model.simulate)))
    emit("signature", str(__import__("inspect").signature(Model.update)))
    emit("signature", str(__import__("inspect").signature(Model.set_seed)))
    emit("signature", str(__import__("inspect").signature(Model._build_simulation_graph)))
    emit("static", isinstance(Model.__dict__["_build_simulation_graph"], staticmethod))
    emit("public", sorted(n for n in dir(Model) if not n.startswith("_")))

    lg.removeHandler(handler)
    lg.setLevel(old_level)
    # tracebacks in debug records carry file paths and line numbers of this driver
    log_text = re.sub(r'File "[^"]*", line \d+', 'File "?", line ?', stream.getvalue())
    emit("log_records", repr(log_text))

    digest = hashlib.sha256("\n".join(LINES).encode()).hexdigest()
    print("DIGEST", len(LINES), digest)


if __name__ == "__main__":
    main()
