"""
Deterministic equivalence program for property C04 (kernel invariance).

Runs every built-in Goose kernel (NUTS, HMC, IWLS, RW, MH, Gibbs) alone and in
sequences over disjoint blocks, on dictionary-style, dataclass, named-tuple and
Liesel graph models (with a transformed parameter), through adaptation, burn-in
and posterior epochs, and prints a SHA-256 digest of every array that comes out
(samples, transition infos, tuning infos, final kernel states, error log).
In addition it calls the low-level functions (mh_step, KernelSequence methods,
kernel methods) directly, including the boundary cases (NaN acceptance
probability, +inf log-probability, missing model, wrong identifiers).

The program does not depend on where the library lives: run it with PYTHONPATH
pointing at the checkout under test.
"""

import hashlib
import logging
import re
import sys
import warnings
from dataclasses import dataclass
from typing import NamedTuple

import jax
import jax.numpy as jnp
import numpy as np
import tensorflow_probability.substrates.jax.distributions as tfd

import liesel.goose as gs
import liesel.model as lsl
from liesel.goose.epoch import EpochConfig, EpochType
from liesel.goose.kernel_sequence import KernelSequence
from liesel.goose.mh import mh_step
from liesel.goose.mh_kernel import MHProposal
from liesel.goose.pytree import register_dataclass_as_pytree

warnings.filterwarnings("ignore")
logging.getLogger("liesel").setLevel(logging.ERROR)

LINES: list[str] = []


def emit(label: str, text: str) -> None:
    line = f"{label}: {text}"
    LINES.append(line)
    print(line)
    sys.stdout.flush()


_ADDRESS = re.compile(r"0x[0-9a-fA-F]+")


def digest(tree) -> str:
    """SHA-256 over paths, dtypes, shapes and raw bytes of all leaves."""
    h = hashlib.sha256()
    leaves = jax.tree_util.tree_flatten_with_path(tree)[0]
    for path, leaf in leaves:
        arr = np.asarray(leaf)
        h.update(jax.tree_util.keystr(path).encode())
        h.update(str(arr.dtype).encode())
        h.update(str(arr.shape).encode())
        if arr.dtype == object:
            # not numeric: hash the repr without memory addresses
            h.update(_ADDRESS.sub("0x?", repr(leaf)).encode())
        else:
            h.update(np.ascontiguousarray(arr).tobytes())
    return f"{len(leaves)} leaves {h.hexdigest()[:24]}"


def weak(tree) -> str:
    """Weak-type flags and dtypes of jax leaves (detects dtype drift)."""
    out = []
    for leaf in jax.tree_util.tree_leaves(tree):
        if isinstance(leaf, jax.Array):
            out.append(f"{leaf.dtype}{'w' if leaf.weak_type else ''}{leaf.shape}")
        else:
            out.append(type(leaf).__name__)
    return ",".join(out)


def exc(label: str, fn) -> None:
    try:
        res = fn()
        emit(label, f"ok {digest(res)}")
    except Exception as e:  # noqa: BLE001
        emit(label, f"{type(e).__name__}: {_ADDRESS.sub('0x?', str(e))[:200]}")


# ---------------------------------------------------------------------------
# data and models
# ---------------------------------------------------------------------------

rng = np.random.default_rng(20240607)
N = 25
X = np.column_stack([np.ones(N), rng.uniform(-1, 1, size=N)]).astype(np.float32)
Y = rng.normal(X @ np.array([0.5, -1.0]), 0.7).astype(np.float32)
A0, B0 = 2.0, 1.5


def lm_log_prob(ms):
    """Linear model, N(0, 3^2) prior on beta, N(0, 1) prior on log_sigma."""
    mu = ms["X"] @ ms["beta"]
    sigma = jnp.exp(ms["log_sigma"])
    lp = jnp.sum(jax.scipy.stats.norm.logpdf(ms["y"], mu, sigma))
    lp += jnp.sum(jax.scipy.stats.norm.logpdf(ms["beta"], 0.0, 3.0))
    lp += jax.scipy.stats.norm.logpdf(ms["log_sigma"], 0.0, 1.0)
    return lp


def lm_state():
    return {
        "y": jnp.asarray(Y),
        "X": jnp.asarray(X),
        "beta": jnp.array([0.3, -0.8], dtype=jnp.float32),
        "log_sigma": jnp.array(-0.2, dtype=jnp.float32),
    }


def conj_log_prob(ms):
    """Conjugate model: beta ~ N(0, 3^2), sigma2 ~ IG(A0, B0)."""
    mu = ms["X"] @ ms["beta"]
    sigma = jnp.sqrt(ms["sigma2"])
    lp = jnp.sum(jax.scipy.stats.norm.logpdf(ms["y"], mu, sigma))
    lp += jnp.sum(jax.scipy.stats.norm.logpdf(ms["beta"], 0.0, 3.0))
    lp += tfd.InverseGamma(A0, B0).log_prob(ms["sigma2"])
    return lp


def conj_state():
    return {
        "y": jnp.asarray(Y),
        "X": jnp.asarray(X),
        "beta": jnp.array([0.3, -0.8], dtype=jnp.float32),
        "sigma2": jnp.array(0.6, dtype=jnp.float32),
    }


def gibbs_sigma2(prng_key, ms):
    resid = ms["y"] - ms["X"] @ ms["beta"]
    a = A0 + N / 2
    b = B0 + jnp.sum(resid**2) / 2
    draw = b / jax.random.gamma(prng_key, a)
    return {"sigma2": draw.astype(jnp.float32)}


def mh_proposal_log_sigma(key, ms, step_size):
    """Asymmetric proposal: multiplicative random walk on exp(log_sigma)."""
    cur = ms["log_sigma"]
    eps = step_size * jax.random.normal(key)
    # propose sigma' = sigma * exp(eps) + tiny drift -> correction is not zero
    new = cur + eps + 0.01 * step_size
    # q(x'|x) = N(x + d, s^2), q(x|x') = N(x' + d, s^2)
    d = 0.01 * step_size
    fwd = jax.scipy.stats.norm.logpdf(new, cur + d, step_size)
    bwd = jax.scipy.stats.norm.logpdf(cur, new + d, step_size)
    return MHProposal({"log_sigma": new}, bwd - fwd)


def chol_info_beta(ms):
    sigma2 = jnp.exp(2 * ms["log_sigma"])
    info = ms["X"].T @ ms["X"] / sigma2 + jnp.eye(2) / 9.0
    return jnp.linalg.cholesky(info)


def liesel_model():
    beta = lsl.param(
        jnp.array([0.3, -0.8], dtype=jnp.float32),
        lsl.Dist(tfd.Normal, loc=0.0, scale=3.0),
        name="beta",
    )
    sigma = lsl.param(
        jnp.array(0.8, dtype=jnp.float32),
        lsl.Dist(tfd.InverseGamma, concentration=A0, scale=B0),
        name="sigma",
    )
    xvar = lsl.obs(jnp.asarray(X), name="X")
    mu = lsl.Var(lsl.Calc(lambda x, b: x @ b, xvar, beta), name="mu")
    yvar = lsl.obs(jnp.asarray(Y), lsl.Dist(tfd.Normal, loc=mu, scale=sigma), name="y")
    gb = lsl.GraphBuilder().add(yvar)
    gb.transform(sigma)
    return gb.build_model()


@register_dataclass_as_pytree
@dataclass
class DCState:
    x: jax.Array
    z: jax.Array


class NTState(NamedTuple):
    x: jax.Array
    z: jax.Array


def attr_log_prob(ms):
    lp = jnp.sum(jax.scipy.stats.norm.logpdf(ms.x, 1.0, 2.0))
    lp += jnp.sum(jax.scipy.stats.t.logpdf(ms.z - ms.x[0], 4.0))
    return lp


# ---------------------------------------------------------------------------
# engine scenarios
# ---------------------------------------------------------------------------

EPOCHS = [
    EpochConfig(EpochType.INITIAL_VALUES, 1, 1, None),
    EpochConfig(EpochType.FAST_ADAPTATION, 12, 1, None),
    EpochConfig(EpochType.SLOW_ADAPTATION, 18, 1, None),
    EpochConfig(EpochType.FAST_ADAPTATION, 12, 1, None),
    EpochConfig(EpochType.BURNIN, 6, 1, None),
    EpochConfig(EpochType.POSTERIOR, 24, 2, None),
]


def run_engine(label, seed, interface, state, kernels, chains=3, included=()):
    builder = gs.EngineBuilder(seed, num_chains=chains)
    builder.show_progress = False
    builder.store_kernel_states = True
    for k in kernels:
        builder.add_kernel(k)
    builder.set_model(interface)
    builder.set_initial_values(state)
    builder.set_epochs(EPOCHS)
    builder.positions_included = list(included)
    engine = builder.build()
    engine.sample_all_epochs()
    res = engine.get_results()

    emit(f"{label}/samples", digest(res.get_samples()))
    emit(f"{label}/posterior", digest(res.get_posterior_samples()))
    emit(
        f"{label}/infos",
        digest(res.transition_infos.combine_all().expect("infos")),
    )
    emit(f"{label}/post_infos", digest(res.get_posterior_transition_infos()))
    emit(
        f"{label}/tuning",
        digest(res.tuning_infos.map_or(None, lambda c: c.get().unwrap())),
    )
    ks = res.kernel_states.map_or(None, lambda c: c.combine_all().unwrap())
    emit(f"{label}/kernel_state_chain", digest(ks))
    emit(f"{label}/final_kernel_states", digest(engine._kernel_states))
    emit(f"{label}/final_kernel_state_types", weak(engine._kernel_states))
    emit(f"{label}/final_model_state", digest(engine._model_states))
    emit(f"{label}/tuning_times", digest(res.get_tuning_times().map_or(None, np.asarray)))
    elog = res.get_error_log().map_or(
        None,
        lambda e: {
            k: (v.kernel_ident, v.kernel_cls.unwrap().__name__, v.transition, v.error_codes)
            for k, v in e.items()
        },
    )
    emit(f"{label}/error_log", digest(elog))
    emit(
        f"{label}/error_log_sizes",
        repr({k: (v[0], v[1], v[2].shape, v[3].shape) for k, v in (elog or {}).items()}),
    )
    emit(f"{label}/kernels_by_pos_key", repr(res.get_kernels_by_pos_key()))


def engine_scenarios():
    for seed in (1, 77):
        run_engine(
            f"dict/nuts+rw/s{seed}",
            seed,
            gs.DictInterface(lm_log_prob),
            lm_state(),
            [gs.NUTSKernel(["beta"]), gs.RWKernel(["log_sigma"])],
        )

    run_engine(
        "dict/nuts-full-mm-joint/s5",
        5,
        gs.DictInterface(lm_log_prob),
        lm_state(),
        [gs.NUTSKernel(["beta", "log_sigma"], mm_diag=False, max_treedepth=4)],
    )

    run_engine(
        "dict/nuts-fixed-tuning/s6",
        6,
        gs.DictInterface(lm_log_prob),
        lm_state(),
        [
            gs.NUTSKernel(
                ["beta"],
                initial_step_size=0.2,
                initial_inverse_mass_matrix=jnp.array([0.02, 0.06]),
            ),
            gs.HMCKernel(
                ["log_sigma"],
                initial_step_size=0.1,
                initial_inverse_mass_matrix=jnp.array([[0.03]]),
                mm_diag=False,
                num_integration_steps=3,
            ),
        ],
    )

    run_engine(
        "dict/hmc-full+mh-da/s2",
        2,
        gs.DictInterface(lm_log_prob),
        lm_state(),
        [
            gs.HMCKernel(["beta"], mm_diag=False, num_integration_steps=5),
            gs.MHKernel(
                ["log_sigma"],
                mh_proposal_log_sigma,
                initial_step_size=0.4,
                da_tune_step_size=True,
            ),
        ],
    )

    run_engine(
        "dict/mh-noda+hmc-diag/s9",
        9,
        gs.DictInterface(lm_log_prob),
        lm_state(),
        [
            gs.MHKernel(["log_sigma"], mh_proposal_log_sigma, initial_step_size=0.3),
            gs.HMCKernel(["beta"]),
        ],
    )

    run_engine(
        "dict/iwls+gibbs/s3",
        3,
        gs.DictInterface(conj_log_prob),
        conj_state(),
        [gs.IWLSKernel(["beta"]), gs.GibbsKernel(["sigma2"], gibbs_sigma2)],
    )

    run_engine(
        "dict/iwls-cholfn+iwls/s4",
        4,
        gs.DictInterface(lm_log_prob),
        lm_state(),
        [
            gs.IWLSKernel(["beta"], chol_info_fn=chol_info_beta, initial_step_size=0.5),
            gs.IWLSKernel(["log_sigma"], initial_step_size=0.2),
        ],
    )

    run_engine(
        "dict/rw-joint/s8",
        8,
        gs.DictInterface(lm_log_prob),
        lm_state(),
        [gs.RWKernel(["beta", "log_sigma"], initial_step_size=0.1)],
    )

    model = liesel_model()
    run_engine(
        "liesel/iwls+nuts-transformed/s11",
        11,
        gs.LieselInterface(model),
        model.state,
        [gs.IWLSKernel(["beta"]), gs.NUTSKernel(["sigma_transformed"])],
        included=["sigma"],
    )
    model = liesel_model()
    run_engine(
        "liesel/nuts-joint-transformed/s15",
        15,
        gs.LieselInterface(model),
        model.state,
        [gs.NUTSKernel(["beta", "sigma_transformed"])],
        included=["sigma"],
    )
    # IWLS on the transformed parameter of a Liesel model trips an internal JAX
    # assertion at trace time on the unmodified library; the failure must stay
    # the same.
    model = liesel_model()
    exc(
        "liesel/iwls-on-transformed/s16",
        lambda: run_engine(
            "liesel/iwls-on-transformed/s16",
            16,
            gs.LieselInterface(model),
            model.state,
            [gs.NUTSKernel(["beta"]), gs.IWLSKernel(["sigma_transformed"])],
            included=["sigma"],
        ),
    )
    model = liesel_model()
    run_engine(
        "liesel/rw+hmc-transformed/s12",
        12,
        gs.LieselInterface(model),
        model.state,
        [gs.RWKernel(["beta"], 0.1), gs.HMCKernel(["sigma_transformed"])],
        included=["sigma"],
    )

    run_engine(
        "dataclass/rw+nuts/s13",
        13,
        gs.DataclassInterface(attr_log_prob),
        DCState(x=jnp.array([0.5, 1.5]), z=jnp.array(0.1)),
        [gs.RWKernel(["z"]), gs.NUTSKernel(["x"])],
        chains=2,
    )
    run_engine(
        "namedtuple/iwls+hmc/s14",
        14,
        gs.NamedTupleInterface(attr_log_prob),
        NTState(x=jnp.array([0.5, 1.5]), z=jnp.array(0.1)),
        [gs.IWLSKernel(["x"]), gs.HMCKernel(["z"])],
        chains=2,
    )


# ---------------------------------------------------------------------------
# direct calls
# ---------------------------------------------------------------------------


def direct_mh_step():
    model = gs.DictInterface(lm_log_prob)
    ms = lm_state()
    key = jax.random.PRNGKey(3)

    cases = {
        "near": ({"beta": jnp.array([0.31, -0.79])}, 0.0),
        "far": ({"beta": jnp.array([9.0, 9.0])}, 0.0),
        "corr+": ({"log_sigma": jnp.array(-0.1)}, 2.5),
        "corr-": ({"log_sigma": jnp.array(-0.1)}, -2.5),
        "nan_prop": ({"beta": jnp.array([jnp.nan, 0.0])}, 0.0),
        "nan_corr": ({"beta": jnp.array([0.31, -0.79])}, jnp.nan),
        "inf_corr": ({"beta": jnp.array([0.31, -0.79])}, jnp.inf),
        "-inf_corr": ({"beta": jnp.array([0.31, -0.79])}, -jnp.inf),
        "both": ({"beta": jnp.array([0.0, 0.0]), "log_sigma": jnp.array(0.0)}, 0.1),
    }
    for name, (prop, corr) in cases.items():
        for k in range(3):
            sub = jax.random.fold_in(key, k)
            info, new = mh_step(sub, model, prop, ms, corr)
            emit(f"mh_step/eager/{name}/{k}", f"{digest((info, new))} {weak(info)}")
            info, new = jax.jit(
                lambda kk, p, m, c: mh_step(kk, model, p, m, c)
            )(sub, prop, ms, corr)
            emit(f"mh_step/jit/{name}/{k}", f"{digest((info, new))} {weak(info)}")

    info, new = mh_step(key, model, {"beta": jnp.array([0.31, -0.79])}, ms)
    emit("mh_step/default_correction", digest((info, new)))

    keys = jax.random.split(key, 5)
    props = {"beta": jnp.stack([jnp.array([0.3 + 0.05 * i, -0.8]) for i in range(5)])}
    out = jax.vmap(lambda kk, p: mh_step(kk, model, p, ms, 0.0))(keys, props)
    emit("mh_step/vmap", digest(out))

    # position with +inf log prob ratio
    flat = gs.DictInterface(lambda s: jnp.where(s["x"] > 0, 0.0, -jnp.inf))
    for x0, x1 in [(-1.0, 1.0), (1.0, -1.0), (-1.0, -2.0), (1.0, 2.0)]:
        out = mh_step(key, flat, {"x": jnp.array(x1)}, {"x": jnp.array(x0)})
        emit(f"mh_step/support/{x0}->{x1}", digest(out))


def direct_mh_step_other_interfaces():
    key = jax.random.PRNGKey(21)

    # python-float log-prob -> weakly typed acceptance probability
    const = gs.DictInterface(lambda s: 0.0)
    exc(
        "mh_step/python_float_log_prob",
        lambda: mh_step(key, const, {"x": jnp.array(1.0)}, {"x": jnp.array(0.0)}),
    )
    info, _ = mh_step(key, const, {"x": jnp.array(1.0)}, {"x": jnp.array(0.0)})
    emit("mh_step/python_float_log_prob/types", weak(info))
    half = gs.DictInterface(lambda s: -0.5 * s["x"])
    for k in range(4):
        sub = jax.random.fold_in(key, k)
        out = mh_step(sub, half, {"x": jnp.array(1.0)}, {"x": jnp.array(0.0)}, 0.25)
        emit(f"mh_step/python_corr/{k}", f"{digest(out)} {weak(out[0])}")

    # Liesel graph model with transformed parameter
    model = liesel_model()
    iface = gs.LieselInterface(model)
    ms = model.state
    props = {
        "beta": {"beta": jnp.array([0.4, -0.9], dtype=jnp.float32)},
        "sigma_t": {"sigma_transformed": jnp.array(0.1, dtype=jnp.float32)},
        "both": {
            "beta": jnp.array([0.2, -0.7], dtype=jnp.float32),
            "sigma_transformed": jnp.array(-0.4, dtype=jnp.float32),
        },
        "nan": {"sigma_transformed": jnp.array(jnp.nan, dtype=jnp.float32)},
    }
    for name, prop in props.items():
        for k in range(3):
            sub = jax.random.fold_in(key, k)
            info, new = mh_step(sub, iface, prop, ms, 0.3 * k)
            emit(f"mh_step/liesel/{name}/{k}", f"{digest((info, new))} {weak(info)}")
            pos = iface.extract_position(["beta", "sigma_transformed", "sigma"], new)
            emit(f"mh_step/liesel/{name}/{k}/pos", digest(pos))
    emit("mh_step/liesel/user_model_state_untouched", digest(model.state))

    # kernels on the Liesel model, jitted posterior transitions
    for kname, mk in {
        "rw": lambda: gs.RWKernel(["beta", "sigma_transformed"], 0.05),
        "iwls": lambda: gs.IWLSKernel(["beta"], initial_step_size=0.6),
        "nuts": lambda: gs.NUTSKernel(["beta", "sigma_transformed"], max_treedepth=3),
        "hmc": lambda: gs.HMCKernel(["sigma_transformed"], num_integration_steps=3),
    }.items():
        kernel = mk()
        kernel.set_model(iface)
        kernel.identifier = kname
        kstate = kernel.init_state(key, ms)
        emit(f"kernel/liesel/{kname}/init_state", digest(kstate))

        def step(carry, k):
            kstate, ms = carry
            out = kernel.transition(k, kstate, ms, _Epochs.post)
            pos = iface.extract_position(["beta", "sigma"], out.model_state)
            return (out.kernel_state, out.model_state), (out.info, pos)

        res = jax.jit(
            lambda k: jax.lax.scan(step, (kstate, ms), jax.random.split(k, 12))
        )(key)
        emit(f"kernel/liesel/{kname}/scan_posterior", digest(res))


class _Epochs:
    fast = EpochConfig(EpochType.FAST_ADAPTATION, 5, 1, None).to_state(1, 1)
    slow = EpochConfig(EpochType.SLOW_ADAPTATION, 5, 1, None).to_state(2, 6)
    burnin = EpochConfig(EpochType.BURNIN, 5, 1, None).to_state(3, 11)
    post = EpochConfig(EpochType.POSTERIOR, 5, 1, None).to_state(4, 16)


def make_kernels():
    ks = [
        gs.NUTSKernel(["beta"], max_treedepth=3),
        gs.RWKernel(["log_sigma"], initial_step_size=0.3),
    ]
    model = gs.DictInterface(lm_log_prob)
    for i, k in enumerate(ks):
        k.set_model(model)
        k.identifier = f"k{i}"
    return ks


def direct_kernel_sequence():
    ms = lm_state()
    key = jax.random.PRNGKey(42)
    kseq = KernelSequence(make_kernels())
    emit("kseq/get_kernels", repr([type(k).__name__ for k in kseq.get_kernels()]))

    kstates = kseq.init_states(key, ms)
    emit("kseq/init_states", f"{digest(kstates)} {weak(kstates)}")

    history = {
        "beta": jnp.asarray(rng.normal(size=(9, 2)).astype(np.float32)),
        "log_sigma": jnp.asarray(rng.normal(size=(9,)).astype(np.float32)),
    }

    t = 0
    for name in ("fast", "slow", "burnin", "post"):
        epoch = getattr(_Epochs, name)
        kstates = kseq.start_epoch(jax.random.fold_in(key, t), kstates, ms, epoch)
        emit(f"kseq/{name}/start_epoch", digest(kstates))
        for _ in range(3):
            t += 1
            epoch.time_in_epoch += 1
            epoch.time += 1
            out = kseq.transition(jax.random.fold_in(key, t), kstates, ms, epoch)
            ms, kstates = out.model_state, out.kernel_states
            emit(f"kseq/{name}/transition/{t}", digest(out))
            emit(f"kseq/{name}/transition/{t}/info_keys", repr(list(out.infos)))
        kstates = kseq.end_epoch(jax.random.fold_in(key, 100 + t), kstates, ms, epoch)
        emit(f"kseq/{name}/end_epoch", digest(kstates))
        for hist in (None, history):
            tout = kseq.tune(jax.random.fold_in(key, 200 + t), kstates, ms, epoch, hist)
            emit(f"kseq/{name}/tune/{hist is None}", digest(tout))
            emit(f"kseq/{name}/tune/{hist is None}/keys", repr(list(tout.infos)))
        kstates = tout.kernel_states
        tuning_infos = tout.infos
        if name == "slow":
            for th in (None, tuning_infos):
                wout = kseq.end_warmup(jax.random.fold_in(key, 300), kstates, ms, th)
                emit(f"kseq/end_warmup/{th is None}", digest(wout))
                emit(
                    f"kseq/end_warmup/{th is None}/codes",
                    repr(sorted(wout.error_codes.items())),
                )
            exc(
                "kseq/end_warmup/missing_key",
                lambda: kseq.end_warmup(key, kstates, ms, {"k0": tuning_infos["k0"]}),
            )

    # jitted transition in a posterior epoch
    jout = jax.jit(kseq.transition)(key, kstates, ms, _Epochs.post)
    emit("kseq/jit_transition", digest(jout))

    # too few / too many kernel states
    exc("kseq/short_states/transition", lambda: kseq.transition(key, kstates[:1], ms, _Epochs.post))
    exc("kseq/short_states/start", lambda: kseq.start_epoch(key, kstates[:1], ms, _Epochs.post))
    exc("kseq/short_states/end", lambda: kseq.end_epoch(key, kstates[:1], ms, _Epochs.post))
    exc("kseq/short_states/tune", lambda: kseq.tune(key, kstates[:1], ms, _Epochs.post, None))
    exc("kseq/short_states/warmup", lambda: kseq.end_warmup(key, kstates[:1], ms, None))
    exc(
        "kseq/long_states/transition",
        lambda: kseq.transition(key, kstates + kstates, ms, _Epochs.post),
    )
    exc(
        "kseq/long_states/start",
        lambda: kseq.start_epoch(key, kstates + kstates, ms, _Epochs.post),
    )

    # constructor checks
    ks = make_kernels()
    ks[1].identifier = ""
    exc("kseq/empty_identifier", lambda: KernelSequence(ks))
    ks = make_kernels()
    ks[1].identifier = "k0"
    exc("kseq/duplicate_identifier", lambda: KernelSequence(ks))
    ks = make_kernels()
    ks[0].identifier = ""
    ks[1].identifier = "k1"
    exc("kseq/empty_first_identifier", lambda: KernelSequence(ks))
    exc("kseq/empty_sequence", lambda: KernelSequence([]).init_states(key, ms))
    exc("kseq/tuple_input", lambda: KernelSequence(tuple(make_kernels())).init_states(key, ms))
    exc("kseq/generator_input", lambda: KernelSequence(k for k in make_kernels()))


def direct_kernels():
    """Kernel methods called directly, without engine, in every epoch type."""
    key = jax.random.PRNGKey(7)
    model = gs.DictInterface(lm_log_prob)

    def kernels():
        return {
            "nuts": gs.NUTSKernel(["beta"], max_treedepth=3),
            "nuts_full": gs.NUTSKernel(["beta", "log_sigma"], mm_diag=False, max_treedepth=2),
            "nuts_given": gs.NUTSKernel(
                ["beta"], 0.1, jnp.array([0.5, 2.0]), max_treedepth=3
            ),
            "hmc": gs.HMCKernel(["beta"], num_integration_steps=4),
            "hmc_full": gs.HMCKernel(["beta"], mm_diag=False, num_integration_steps=2),
            "hmc_given": gs.HMCKernel(["beta"], 0.05, jnp.eye(2) * 0.3, mm_diag=False),
            "iwls": gs.IWLSKernel(["beta"], initial_step_size=0.7),
            "iwls_fn": gs.IWLSKernel(["beta"], chol_info_beta, 0.7),
            "iwls_scalar": gs.IWLSKernel(["log_sigma"], initial_step_size=0.3),
            "rw": gs.RWKernel(["beta", "log_sigma"], 0.05),
            "mh": gs.MHKernel(["log_sigma"], mh_proposal_log_sigma, 0.5),
            "mh_da": gs.MHKernel(
                ["log_sigma"], mh_proposal_log_sigma, 0.5, da_tune_step_size=True
            ),
            "gibbs": gs.GibbsKernel(
                ["log_sigma"], lambda k, s: {"log_sigma": 0.1 * jax.random.normal(k)}
            ),
        }

    history = {
        "beta": jnp.asarray(rng.normal(size=(11, 2)).astype(np.float32)),
        "log_sigma": jnp.asarray(rng.normal(size=(11,)).astype(np.float32)),
    }

    for name, kernel in kernels().items():
        exc(f"kernel/{name}/no_model/position", lambda: kernel.position(lm_state()))
        exc(
            f"kernel/{name}/no_model/log_prob_fn",
            lambda: kernel.log_prob_fn(lm_state())({"beta": jnp.zeros(2)}),
        )
        emit(f"kernel/{name}/has_model_before", repr(kernel.has_model()))
        kernel.set_model(model)
        kernel.identifier = name
        ms = lm_state()
        kstate = kernel.init_state(key, ms)
        emit(f"kernel/{name}/init_state", f"{digest(kstate)} {weak(kstate)}")
        lp = kernel.log_prob_fn(ms)(kernel.position(ms))
        emit(f"kernel/{name}/log_prob_fn", digest(lp))

        t = 0
        for ename in ("fast", "slow", "burnin", "post"):
            epoch = getattr(_Epochs, ename)
            kstate = kernel.start_epoch(key, kstate, ms, epoch)
            for _ in range(3):
                t += 1
                epoch.time_in_epoch += 1
                out = kernel.transition(jax.random.fold_in(key, t), kstate, ms, epoch)
                emit(f"kernel/{name}/{ename}/transition/{t}", digest(out))
                ms, kstate = out.model_state, out.kernel_state
            kstate = kernel.end_epoch(key, kstate, ms, epoch)
            emit(f"kernel/{name}/{ename}/end_epoch", digest(kstate))
            for hist in (None, history):
                tout = kernel.tune(key, kstate, ms, epoch, hist)
                emit(f"kernel/{name}/{ename}/tune/{hist is None}", digest(tout))
            kstate = tout.kernel_state
        wout = kernel.end_warmup(key, kstate, ms, None)
        emit(f"kernel/{name}/end_warmup", digest(wout))

        # many jitted + vmapped posterior transitions with tuning held fixed
        def step(carry, k):
            kstate, ms = carry
            out = kernel.transition(k, kstate, ms, _Epochs.post)
            return (out.kernel_state, out.model_state), (out.info, out.model_state)

        def chain(k, ms):
            return jax.lax.scan(step, (kstate, ms), jax.random.split(k, 15))

        starts = jax.vmap(
            lambda k: lm_state()
            | {
                "beta": lm_state()["beta"] + 0.1 * jax.random.normal(k, (2,)),
                "log_sigma": lm_state()["log_sigma"] + 0.1 * jax.random.normal(k),
            }
        )(jax.random.split(jax.random.PRNGKey(99), 4))
        res = jax.jit(jax.vmap(chain))(jax.random.split(key, 4), starts)
        emit(f"kernel/{name}/scan_vmap_posterior", digest(res))


def main(parts):
    import liesel

    print(f"library under test: {liesel.__file__}", file=sys.stderr)
    if "direct" in parts:
        direct_mh_step()
        direct_mh_step_other_interfaces()
        direct_kernel_sequence()
        direct_kernels()
    if "engine" in parts:
        engine_scenarios()
    h = hashlib.sha256("\n".join(LINES).encode()).hexdigest()
    print(f"TOTAL {len(LINES)} lines {h}")


if __name__ == "__main__":
    main(sys.argv[1:] or ["direct", "engine"])
