"""
Deterministic exerciser for the code behind ``Model.log_prob`` / ``log_lik`` /
``log_prior`` / ``Var.log_prob``.

Run from the worktree root with ``PYTHONPATH=. python _twin/<name>/equiv.py``.
Prints one line per observation (bit-exact hex of all numbers) and a final sha256.
"""

from __future__ import annotations

import hashlib
import logging
import warnings

import jax
import jax.numpy as jnp
import numpy as np
import tensorflow_probability.substrates.jax.bijectors as tfb
import tensorflow_probability.substrates.jax.distributions as tfd

import liesel.goose as gs
import liesel.model as lsl
import liesel.model.distreg as dr
import liesel.model.model as lmodel
from liesel.distributions import MultivariateNormalDegenerate

warnings.filterwarnings("ignore")
logging.getLogger("liesel").setLevel(logging.ERROR)

LINES: list[str] = []


def hexval(x) -> str:
    if x is None:
        return "None"
    a = np.asarray(x)
    return f"{a.dtype}{list(a.shape)}:{a.tobytes().hex()}"


def emit(tag: str, *vals) -> None:
    line = tag + " | " + " | ".join(str(v) for v in vals)
    LINES.append(line)
    print(line)


def describe_model(tag: str, model: lsl.Model) -> None:
    emit(tag + ".nodes", list(model.nodes))
    emit(tag + ".vars", list(model.vars))
    for nm in ("_model_log_lik", "_model_log_prior", "_model_log_prob"):
        node = model.nodes[nm]
        emit(
            f"{tag}.{nm}",
            type(node).__name__,
            [i.name for i in node.inputs],
            sorted(node.kwinputs),
            [i.name for i in node.all_input_nodes()],
            [o.name for o in node.all_output_nodes()],
            node.outdated,
        )
    emit(tag + ".totals", hexval(model.log_prob), hexval(model.log_lik),
         hexval(model.log_prior))
    for nm, var in model.vars.items():
        emit(f"{tag}.var.{nm}", var.observed, var.parameter, var.has_dist,
             hexval(var.log_prob), var.dist_node.per_obs if var.has_dist else "-")
    for nm, node in model.nodes.items():
        if isinstance(node, lsl.Dist):
            emit(f"{tag}.dist.{nm}", hexval(node.value), hexval(node.log_prob),
                 node.per_obs, node.outdated)


def call(tag: str, fn) -> None:
    try:
        out = fn()
        emit(tag, "ok", out)
    except Exception as e:  # noqa: BLE001
        emit(tag, type(e).__name__, str(e))


def rng_vec(seed: int, n: int) -> jnp.ndarray:
    return jnp.asarray(np.random.default_rng(seed).normal(size=n), dtype=jnp.float32)


# ---------------------------------------------------------------------------------
# scenario builders
# ---------------------------------------------------------------------------------


def hierarchy(per_obs_y=True, per_obs_b=True, flags="std"):
    """scalar + vector + degenerate-mvn hierarchy, weak intermediates, transform"""
    x = lsl.obs(rng_vec(1, 7), name="x")
    pen = jnp.asarray(np.diff(np.eye(4), axis=0).T @ np.diff(np.eye(4), axis=0),
                      dtype=jnp.float32)

    tau2 = lsl.param(
        1.3, lsl.Dist(tfd.InverseGamma, concentration=2.0, scale=0.5), name="tau2"
    )
    b_dist = lsl.Dist(
        MultivariateNormalDegenerate.from_penalty, loc=0.0, var=tau2, pen=pen
    )
    b_dist.per_obs = per_obs_b
    b = lsl.param(rng_vec(2, 4), b_dist, name="b")

    mu0 = lsl.param(0.25, lsl.Dist(tfd.Normal, loc=0.0, scale=10.0), name="mu0")
    basis = lsl.obs(jnp.asarray(np.random.default_rng(3).uniform(size=(7, 4)),
                                dtype=jnp.float32), name="basis")
    smooth = lsl.Var(lsl.Calc(lambda B, b: B @ b, basis, b), name="smooth")
    mu = lsl.Var(lsl.Calc(lambda m, s, x: m + s + 0.5 * x, mu0, smooth, x), name="mu")

    sigma = lsl.param(
        0.8, lsl.Dist(tfd.HalfCauchy, loc=0.0, scale=2.0), name="sigma"
    )

    y_dist = lsl.Dist(tfd.Normal, loc=mu, scale=sigma)
    y_dist.per_obs = per_obs_y
    y = lsl.obs(rng_vec(4, 7), y_dist, name="y")

    if flags == "neither":
        # a var with dist that is neither observed nor parameter
        mu0.parameter = False
    elif flags == "both":
        mu0.observed = True
    return dict(x=x, tau2=tau2, b=b, mu0=mu0, mu=mu, sigma=sigma, y=y)


def build(vs, transform=(), extra_nodes=(), user=None, copy=False, gb_cls=None):
    gb = lsl.GraphBuilder()
    gb.add(vs["y"], *extra_nodes)
    for nm in transform:
        if nm == "tau2":
            vs[nm].transform(tfb.Exp())
        else:
            vs[nm].auto_transform = True
    if user:
        for k, v in user.items():
            setattr(gb, k, v)
    model = gb.build_model(copy=copy)
    return gb, model


def perturb(tag: str, model: lsl.Model, names, jitter=0.125) -> None:
    for i, nm in enumerate(names):
        var = model.vars[nm]
        var.value = var.value + jitter * (i + 1)
        emit(f"{tag}.set.{nm}", hexval(model.log_prob), hexval(model.log_lik),
             hexval(model.log_prior), hexval(var.log_prob))


def jit_totals(tag: str, model: lsl.Model, names) -> None:
    interface = gs.LieselInterface(model)
    state = model.state
    pos = interface.extract_position(list(names), state)

    @jax.jit
    def f(pos):
        new = interface.update_state(pos, state)
        return (
            new["_model_log_prob"].value,
            new["_model_log_lik"].value,
            new["_model_log_prior"].value,
            interface.log_prob(new),
        )

    emit(tag + ".jit", *[hexval(v) for v in f(pos)])
    pos2 = {k: v * 0.75 + 0.1 for k, v in pos.items()}
    emit(tag + ".jit2", *[hexval(v) for v in f(pos2)])
    g = jax.grad(lambda p: f(p)[0])(pos2)
    emit(tag + ".grad", *[f"{k}={hexval(v)}" for k, v in sorted(g.items())])


# ---------------------------------------------------------------------------------
# scenarios
# ---------------------------------------------------------------------------------


def main() -> None:
    # 1. plain hierarchy; all per_obs combinations
    for py in (True, False):
        for pb in (True, False):
            tag = f"hier[{int(py)}{int(pb)}]"
            vs = hierarchy(py, pb)
            gb, model = build(vs)
            describe_model(tag, model)
            emit(tag + ".gb_after", len(gb.nodes), len(gb.vars), gb.log_lik_node,
                 gb.log_prior_node, gb.log_prob_node)
            perturb(tag, model, ["mu0", "b", "sigma", "y", "tau2"])
            jit_totals(tag, model, ["mu0", "b", "sigma", "tau2"])

    # 2. transformed variables (explicit bijector instance and auto transform)
    vs = hierarchy(True, False)
    gb, model = build(vs, transform=("tau2", "sigma"))
    describe_model("transf", model)
    perturb("transf", model, ["tau2_transformed", "sigma_transformed", "mu0"])
    jit_totals("transf", model, ["tau2_transformed", "sigma_transformed", "b"])

    # 3. flags: neither / both
    for flags in ("neither", "both"):
        vs = hierarchy(True, True, flags=flags)
        gb, model = build(vs)
        describe_model(f"flags[{flags}]", model)
        perturb(f"flags[{flags}]", model, ["mu0"])

    # 4. dist node without a variable, and a transient dist node
    vs = hierarchy(False, True)
    free_at = lsl.Value(jnp.array([0.1, -0.2, 0.3]), _name="free_at")
    free = lsl.Dist(tfd.Normal, loc=vs["mu0"], scale=2.0, _name="free_dist")
    free.at = free_at
    free_sum = lsl.Dist(tfd.Normal, loc=0.5, scale=vs["sigma"], _name="free_sum")
    free_sum.at = free_at
    free_sum.per_obs = False
    tdist = lsl.TransientDist(tfd.Normal, loc=vs["mu0"], scale=1.5, _name="tdist")
    tdist.at = free_at
    tdist_sum = lsl.TransientDist(tfd.Gamma, 2.0, vs["sigma"], _name="tdist_sum")
    tdist_sum.at = vs["tau2"].var_value_node
    tdist_sum.per_obs = False
    gb, model = build(vs, extra_nodes=(free, free_sum, tdist, tdist_sum))
    describe_model("free", model)
    perturb("free", model, ["mu0", "sigma"])
    model.nodes["free_at"].value = jnp.array([1.0, 2.0, -3.0])
    emit("free.at2", hexval(model.log_prob), hexval(model.log_lik),
         hexval(model.log_prior), hexval(model.nodes["tdist"].value),
         hexval(model.nodes["tdist_sum"].value))
    jit_totals("free", model, ["mu0", "sigma"])

    # 5. user supplied nodes for the totals (all subsets)
    keys = ("log_lik_node", "log_prior_node", "log_prob_node")
    for mask in range(1, 8):
        vs = hierarchy(True, True)
        user = {}
        if mask & 1:
            user[keys[0]] = lsl.Calc(lambda y, m: -jnp.sum((y - m) ** 2), vs["y"],
                                     vs["mu"], _name="my_ll")
        if mask & 2:
            user[keys[1]] = lsl.Calc(lambda b: -0.5 * (b**2), vs["b"], _name="my_lp")
        if mask & 4:
            user[keys[2]] = lsl.Value(jnp.array([1.5, 2.5]), _name="my_prob")
        for copy in (False, True):
            tag = f"user[{mask}{'c' if copy else ''}]"
            gb = lsl.GraphBuilder()
            gb.add(vs["y"])
            for k, v in user.items():
                setattr(gb, k, v)
            gbc = gb.copy()
            emit(tag + ".copy", [getattr(gbc, k) is getattr(gb, k) for k in keys])
            nodes, _vars = gb._all_nodes_and_vars()
            emit(tag + ".all", [n.name for n in nodes], [v.name for v in _vars])
            model = gb.build_model(copy=copy)
            describe_model(tag, model)
            emit(tag + ".gb_after", len(gb.nodes), len(gb.vars),
                 [getattr(gb, k) is None for k in keys])
            perturb(tag, model, ["b", "y"])
            if copy:
                model2 = gb.build_model()
                emit(tag + ".again", hexval(model2.log_prob), hexval(model2.log_lik),
                     hexval(model2.log_prior))
                # take the model apart again
                nodes, _vars = model2.pop_nodes_and_vars()
                emit(tag + ".popped", sorted(nodes), sorted(_vars))

    # 6. the private builders, called directly
    vs = hierarchy(True, True)
    gb = lsl.GraphBuilder().add(vs["y"])
    gb._set_missing_names()
    for meth in ("_add_model_log_lik_node", "_add_model_log_prior_node",
                 "_add_model_log_prob_node"):
        ret = getattr(gb, meth)()
        last = gb.nodes[-1]
        emit("direct." + meth, ret is gb, type(last).__name__, last.name,
             [i.name for i in last.inputs], last.outdated, hexval(last.value))
    emit("direct.count", gb.count_node_names(), gb.count_var_names())

    # 7. _reduced_sum on its own
    rs = lmodel._reduced_sum
    emit("rs.empty", repr(rs()))
    emit("rs.float", repr(rs(1.5, 2.25)), repr(rs(0.0)))
    emit("rs.mixed", hexval(rs(jnp.array([1.0, 2.0]), 0.5, np.float32(3.0),
                               jnp.array(4.0), np.arange(3))))
    big = jnp.asarray(np.random.default_rng(9).normal(size=1001) * 1e3,
                      dtype=jnp.float32)
    emit("rs.order", hexval(rs(big, 1e-3, -big[:500], jnp.float32(7.7))))
    emit("rs.jit", hexval(jax.jit(rs)(big, 1e-3, big[:3])))

    # 8. error paths
    vs = hierarchy(True, True)
    gb = lsl.GraphBuilder()
    for k in keys:
        call(f"err.set_var.{k}", lambda k=k: setattr(gb, k, vs["mu0"]))
        emit(f"err.after.{k}", getattr(gb, k))
        call(f"err.set_str.{k}", lambda k=k: setattr(gb, k, "node"))
        call(f"err.set_none.{k}", lambda k=k: setattr(gb, k, None))
        call(f"err.set_zero.{k}", lambda k=k: setattr(gb, k, 0))
        emit(f"err.after0.{k}", getattr(gb, k))
    lonely = lsl.Dist(tfd.Normal, loc=0.0, scale=1.0, _name="lonely")
    call("err.update_no_at", lambda: lonely.update())
    emit("err.lonely", lonely.outdated, hexval(lonely.value))
    tlonely = lsl.TransientDist(tfd.Normal, loc=0.0, scale=1.0, _name="tlonely")
    call("err.transient_no_at", lambda: tlonely.value)
    call("err.lonely_in_model", lambda: lsl.GraphBuilder().add(lonely).build_model())
    bad = lsl.Value(1.0, _name="_model_x")
    call("err.reserved", lambda: lsl.GraphBuilder().add(bad).build_model())
    call("err.empty", lambda: lsl.GraphBuilder().build_model().log_prob)
    em = lsl.GraphBuilder().build_model()
    emit("empty.totals", repr(em.log_prob), repr(em.log_lik), repr(em.log_prior),
         list(em.nodes))
    v = lsl.Var(1.0, name="nodist")
    v.update()
    emit("nodist", repr(v.log_prob), v.has_dist, type(v.dist_node).__name__)
    shp = lsl.Var(jnp.zeros(3), lsl.Dist(tfd.Normal, loc=jnp.zeros(2), scale=1.0),
                  name="shp")
    call("err.shape", lambda: shp.update().log_prob)

    # 9. stand-alone variables, before and after update, per_obs toggling
    d = lsl.Dist(tfd.Normal, loc=0.0, scale=1.0)
    yv = lsl.obs(jnp.array([-0.5, 0.0, 0.5]), d, name="yv")
    emit("alone.0", yv.log_prob, d.outdated)
    emit("alone.1", hexval(yv.update().log_prob), d.outdated, d.update() is d)
    d.per_obs = False
    emit("alone.2", hexval(yv.log_prob), hexval(yv.update().log_prob))
    sc = lsl.param(0.3, lsl.Dist(tfd.Normal, loc=0.0, scale=1.0), name="sc")
    sc.dist_node.per_obs = False
    emit("alone.3", hexval(sc.update().log_prob))
    cst = lsl.Var(2.0, lsl.Dist(lambda: _PyDist()), name="cst")
    emit("alone.4", repr(cst.update().log_prob))
    cst.dist_node.per_obs = False
    emit("alone.5", repr(cst.update().log_prob))
    idist = d.init_dist()
    emit("alone.6", type(idist).__name__, hexval(idist.loc), hexval(idist.scale))
    pd = lsl.Dist(tfd.Normal, 1.0, scale=2.0)
    ipd = pd.init_dist()
    emit("alone.7", type(ipd).__name__, hexval(ipd.loc), hexval(ipd.scale))

    # 10. DistRegBuilder
    rng = np.random.default_rng(1337)
    n = 12
    X = jnp.column_stack([jnp.ones(n),
                          jnp.asarray(rng.uniform(size=(n, 1)), dtype=jnp.float32)])
    yy = jnp.asarray(rng.normal(size=n), dtype=jnp.float32)
    drb = (
        dr.DistRegBuilder()
        .add_response(yy, tfd.Normal)
        .add_predictor("loc", tfb.Identity)
        .add_predictor("scale", tfb.Exp)
        .add_p_smooth(X, m=0.0, s=10.0, predictor="loc", name="xl")
        .add_np_smooth(X, K=jnp.eye(2), a=0.5, b=0.001, predictor="loc", name="xn")
        .add_p_smooth(X, m=0.0, s=3.0, predictor="scale", name="xs")
    )
    model = drb.build_model()
    describe_model("distreg", model)
    params = [nm for nm, v in model.vars.items() if v.parameter]
    perturb("distreg", model, params)
    jit_totals("distreg", model, params)

    # 11. dill round trip and deep copy of a model with user-defined totals
    import copy as _copy
    import io

    vs = hierarchy(False, True)
    gb = lsl.GraphBuilder().add(vs["y"])
    gb.log_prior_node = lsl.Calc(lambda b: -0.5 * (b**2), vs["b"], _name="my_lp")
    model = gb.build_model()
    buf = io.BytesIO()
    lsl.save_model(model, buf)
    buf.seek(0)
    loaded = lsl.load_model(buf)
    describe_model("dill", loaded)
    perturb("dill", loaded, ["mu0", "b"])
    cloned = _copy.deepcopy(model)
    perturb("deepcopy", cloned, ["sigma"])
    emit("orig.after", hexval(model.log_prob), hexval(model.log_lik),
         hexval(model.log_prior))
    nodes, _vars = model.copy_nodes_and_vars()
    m3 = lsl.GraphBuilder().add(*_vars.values()).build_model()
    emit("rebuilt", hexval(m3.log_prob), hexval(m3.log_lik), hexval(m3.log_prior),
         [i.name for i in m3.nodes["_model_log_prob"].inputs])

    digest = hashlib.sha256("\n".join(LINES).encode()).hexdigest()
    print("DIGEST", len(LINES), digest)


class _PyDist:
    """A 'distribution' whose log_prob returns a plain float (no .sum)."""

    def log_prob(self, value):
        return float(value) * -1.5


if __name__ == "__main__":
    main()
