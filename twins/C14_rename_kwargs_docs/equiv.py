"""
Deterministic equivalence driver for the change-of-variables code
(Var.transform, _transform_var_with_bijector_{instance,class},
GraphBuilder.build_model auto-transform, deprecated GraphBuilder.transform,
_transform_back).

Prints one line per observation; floats are printed as hex so that the
comparison between HEAD and the patched tree is bit-exact.  Run with
PYTHONPATH pointing at the tree to test.
"""

from __future__ import annotations

import hashlib
import logging
import re
import warnings

import jax
import jax.numpy as jnp
import numpy as np
import tensorflow_probability.substrates.jax.bijectors as tfb
import tensorflow_probability.substrates.jax.distributions as tfd
import tensorflow_probability.substrates.numpy.bijectors as nb
import tensorflow_probability.substrates.numpy.distributions as nd

import liesel.model as lsl
import liesel.model.model as lmodel
import liesel.model.nodes as lnodes

LINES: list[str] = []


class _ListHandler(logging.Handler):
    def emit(self, record):
        if record.levelno >= logging.INFO:
            out("LOG", record.name, record.levelname, record.getMessage()[:200])


_ADDR = re.compile(r"0x[0-9a-fA-F]+")


def out(*parts):
    # memory addresses in reprs are the only run-dependent part of the output
    LINES.append(_ADDR.sub("0xADDR", " | ".join(str(p) for p in parts)))


def hx(x) -> str:
    """Bit-exact rendering of scalars/arrays/other objects."""
    if x is None:
        return "None"
    if isinstance(x, (bool, str, int)):
        return repr(x)
    if isinstance(x, float):
        return x.hex()
    try:
        arr = np.asarray(x)
    except Exception:
        return repr(x)
    if arr.dtype == object:
        return repr(x)
    return f"{arr.dtype}{list(arr.shape)}:" + arr.tobytes().hex()


def fname(fn) -> str:
    name = getattr(fn, "__qualname__", None) or type(fn).__name__
    self_ = getattr(fn, "__self__", None)
    if self_ is not None:
        name = f"{type(self_).__name__}.{getattr(fn, '__name__', '?')}"
    return name


def describe_var(tag: str, var) -> None:
    out(
        tag,
        "name", var.name,
        "weak", var.weak,
        "param", var.parameter,
        "obs", var.observed,
        "role", repr(var.role),
        "auto", var.auto_transform,
        "has_dist", var.has_dist,
        "dist_none", var.dist_node is None,
        "vn", type(var.value_node).__name__, repr(var.value_node.name),
        "value", hx(var.value),
        "log_prob", hx(var.log_prob),
    )
    vn = var.value_node
    if isinstance(vn, lnodes.Calc):
        out(
            tag, "calc",
            "fn", fname(vn.function),
            "inputs", [type(i).__name__ + ":" + i.name for i in vn.inputs],
            "kwinputs", {k: type(i).__name__ + ":" + i.name
                         for k, i in vn.kwinputs.items()},
            "needs_seed", vn.needs_seed,
        )
    dn = var.dist_node
    if dn is not None:
        out(
            tag, "dist",
            "name", repr(dn.name),
            "fn", fname(dn.distribution),
            "inputs", [type(i).__name__ + ":" + i.name for i in dn.inputs],
            "kwinputs", {k: type(i).__name__ + ":" + i.name
                         for k, i in dn.kwinputs.items()},
            "needs_seed", dn.needs_seed,
            "per_obs", dn.per_obs,
            "at_is_vv", dn.at is var.var_value_node,
        )
        try:
            d = dn.init_dist()
            bij = getattr(d, "bijector", None)
            out(tag, "init_dist", type(d).__name__, type(d).__module__,
                "bij", type(bij).__name__,
                "inner", type(getattr(bij, "bijector", None)).__name__,
                "validate", getattr(d, "validate_args", "n/a"),
                "dname", getattr(d, "name", None),
                "bname", getattr(bij, "name", None),
                "dpar", list(getattr(d, "parameters", {}) or {}),
                "bpar", list(getattr(bij, "parameters", {}) or {}))
        except Exception as e:  # pragma: no cover
            out(tag, "init_dist EXC", type(e).__name__, str(e)[:200])


def attempt(tag: str, fn):
    """Runs fn, records warnings and exceptions."""
    with warnings.catch_warnings(record=True) as w:
        warnings.simplefilter("always")
        try:
            res = fn()
            exc = None
        except Exception as e:
            res = None
            exc = e
    for item in w:
        out(tag, "WARN", item.category.__name__, str(item.message)[:160])
    if exc is not None:
        chain = []
        e = exc
        while e is not None and len(chain) < 4:
            chain.append(f"{type(e).__name__}: {str(e)[:300]}")
            e = e.__cause__
        out(tag, "EXC", " <- ".join(chain))
    return res, exc


# ----------------------------------------------------------------------------------
# scenario definitions
# ----------------------------------------------------------------------------------

T_POINTS = [-2.5, -0.75, 0.0, 0.3, 1.0, 2.25]


def make_cases():
    """Returns a list of (name, factory). factory() -> (var, extra_vars)."""

    def halfcauchy_const():
        return lsl.param(1.5, lsl.Dist(tfd.HalfCauchy, loc=0.0, scale=25.0), "x"), []

    def invgamma_vars():
        a = lsl.Var(2.0, name="a")
        b = lsl.Var(0.5, name="b")
        return (
            lsl.param(0.7, lsl.Dist(tfd.InverseGamma, concentration=a, scale=b), "x"),
            [a, b],
        )

    def gamma_pos():
        a = lsl.Var(3.0, name="a")
        return lsl.param(2.0, lsl.Dist(tfd.Gamma, a, 1.25), "x"), [a]

    def exponential_vec():
        val = jnp.array((0.1, 1.0, 2.0))
        rate = lsl.Var(0.5, name="rate")
        dist = lsl.Dist(tfd.Exponential, rate, validate_args=lsl.Value(True, "true"))
        return lsl.param(val, dist, "x"), [rate]

    def exponential_vec_summed():
        val = jnp.array((0.1, 1.0, 2.0))
        dist = lsl.Dist(tfd.Exponential, 0.5)
        dist.per_obs = False
        return lsl.Var(val, dist, "x"), []

    def beta_unit():
        return lsl.param(0.3, lsl.Dist(tfd.Beta, 2.0, 3.0), "x"), []

    def uniform_interval():
        lo = lsl.Var(-1.0, name="lo")
        hi = lsl.Var(3.0, name="hi")
        return lsl.param(0.5, lsl.Dist(tfd.Uniform, low=lo, high=hi), "x"), [lo, hi]

    def normal_real():
        mu = lsl.Var(0.25, name="mu")
        return lsl.param(1.0, lsl.Dist(tfd.Normal, loc=mu, scale=2.0), "x"), [mu]

    def lognormal_unnamed():
        return lsl.Var(1.2, lsl.Dist(tfd.LogNormal, 0.0, 1.0)), []

    def observed_gamma():
        return lsl.obs(0.9, lsl.Dist(tfd.Gamma, 2.0, 2.0), "x"), []

    return [
        ("halfcauchy_const", halfcauchy_const),
        ("invgamma_vars", invgamma_vars),
        ("gamma_pos", gamma_pos),
        ("exponential_vec", exponential_vec),
        ("exponential_vec_summed", exponential_vec_summed),
        ("beta_unit", beta_unit),
        ("uniform_interval", uniform_interval),
        ("normal_real", normal_real),
        ("lognormal_unnamed", lognormal_unnamed),
        ("observed_gamma", observed_gamma),
    ]


def bijector_specs(case: str):
    """(label, bijector, args, kwargs) tuples suited for the support of the case."""
    positive = [
        ("exp_inst", tfb.Exp(), (), {}),
        ("softplus_inst", tfb.Softplus(), (), {}),
        ("softplus_cls_pos", tfb.Softplus, (2.0,), {}),
        ("softplus_cls_kw", tfb.Softplus, (), {"hinge_softness": 0.5}),
        ("softplus_cls_var", tfb.Softplus, (), {"hinge_softness": "VAR"}),
        ("default", None, (), {}),
    ]
    if case in ("beta_unit",):
        return [
            ("sigmoid_inst", tfb.Sigmoid(), (), {}),
            ("sigmoid_cls", tfb.Sigmoid, (), {"low": 0.0, "high": 1.0}),
            ("default", None, (), {}),
        ]
    if case == "uniform_interval":
        return [
            ("sigmoid_cls_model", tfb.Sigmoid, (), {"low": "LO", "high": "HI"}),
            ("sigmoid_inst", tfb.Sigmoid(-1.0, 3.0), (), {}),
            ("default", None, (), {}),
        ]
    if case == "normal_real":
        return [
            ("scale_cls", tfb.Scale, (3.0,), {}),
            ("shift_cls_var", tfb.Shift, (), {"shift": "VAR"}),
            ("identity_inst", tfb.Identity(), (), {}),
            ("exp_inst", tfb.Exp(), (), {}),
            ("default", None, (), {}),
        ]
    return positive


def resolve(args, kwargs, extra):
    byname = {v.name: v for v in extra}
    hs = lsl.Var(1.5, name="hs")

    def r(x):
        if x == "VAR":
            return hs
        if x == "LO":
            return byname["lo"]
        if x == "HI":
            return byname["hi"]
        return x

    return tuple(r(a) for a in args), {k: r(v) for k, v in kwargs.items()}


def check_density(tag, var, tvar, orig_dist_cls_eval):
    """
    Builds a model and evaluates the new variable at several points.
    orig_dist_cls_eval(x) gives the log-density of the original dist at x.
    """
    res, exc = attempt(tag + " build", lambda: lsl.Model([var]))
    if exc is not None:
        return
    model = res
    out(tag, "model", repr(model), sorted(model.vars), "n_nodes", len(model.nodes))
    out(tag, "model_lp", hx(model.log_prob), hx(model.log_prior), hx(model.log_lik))
    tname = tvar.name
    mt = model.vars[tname]
    base = np.asarray(mt.value)
    for t in T_POINTS:
        newval = jnp.asarray(base * 0 + t, dtype=base.dtype)

        def assign():
            mt.value = newval
            return (var.value, mt.log_prob, model.log_prob, var.log_prob)

        r, e = attempt(f"{tag} t={t}", assign)
        if e is None:
            out(f"{tag} t={t}", "x", hx(r[0]), "tlp", hx(r[1]), "mlp", hx(r[2]),
                "xlp", hx(r[3]))
    model.pop_nodes_and_vars()


def run_entry(case, factory, label, bij, args, kwargs, entry):
    tag = f"{case}/{label}/{entry}"
    var, extra = factory()
    args, kwargs = resolve(args, kwargs, extra)
    before = var.value
    flag_before = var.parameter
    describe_var(tag + " before", var)

    if entry == "var":
        fn = lambda: var.transform(bij, *args, **kwargs)  # noqa: E731
    elif entry == "gb":
        gb = lsl.GraphBuilder()
        fn = lambda: gb.transform(var, bij, *args, **kwargs)  # noqa: E731
    else:
        raise ValueError(entry)

    tvar, exc = attempt(tag, fn)
    describe_var(tag + " after", var)
    if exc is not None:
        return
    describe_var(tag + " tvar", tvar)
    out(tag, "value_unchanged", hx(before) == hx(var.value), "flag_before", flag_before)
    attempt(tag + " upd", lambda: (tvar.update(), var.update()))
    describe_var(tag + " after-upd", var)
    describe_var(tag + " tvar-upd", tvar)
    check_density(tag, var, tvar, None)


def run_auto(case, factory):
    tag = f"{case}/auto"
    var, extra = factory()
    var.auto_transform = True
    before = var.value
    gb = lsl.GraphBuilder().add(var)
    model, exc = attempt(tag, gb.build_model)
    out(tag, "auto_flag_after", var.auto_transform, "gb", repr(gb))
    if exc is not None:
        describe_var(tag + " after-fail", var)
        return
    out(tag, "model", repr(model), sorted(model.vars))
    out(tag, "model_lp", hx(model.log_prob), hx(model.log_prior), hx(model.log_lik))
    describe_var(tag + " orig", var)
    name = var.name
    mx = model.vars[name]
    describe_var(tag + " model-x", mx)
    out(tag, "value_unchanged", hx(before) == hx(mx.value))
    tname = f"{name}_transformed"
    if tname in model.vars:
        mt = model.vars[tname]
        describe_var(tag + " model-t", mt)
        base = np.asarray(mt.value)
        for t in T_POINTS:
            mt.value = jnp.asarray(base * 0 + t, dtype=base.dtype)
            out(f"{tag} t={t}", "x", hx(mx.value), "tlp", hx(mt.log_prob),
                "mlp", hx(model.log_prob))


# ----------------------------------------------------------------------------------
# error and boundary scenarios
# ----------------------------------------------------------------------------------


class FakeDist:
    """A non-TFP distribution object."""

    def __init__(self, loc):
        self.loc = loc
        self.validate_args = False

    def log_prob(self, x):
        return -((x - self.loc) ** 2)

    def experimental_default_event_space_bijector(self, *args, **kwargs):
        return None


def errors():
    def hc(name="x", value=1.0):
        return lsl.param(value, lsl.Dist(tfd.HalfCauchy, loc=0.0, scale=25.0), name)

    # --- Var.transform ---------------------------------------------------------
    v = lsl.Var(lsl.Calc(lambda a: a + 1.0, lsl.Var(1.0, name="in")), name="w")
    v.auto_transform = True
    attempt("err/var weak", lambda: v.transform(tfb.Exp()))
    out("err/var weak", "auto", v.auto_transform)

    v = lsl.Var(1.0, name="nodist")
    v.auto_transform = True
    attempt("err/var nodist", lambda: v.transform(tfb.Exp()))
    attempt("err/var nodist default", lambda: v.transform())
    out("err/var nodist", "auto", v.auto_transform)

    # weak and without dist: the weak error wins
    v = lsl.Var(lsl.Calc(lambda a: a + 1.0, 1.0), name="w2")
    attempt("err/var weak+nodist", lambda: v.transform(None))

    v = hc()
    v.auto_transform = True
    attempt("err/var cls noargs", lambda: v.transform(tfb.Exp))
    out("err/var cls noargs", "auto", v.auto_transform)
    describe_var("err/var cls noargs after", v)

    v = hc()
    v.auto_transform = True
    attempt("err/var inst+args", lambda: v.transform(tfb.Exp(), 1.0))
    out("err/var inst+args", "auto", v.auto_transform)
    describe_var("err/var inst+args after", v)
    attempt("err/var inst+kwargs", lambda: v.transform(tfb.Exp(), power=1.0))
    describe_var("err/var inst+kwargs after", v)

    for bad in ("exp", 3, jnp.exp, tfd.Normal, tfb, nb.Exp(), nb.Exp, object()):
        v = hc()
        v.auto_transform = True
        attempt(f"err/var badtype {type(bad).__name__}", lambda: v.transform(bad))
        attempt(
            f"err/var badtype+args {type(bad).__name__}",
            lambda: v.transform(bad, 1.0, k=2.0),
        )
        out("err/var badtype", "auto", v.auto_transform, "param", v.parameter,
            "has_dist", v.has_dist, "weak", v.weak)

    # None with bijector arguments (forwarded to the default bijector factory)
    v = hc()
    attempt("err/var none+args", lambda: v.transform(None, 1.0))
    describe_var("err/var none+args after", v)
    v = hc()
    attempt("err/var none+kwargs", lambda: v.transform(None, validate_args=True))
    describe_var("err/var none+kwargs after", v)

    # distribution without a default event space bijector
    v = lsl.param(1.0, lsl.Dist(tfd.Poisson, 1.0), "pois")
    v.auto_transform = True
    attempt("err/var poisson default", lambda: v.transform())
    describe_var("err/var poisson default after", v)

    # distribution that cannot be initialised
    v = lsl.param(1.0, lsl.Dist(tfd.Normal, loc=0.0), "broken")
    v.auto_transform = True
    attempt("err/var broken default", lambda: v.transform())
    out("err/var broken default", "auto", v.auto_transform)
    attempt("err/var broken inst", lambda: v.transform(tfb.Exp()))
    describe_var("err/var broken after", v)

    # non-TFP distribution
    v = lsl.param(1.0, lsl.Dist(FakeDist, 0.5), "fake")
    attempt("err/var fake default", lambda: v.transform())
    describe_var("err/var fake default after", v)
    v = lsl.param(1.0, lsl.Dist(FakeDist, 0.5), "fake")
    t, e = attempt("err/var fake inst", lambda: v.transform(tfb.Exp()))
    describe_var("err/var fake inst after", v)

    # variable in a model
    v = hc()
    m = lsl.Model([v])
    attempt("err/var in model inst", lambda: v.transform(tfb.Exp()))
    attempt("err/var in model cls", lambda: v.transform(tfb.Softplus, 2.0))
    attempt("err/var in model default", lambda: v.transform())
    describe_var("err/var in model after", v)
    out("err/var in model", sorted(m.vars), hx(m.log_prob))
    m.pop_nodes_and_vars()
    describe_var("err/var popped", v)

    # value outside the image of the bijector / integer value
    v = lsl.param(-1.0, lsl.Dist(tfd.Normal, 0.0, 1.0), "neg")
    t, e = attempt("bnd/negative exp", lambda: v.transform(tfb.Exp()))
    if t is not None:
        describe_var("bnd/negative exp x", v)
        describe_var("bnd/negative exp t", t)
    v = lsl.param(0.0, lsl.Dist(tfd.HalfCauchy, 0.0, 1.0), "zero")
    t, e = attempt("bnd/zero default", lambda: v.transform())
    if t is not None:
        describe_var("bnd/zero default x", v)
        describe_var("bnd/zero default t", t)
    v = lsl.param(2, lsl.Dist(tfd.Gamma, 2.0, 1.0), "int")
    t, e = attempt("bnd/int softplus cls", lambda: v.transform(tfb.Softplus, 1.0))
    if t is not None:
        describe_var("bnd/int x", v)
        describe_var("bnd/int t", t)

    # transform twice
    v = hc()
    t1, _ = attempt("twice/first", lambda: v.transform(tfb.Exp()))
    attempt("twice/second", lambda: v.transform(tfb.Exp()))
    t2, _ = attempt("twice/t-of-t", lambda: t1.transform(tfb.Softplus()))
    describe_var("twice x", v)
    describe_var("twice t1", t1)
    if t2 is not None:
        describe_var("twice t2", t2)
        mm = lsl.Model([v])
        out("twice model", sorted(mm.vars), hx(mm.log_prob), hx(mm.log_prior))
        mt2 = mm.vars[t2.name]
        for t in T_POINTS:
            mt2.value = jnp.asarray(t, dtype=jnp.float32)
            out("twice", t, hx(v.value), hx(t1.value), hx(mt2.log_prob),
                hx(mm.log_prob))

    # distribution node that needs a seed
    for entry in ("inst", "cls", "default", "gb"):
        d = lsl.Dist(tfd.HalfCauchy, 0.0, 2.0, _needs_seed=False)
        v = lsl.param(1.0, d, "seeded")
        d.per_obs = False
        if entry == "inst":
            t, e = attempt("flags/inst", lambda: v.transform(tfb.Exp()))
        elif entry == "cls":
            t, e = attempt("flags/cls", lambda: v.transform(tfb.Softplus, 1.0))
        elif entry == "default":
            t, e = attempt("flags/default", lambda: v.transform())
        else:
            t, e = attempt("flags/gb", lambda: lsl.GraphBuilder().transform(v))
        if t is not None:
            describe_var(f"flags/{entry} t", t)

    # role / observed / info are not moved
    v = hc()
    v.role = "scale"
    v.info["k"] = 1
    v.observed = False
    t, _ = attempt("roles", lambda: v.transform())
    out("roles", repr(v.role), v.info, repr(t.role), t.info, t.observed, t.parameter)

    # --- auto transform in build_model ------------------------------------------
    v = hc()
    v.auto_transform = True
    clash = lsl.Var(0.0, name="x_transformed")
    gb = lsl.GraphBuilder().add(v, clash)
    attempt("err/auto clash var", gb.build_model)
    out("err/auto clash var", "auto", v.auto_transform, repr(gb))
    describe_var("err/auto clash var after", v)

    v = hc()
    v.auto_transform = True
    clashn = lsl.Value(0.0, _name="x_transformed")
    gb = lsl.GraphBuilder().add(v, clashn)
    attempt("err/auto clash node", gb.build_model)
    out("err/auto clash node", "auto", v.auto_transform, repr(gb))

    v = lsl.Var(lsl.Calc(lambda a: a + 1.0, 1.0), name="w3")
    v.auto_transform = True
    attempt("err/auto weak", lsl.GraphBuilder().add(v).build_model)
    v = lsl.Var(1.0, name="nd")
    v.auto_transform = True
    attempt("err/auto nodist", lsl.GraphBuilder().add(v).build_model)
    v = lsl.param(1.0, lsl.Dist(tfd.Poisson, 1.0), "pois")
    v.auto_transform = True
    attempt("err/auto poisson", lsl.GraphBuilder().add(v).build_model)

    # two auto-transformed vars, one depending on the other; copy=True/False
    for copy in (False, True):
        s = lsl.param(2.0, lsl.Dist(tfd.HalfCauchy, 0.0, 5.0), "s")
        s.auto_transform = True
        y = lsl.param(0.4, lsl.Dist(tfd.Gamma, 2.0, s), "y")
        y.auto_transform = True
        z = lsl.obs(jnp.array([0.3, -0.2]), lsl.Dist(tfd.Normal, y, s), "z")
        gb = lsl.GraphBuilder().add(z)
        m, e = attempt(f"auto2/copy={copy}", lambda: gb.build_model(copy=copy))
        out(f"auto2/copy={copy}", repr(gb), s.auto_transform, y.auto_transform,
            s.weak, y.weak)
        if m is not None:
            out(f"auto2/copy={copy}", sorted(m.vars), hx(m.log_prob),
                hx(m.log_prior), hx(m.log_lik))
            for nm in ("s", "y", "s_transformed", "y_transformed"):
                describe_var(f"auto2/copy={copy} {nm}", m.vars[nm])
            for t in T_POINTS:
                m.vars["s_transformed"].value = jnp.float32(t)
                m.vars["y_transformed"].value = jnp.float32(-t / 2)
                out(f"auto2/copy={copy} t={t}", hx(m.vars["s"].value),
                    hx(m.vars["y"].value), hx(m.log_prob), hx(m.log_prior),
                    hx(m.log_lik))

    # --- deprecated GraphBuilder.transform ---------------------------------------
    gb = lsl.GraphBuilder()
    v = lsl.Var(lsl.Calc(lambda a: a + 1.0, 1.0), name="w4")
    attempt("err/gb weak", lambda: gb.transform(v))
    v = lsl.Var(1.0, name="nd2")
    attempt("err/gb nodist", lambda: gb.transform(v))
    out("err/gb", repr(gb))
    v = hc()
    attempt("err/gb inst+args", lambda: gb.transform(v, tfb.Exp(), 1.0))
    attempt("err/gb none+args", lambda: gb.transform(v, None, 1.0))
    attempt("err/gb none+kwargs", lambda: gb.transform(v, None, k=1.0))
    out("err/gb", repr(gb), v.auto_transform)
    v.auto_transform = True
    t, _ = attempt("gb/cls noargs", lambda: gb.transform(v, tfb.Exp))
    out("gb/cls noargs", repr(gb), v.auto_transform)
    describe_var("gb/cls noargs x", v)
    if t is not None:
        describe_var("gb/cls noargs t", t)

    v = lsl.param(1.0, lsl.Dist(tfd.Poisson, 1.0), "pois")
    v.auto_transform = True
    gb = lsl.GraphBuilder()
    attempt("err/gb poisson", lambda: gb.transform(v))
    out("err/gb poisson", repr(gb), v.auto_transform)
    t, _ = attempt("gb/poisson inst", lambda: gb.transform(v, tfb.Exp()))
    if t is not None:
        describe_var("gb/poisson inst t", t)

    v = lsl.param(1.0, lsl.Dist(tfd.Normal, loc=0.0), "broken")
    v.auto_transform = True
    gb = lsl.GraphBuilder()
    attempt("err/gb local model", lambda: gb.transform(v, tfb.Exp()))
    out("err/gb local model", repr(gb), v.auto_transform)

    for bad in ("exp", 3, jnp.exp, tfd.Normal, nb.Exp):
        v = hc()
        gb = lsl.GraphBuilder()
        t, _ = attempt(f"err/gb badtype {type(bad).__name__}",
                       lambda: gb.transform(v, bad))
        out("err/gb badtype", repr(gb), v.weak, v.has_dist)
        t, _ = attempt(f"err/gb badtype+args {type(bad).__name__}",
                       lambda: gb.transform(hc("x2"), bad, 1.0))

    # value node already in the builder
    v = hc()
    gb = lsl.GraphBuilder()
    gb.add(v.value_node)
    attempt("err/gb dup node", lambda: gb.transform(v))
    out("err/gb dup node", repr(gb), v.auto_transform)

    # unnamed variable through the builder: names are generated first
    v = lsl.Var(1.2, lsl.Dist(tfd.LogNormal, 0.0, 1.0))
    gb = lsl.GraphBuilder()
    t, _ = attempt("gb/unnamed", lambda: gb.transform(v))
    describe_var("gb/unnamed x", v)
    if t is not None:
        describe_var("gb/unnamed t", t)
    out("gb/unnamed", repr(gb))

    # numpy-substrate distribution
    for lab, bij, a in (("default", None, ()), ("inst", nb.Exp(), ()),
                        ("cls", nb.Softplus, (2.0,)), ("jaxinst", tfb.Exp(), ())):
        v = lsl.param(np.float32(1.5), lsl.Dist(nd.Gamma, np.float32(2.0),
                                                np.float32(1.0)), "npx")
        gb = lsl.GraphBuilder()
        t, _ = attempt(f"gb/numpy {lab}", lambda: gb.transform(v, bij, *a))
        describe_var(f"gb/numpy {lab} x", v)
        if t is not None:
            describe_var(f"gb/numpy {lab} t", t)
            attempt(f"gb/numpy {lab} upd", lambda: (t.update(), v.update()))
            describe_var(f"gb/numpy {lab} t-upd", t)
            describe_var(f"gb/numpy {lab} x-upd", v)
        # the same through Var.transform
        v = lsl.param(np.float32(1.5), lsl.Dist(nd.Gamma, np.float32(2.0),
                                                np.float32(1.0)), "npx")
        t, _ = attempt(f"var/numpy {lab}", lambda: v.transform(bij, *a))
        describe_var(f"var/numpy {lab} x", v)
        if t is not None:
            describe_var(f"var/numpy {lab} t", t)

    # non-TFP distribution through the builder
    v = lsl.param(1.0, lsl.Dist(FakeDist, 0.5), "fake")
    gb = lsl.GraphBuilder()
    attempt("err/gb fake default", lambda: gb.transform(v))
    attempt("err/gb fake inst", lambda: gb.transform(v, tfb.Exp()))
    out("err/gb fake", repr(gb), v.auto_transform)
    describe_var("err/gb fake after", v)

    # var in a model through the builder
    v = hc()
    m = lsl.Model([v])
    gb = lsl.GraphBuilder()
    attempt("err/gb in model", lambda: gb.transform(v, tfb.Exp()))
    out("err/gb in model", repr(gb), sorted(m.vars))

    # _transform_back directly
    v = lsl.Var(1.0, name="nd3")
    attempt("tb/nodist", lambda: lmodel._transform_back(v))
    v = hc()
    t = v.transform(tfb.Softplus, hinge_softness=lsl.Var(2.0, name="hh"))
    c, _ = attempt("tb/ok", lambda: lmodel._transform_back(t))
    if c is not None:
        out("tb/ok", type(c).__name__, repr(c.name), fname(c.function),
            [type(i).__name__ + ":" + i.name for i in c.inputs],
            {k: type(i).__name__ + ":" + i.name for k, i in c.kwinputs.items()},
            hx(c.value), c.needs_seed)

    # pickling round trip of transformed models (closures are pickled by value)
    import io

    for lab in ("inst", "cls", "default", "gb", "auto"):
        v = hc()
        hs = lsl.Var(1.5, name="hs")
        if lab == "inst":
            v.transform(tfb.Exp())
        elif lab == "cls":
            v.transform(tfb.Softplus, hinge_softness=hs)
        elif lab == "default":
            v.transform()
        elif lab == "gb":
            attempt("dill/gb", lambda: lsl.GraphBuilder().transform(v, tfb.Softplus, hs))
        else:
            v.auto_transform = True
        m, e = attempt(f"dill/{lab} build", lsl.GraphBuilder().add(v).build_model)
        if m is None:
            continue
        buf = io.BytesIO()
        r, e = attempt(f"dill/{lab} save", lambda: lsl.save_model(m, buf))
        if e is not None:
            continue
        buf.seek(0)
        m2, e = attempt(f"dill/{lab} load", lambda: lsl.load_model(buf))
        if m2 is None:
            continue
        out(f"dill/{lab}", sorted(m2.vars), hx(m2.log_prob))
        for t in T_POINTS:
            m2.vars["x_transformed"].value = jnp.float32(t)
            out(f"dill/{lab} t={t}", hx(m2.vars["x"].value), hx(m2.log_prob))

    # jit-ability of the transformed distribution / calc functions
    v = hc()
    hs = lsl.Var(1.5, name="hs")
    t = v.transform(tfb.Softplus, hinge_softness=hs)
    fn = t.dist_node.distribution
    calc = v.value_node.function

    def lp(at, h):
        d = fn(lnodes.ArgGroup([], {"loc": 0.0, "scale": 25.0}),
               lnodes.ArgGroup([], {"hinge_softness": h}))
        x = calc(at, lnodes.ArgGroup([], {"loc": 0.0, "scale": 25.0}),
                 lnodes.ArgGroup([], {"hinge_softness": h}))
        return d.log_prob(at), x

    for tt in T_POINTS:
        a, b = jax.jit(lp)(jnp.float32(tt), jnp.float32(1.5))
        g = jax.grad(lambda at, h: lp(at, h)[0])(jnp.float32(tt), jnp.float32(1.5))
        out("jit", tt, hx(a), hx(b), hx(g))


def main():
    handler = _ListHandler()
    logging.getLogger("liesel").addHandler(handler)
    logging.getLogger("liesel").setLevel(logging.INFO)

    out("liesel", "imported")
    for case, factory in make_cases():
        for label, bij, args, kwargs in bijector_specs(case):
            for entry in ("var", "gb"):
                run_entry(case, factory, label, bij, args, kwargs, entry)
        run_auto(case, factory)
    errors()

    text = "\n".join(LINES)
    print(text)
    print("LINES", len(LINES))
    print("SHA256", hashlib.sha256(text.encode()).hexdigest())


if __name__ == "__main__":
    main()
