"""
python3-vt -m lsa check <ID> [--tier quick|thorough] [--repo /repo] [--replay FILE]
python3-vt -m lsa selftest <ID>|all [--jobs N]
"""

from __future__ import annotations

import argparse
import ast
import importlib
import os
import sys
import time
import traceback

from .core.loader import AnalysisError, Repo
from .core.report import Context, finish

PROPS = [f"C{i:02d}" for i in range(1, 21)]


def run_rules(prop: str, repo_root: str, tier: str) -> Context:
    repo = Repo(repo_root)
    ctx = Context(prop, repo, tier)
    mod = importlib.import_module(f"lsa.rules.{prop.lower()}")
    try:
        mod.check(ctx)
    except AnalysisError as e:
        # an anchored METHOD vanished while its class is still there: its behaviour is now
        # inherited or gone -- a change of behaviour the check cannot vouch for (reported
        # as an unproven obligation, exit 1).  A vanished class / function / module stays
        # an analysis error (exit 2).
        import re
        m = re.match(r"method (\S+)\.(\w+) not found", str(e))
        mn = re.match(r"nested function (\S+)\.<locals>\.(\w+) not found", str(e))
        if mn and mn.group(1) in repo.functions:
            # same for a closure of a factory that still exists: the factory now builds
            # its result some other way
            fo = repo.functions[mn.group(1)]
            ctx.ob(f"{prop}.R0", fo, f"the factory {fo.qualname} defines the closure "
                                     f"`{mn.group(2)}` whose body the rules interpret", False,
                   unproven=True, detail=str(e), stmt=f"closure {mn.group(2)} vanished")
            ctx.rule("R0", "every closure a rule interprets is defined by its factory.")
            ctx.min_failures.clear()
            return ctx
        mf = re.match(r"function (\S+)\.(\w+) not found", str(e))
        if mf and mf.group(1) in repo.modules and mf.group(2) in repo.modules[mf.group(1)].assigns:
            # the name is still bound in its module, but no longer by a `def` (e.g. built
            # with functools.partial): what it does now is not established
            mi_ = repo.modules[mf.group(1)]
            ctx.ob(f"{prop}.R0", mi_.name, f"{mf.group(1)}.{mf.group(2)} is a function whose body "
                                           f"the rules interpret", False, unproven=True,
                   detail=f"bound by an assignment now: "
                          f"{ast.unparse(mi_.assigns[mf.group(2)])[:100]}",
                   stmt=f"{mf.group(2)} is no longer a def")
            ctx.rule("R0", "every function a rule interprets is defined by a def.")
            ctx.min_failures.clear()
            return ctx
        if not (m and m.group(1) in repo.classes):
            raise
        ci = repo.classes[m.group(1)]
        ctx.ob(f"{prop}.R0", ci, f"the anchored method {ci.name}.{m.group(2)} is defined (the "
                                 f"rules of this property interpret its body)", False,
               unproven=True, detail=str(e), stmt=f"{ci.name}.{m.group(2)} vanished")
        ctx.rule("R0", "every method a rule interprets exists on its class.")
        ctx.min_failures.clear()
    except (IndexError, KeyError, TypeError, AttributeError, ValueError, AssertionError):
        # a matcher met a term shape it was not written for.  On the unchanged tree this
        # never happens (the check passes); on a changed tree it means the anchored code
        # no longer has a form the rules can interpret -- unproven, not "analysis broken".
        tb = traceback.extract_tb(sys.exc_info()[2])
        own = [f for f in tb if "/lsa/rules/" in f.filename] or list(tb)
        where = f"{os.path.basename(own[-1].filename)}:{own[-1].lineno}"
        ctx.ob(f"{prop}.R0", f"lsa.rules.{prop.lower()}", "the anchored code has a form the "
               "rules of this property can interpret", False, unproven=True,
               detail=f"matcher failed at {where}: {sys.exc_info()[0].__name__}: "
                      f"{str(sys.exc_info()[1])[:120]}", stmt=f"uninterpretable structure at {where}")
        ctx.rule("R0", "the anchored code has a form the rules can interpret.")
        ctx.min_failures.clear()
    _per_call_reading(ctx, prop, repo)
    if not ctx.obligations:
        raise AnalysisError(f"{prop}: no obligation was evaluated")
    return ctx


# cached_property on these classes is part of the reviewed tree: the objects are immutable
# after construction and the cached quantities derive from constructor arguments only
_MEMO_BASELINE_FILES = ("liesel/distributions/mvn_degen.py",)
_IMMUTABLE_RESULTS = {"int", "float", "bool", "str", "bytes", "None", "EpochType"}


def _per_call_reading(ctx: Context, prop: str, repo: Repo) -> None:
    """Every rule reads the body of a function as what a call does.  A memoising decorator
    (`lru_cache`, `cache`, a home-made `memoize`, a new `cached_property`) on a function
    the rules consulted breaks that reading: later calls return the first call's objects,
    whatever the receiver's or the module's state is by then.  Reported as unproven (R0)
    unless the declared result is an immutable scalar."""
    for q in sorted(ctx.analysed_functions):
        fi = repo.functions.get(q)
        if fi is None or fi.file.endswith(_MEMO_BASELINE_FILES):
            continue
        memo = [d for d in fi.decorators()
                if d.split(".")[-1] in ("lru_cache", "cache", "cached_property")
                or "memo" in d.lower()]
        if not memo and not isinstance(fi.node, ast.Lambda):
            # a hand-written memo: the function keeps entries in a module-level container
            glob = set(getattr(fi.module, "assigns", {}) or {})
            local = {a.arg for a in ast.walk(fi.node.args) if isinstance(a, ast.arg)}
            for nd in ast.walk(fi.node):
                tgt = None
                if isinstance(nd, (ast.Assign, ast.AugAssign, ast.AnnAssign)):
                    for t in (nd.targets if isinstance(nd, ast.Assign) else [nd.target]):
                        if isinstance(t, ast.Subscript) and isinstance(t.value, ast.Name):
                            tgt = t.value.id
                elif (isinstance(nd, ast.Call) and isinstance(nd.func, ast.Attribute)
                      and nd.func.attr in ("setdefault", "update", "append", "add")
                      and isinstance(nd.func.value, ast.Name)):
                    tgt = nd.func.value.id
                if tgt and tgt in glob and tgt not in local and not any(
                        isinstance(x, ast.Name) and x.id == tgt and isinstance(x.ctx, ast.Store)
                        for x in ast.walk(fi.node)):
                    memo = [f"module-level table `{tgt}`"]
                    break
        if not memo:
            continue
        ret = getattr(fi.node, "returns", None)
        if ret is not None and ast.unparse(ret) in _IMMUTABLE_RESULTS:
            continue
        ctx.rule("R0", "the functions a rule interprets run their body on every call.")
        ctx.ob(f"{prop}.R0", fi, f"{fi.qualname} runs its body on every call (the rules read "
                                 f"it that way); a memoised result outlives the state it was "
                                 f"computed from and is shared between callers", False,
               unproven=True, detail=f"decorators {memo}", stmt=f"{fi.qualname} memoised by {memo}")


def cmd_check(args) -> int:
    t0 = time.time()
    seed = int(os.environ.get("VERIF_SEED", "0") or 0)
    tier = args.tier or os.environ.get("VERIF_TIER") or "quick"
    if tier not in ("quick", "thorough"):
        tier = "quick"
    repo_root = args.repo or os.environ.get("LSA_REPO") or "/repo"
    try:
        ctx = run_rules(args.prop, repo_root, tier)
        if args.replay:
            return replay(ctx, args.replay)
        selftest = None
        if tier == "thorough" and not args.no_selftest:
            from .selftest.runner import run_selftest
            selftest = run_selftest(args.prop, repo_root, jobs=args.jobs)
            if selftest.get("failures"):
                for f in selftest["failures"]:
                    print(f"SELFTEST-FAILURE {f}")
                rc = finish(ctx, t0, seed, selftest)
                print(f"ANALYSIS-ERROR property={args.prop} self-test of the checker "
                      f"failed ({len(selftest['failures'])} variants); verdict on /repo "
                      f"above was {'VIOLATION' if rc else 'pass'}")
                return 1 if rc == 1 else 2
        return finish(ctx, t0, seed, selftest)
    except AnalysisError as e:
        print(f"ANALYSIS-ERROR property={args.prop} {e}")
        return 2
    except Exception:
        traceback.print_exc()
        print(f"ANALYSIS-ERROR property={args.prop} internal error (traceback above)")
        return 2


def replay(ctx, path: str) -> int:
    """Re-evaluate just the obligations recorded in a violations file on the current
    tree and print their diagnostics again."""
    import json
    with open(path) as fh:
        wanted = {(v["rule"], v["construct"], v["what"]) for v in json.load(fh)["violations"]}
    still = 0
    for o in ctx.obligations:
        if (o.rule, o.construct, o.what) in wanted:
            state = "holds now" if o.ok else o.status
            print(f"{o.where} {o.construct} -- {o.rule} [{state}] -- {o.what} -- {o.detail}")
            still += 0 if o.ok else 1
    missing = wanted - {(o.rule, o.construct, o.what) for o in ctx.obligations}
    for m in sorted(missing):
        print(f"(obligation no longer generated on this tree: {m[0]} {m[1]})")
    if still:
        print(f"VIOLATION property={ctx.prop} replay={path}")
        return 1
    return 0


def cmd_selftest(args) -> int:
    from .selftest.runner import run_selftest
    repo_root = args.repo or os.environ.get("LSA_REPO") or "/repo"
    props = PROPS if args.prop == "all" else [args.prop]
    bad = 0
    for p in props:
        r = run_selftest(p, repo_root, jobs=args.jobs, verbose=True)
        print(p, {k: v for k, v in r.items() if k != "details"})
        bad += len(r.get("failures", []))
    return 1 if bad else 0


def main(argv=None) -> int:
    ap = argparse.ArgumentParser(prog="lsa")
    sub = ap.add_subparsers(dest="cmd", required=True)
    c = sub.add_parser("check")
    c.add_argument("prop")
    c.add_argument("--tier", default=None)
    c.add_argument("--repo", default=None)
    c.add_argument("--replay", default=None)
    c.add_argument("--jobs", type=int, default=16)
    c.add_argument("--no-selftest", action="store_true")
    s = sub.add_parser("selftest")
    s.add_argument("prop")
    s.add_argument("--repo", default=None)
    s.add_argument("--jobs", type=int, default=16)
    args = ap.parse_args(argv)
    if args.cmd == "check":
        return cmd_check(args)
    return cmd_selftest(args)


if __name__ == "__main__":
    sys.exit(main())
