# Positive control for C10.R7: three ordered uses of a set.
def ordered_uses(d):
    names = set(d.keys())
    out = []
    for n in names:
        out.append(n)
    idx = {k: i for i, k in enumerate(names)}
    return out, idx, list(names)
