"""
Deterministic equivalence probe for the dual-averaging code paths (property C11).

Prints a digest (exact float hex / sha256 of raw bytes) of
  1. direct da_init / da_step / da_finalize recurrences (eager and jitted) over
     several acceptance sequences, initial step sizes and constants, including the
     boundary acceptance probabilities 0, 1 and nan and a per-epoch restart;
  2. per-kernel calls of start_epoch / transition / end_epoch / tune / end_warmup for
     RW, MH (tuning off and on), IWLS, HMC, NUTS in all epoch types;
  3. full engine runs with store_kernel_states for every kernel, several epoch
     schedules, digesting every stored kernel state, position and transition info;
  4. structural facts: class attributes, signatures, error cases.

Run with the library under test first on sys.path (PYTHONPATH=<worktree root>).
"""

import hashlib
import inspect
import logging
import warnings

import jax
import jax.numpy as jnp
import numpy as np

import liesel.goose as gs
from liesel.goose import da
from liesel.goose.epoch import EpochConfig, EpochType
from liesel.goose.hmc import HMCKernelState
from liesel.goose.iwls import IWLSKernelState
from liesel.goose.mh_kernel import MHProposal
from liesel.goose.nuts import NUTSKernelState
from liesel.goose.rw import RWKernelState

warnings.filterwarnings("ignore")
logging.getLogger("liesel").setLevel(logging.ERROR)


def hx(x):
    """Exact digest of an array-like value: dtype, shape, sha256 of bytes."""
    a = np.asarray(x)
    h = hashlib.sha256(a.tobytes()).hexdigest()[:16]
    if a.size == 1 and a.dtype.kind == "f":
        return f"{a.dtype}:{float(a.reshape(())).hex()}"
    return f"{a.dtype}{list(a.shape)}:{h}"


def tree_digest(tree):
    leaves, treedef = jax.tree_util.tree_flatten(tree)
    return str(treedef) + " | " + " ".join(hx(leaf) for leaf in leaves)


def state_digest(ks):
    fields = ["step_size", "error_sum", "log_avg_step_size", "mu"]
    return " ".join(f"{f}={hx(getattr(ks, f))}" for f in fields)


# ---------------------------------------------------------------------------
# 1. direct recurrences
# ---------------------------------------------------------------------------

print("== 1. direct da_init / da_step / da_finalize")

rng = np.random.default_rng(20240611)
sequences = {
    "zeros": [0.0] * 6,
    "ones": [1.0] * 6,
    "alternating": [0.0, 1.0] * 4,
    "random": list(rng.uniform(size=12)),
    "with_nan": [0.3, float("nan"), 0.9, 0.1],
    "target_exact": [0.8] * 5,
    "empty": [],
}
constant_sets = [
    {},
    dict(target_accept=0.234),
    dict(target_accept=0.65, gamma=0.1, kappa=0.6, t0=5),
    dict(target_accept=0.9, gamma=1.0, kappa=1.0, t0=0),
]

for name, seq in sequences.items():
    for init in (1.0, 0.01):
        for ci, consts in enumerate(constant_sets):
            ks = RWKernelState(step_size=init)
            print(f"{name} init={init} c{ci} start: {state_digest(ks)}")
            for epoch_no in range(2):
                da.da_init(ks)
                for t, acc in enumerate(seq):
                    da.da_step(ks, acc, t, **consts)
                    print(f"  e{epoch_no} t{t}: {state_digest(ks)}")
                da.da_finalize(ks)
                print(f"  e{epoch_no} final: {state_digest(ks)}")

# positional constants, jax scalars, jitted use
ks = HMCKernelState(jnp.float32(0.25), jnp.ones(3))
da.da_step(ks, jnp.float32(0.4), jnp.int32(3), 0.7, 0.07, 0.8, 12)
print("positional:", state_digest(ks))


@jax.jit
def jitted_epoch(ks, accs):
    da.da_init(ks)

    def body(carry, x):
        acc, t = x
        da.da_step(carry, acc, t, 0.8, 0.05, 0.75, 10)
        return carry, (carry.step_size, carry.log_avg_step_size, carry.error_sum)

    ks, trace = jax.lax.scan(body, ks, (accs, jnp.arange(accs.shape[0])))
    da.da_finalize(ks)
    return ks, trace


for cls, args in (
    (RWKernelState, (0.5,)),
    (IWLSKernelState, (0.01,)),
    (NUTSKernelState, (2.0, jnp.ones(2))),
):
    ks, trace = jitted_epoch(cls(*args), jnp.asarray(rng.uniform(size=20)))
    print("jit", cls.__name__, state_digest(ks), tree_digest(trace))

# monotonicity spot values: same state, different acceptance
for acc in (0.0, 0.25, 0.5, 0.75, 1.0):
    ks = RWKernelState(step_size=0.3)
    da.da_step(ks, 0.5, 0)
    da.da_step(ks, acc, 1)
    print(f"mono acc={acc}: {hx(ks.step_size)}")

# ---------------------------------------------------------------------------
# model used for kernels
# ---------------------------------------------------------------------------

drng = np.random.default_rng(1337)
n = 20
X = np.column_stack([np.ones(n), drng.uniform(size=n)])
y = drng.normal(X @ np.ones(2), 0.5, size=n)
model_state0 = {
    "y": jnp.asarray(y),
    "X": jnp.asarray(X),
    "beta": jnp.ones(2),
    "log_sigma": jnp.asarray(np.log(0.5)),
}


def log_prob(model_state):
    mu = model_state["X"] @ model_state["beta"]
    sigma = jnp.exp(model_state["log_sigma"])
    return jnp.sum(jax.scipy.stats.norm.logpdf(model_state["y"], mu, sigma))


def proposal_fn(key, model_state, step_size):
    pos = {"beta": model_state["beta"]}
    noise = step_size * jax.random.normal(key, pos["beta"].shape)
    return MHProposal({"beta": pos["beta"] + noise}, 0.0)


def make_kernels():
    keys = ["beta"]
    return {
        "rw": gs.RWKernel(keys, initial_step_size=0.2),
        "rw_custom": gs.RWKernel(
            keys, 0.7, da_target_accept=0.4, da_gamma=0.1, da_kappa=0.6, da_t0=3
        ),
        "mh_off": gs.MHKernel(keys, proposal_fn, initial_step_size=0.2),
        "mh_on": gs.MHKernel(
            keys, proposal_fn, initial_step_size=0.2, da_tune_step_size=True
        ),
        "iwls": gs.IWLSKernel(keys, initial_step_size=0.5),
        "hmc": gs.HMCKernel(keys, initial_step_size=0.05, num_integration_steps=3),
        "hmc_full": gs.HMCKernel(keys, num_integration_steps=2, mm_diag=False),
        "nuts": gs.NUTSKernel(keys, initial_step_size=0.05, max_treedepth=3),
        "nuts_auto": gs.NUTSKernel(
            keys, max_treedepth=2, mm_diag=False, da_target_accept=0.7
        ),
        "hmc_mm": gs.HMCKernel(
            keys,
            initial_inverse_mass_matrix=jnp.array([0.5, 2.0]),
            num_integration_steps=2,
        ),
        "nuts_mm": gs.NUTSKernel(
            keys,
            initial_step_size=0.1,
            initial_inverse_mass_matrix=jnp.array([[1.0, 0.1], [0.1, 0.5]]),
            max_treedepth=2,
            mm_diag=False,
        ),
    }


# ---------------------------------------------------------------------------
# 2. per-kernel method calls
# ---------------------------------------------------------------------------

print("== 2. kernel methods")

for name, kernel in make_kernels().items():
    kernel.set_model(gs.DictInterface(log_prob))
    key = jax.random.PRNGKey(7)
    ks = kernel.init_state(key, model_state0)
    print(name, "init:", tree_digest(ks))
    ms = model_state0
    time = 0
    transition = jax.jit(kernel.transition)
    for nth, etype in enumerate(
        [
            EpochType.FAST_ADAPTATION,
            EpochType.SLOW_ADAPTATION,
            EpochType.BURNIN,
            EpochType.POSTERIOR,
        ]
    ):
        epoch = EpochConfig(etype, 4, 1, None).to_state(nth + 1, time)
        key, k0, k1, k2 = jax.random.split(key, 4)
        ks = kernel.start_epoch(k0, ks, ms, epoch)
        print(name, etype.name, "start:", tree_digest(ks))
        hist = []
        for _ in range(4):
            key, sub = jax.random.split(key)
            out = transition(sub, ks, ms, epoch)
            ks, ms = out.kernel_state, out.model_state
            hist.append(ms["beta"])
            epoch.advance_time(1)
            print(name, etype.name, "trans:", tree_digest((out.info, ks, ms["beta"])))
        time += 4
        ks = kernel.end_epoch(k1, ks, ms, epoch)
        print(name, etype.name, "end:", tree_digest(ks))
        if EpochType.is_adaptation(etype):
            history = {"beta": jnp.stack(hist)}
            for h in (history, None):
                tout = kernel.tune(k2, ks, ms, epoch, h)
                ks = tout.kernel_state
                print(name, etype.name, "tune:", tree_digest((tout.info, ks)))
    wout = kernel.end_warmup(key, ks, ms, None)
    print(name, "end_warmup:", tree_digest((wout.error_code, wout.kernel_state)))

# eager (non-jitted) adaptive and standard transitions
for name, kernel in make_kernels().items():
    kernel.set_model(gs.DictInterface(log_prob))
    key = jax.random.PRNGKey(11)
    ks = kernel.init_state(key, model_state0)
    for etype in (EpochType.FAST_ADAPTATION, EpochType.POSTERIOR):
        epoch = EpochConfig(etype, 3, 1, None).to_state(1, 0)
        epoch.advance_time(2)
        out_a = kernel._adaptive_transition(key, ks, model_state0, epoch)
        print(name, etype.name, "eager adaptive:", tree_digest(out_a.kernel_state))
        ks = kernel.init_state(key, model_state0)
        out_s = kernel._standard_transition(key, ks, model_state0, epoch)
        print(name, etype.name, "eager standard:", tree_digest(out_s.kernel_state))
        print(name, "same object:", out_s.kernel_state is ks)

# ---------------------------------------------------------------------------
# 3. full engine runs
# ---------------------------------------------------------------------------

print("== 3. engine runs")


def run_engine(kernel, seed, epochs=None, num_chains=2):
    builder = gs.EngineBuilder(seed, num_chains=num_chains)
    builder.add_kernel(kernel)
    builder.set_model(gs.DictInterface(log_prob))
    builder.set_initial_values(model_state0)
    if epochs is None:
        builder.set_duration(warmup_duration=200, posterior_duration=20)
    else:
        builder.set_epochs(epochs)
    builder.store_kernel_states = True
    builder.show_progress = False
    engine = builder.build()
    engine.sample_all_epochs()
    return engine.get_results()


custom_epochs = [
    EpochConfig(EpochType.INITIAL_VALUES, 1, 1, None),
    EpochConfig(EpochType.FAST_ADAPTATION, 7, 1, None),
    EpochConfig(EpochType.SLOW_ADAPTATION, 25, 1, None),
    EpochConfig(EpochType.SLOW_ADAPTATION, 30, 1, None),
    EpochConfig(EpochType.FAST_ADAPTATION, 2, 1, None),
    EpochConfig(EpochType.BURNIN, 5, 1, None),
    EpochConfig(EpochType.POSTERIOR, 6, 1, None),
    EpochConfig(EpochType.POSTERIOR, 4, 1, None),
]

for schedule_name, epochs in (("default", None), ("custom", custom_epochs)):
    for name, kernel in make_kernels().items():
        res = run_engine(kernel, seed=3, epochs=epochs)
        states = res.kernel_states.unwrap().combine_all().unwrap()
        print(schedule_name, name, "kernel states:", tree_digest(states))
        ss = np.asarray(states[0].step_size)
        print(schedule_name, name, "last step sizes:", [float(v).hex() for v in ss[:, -1]])
        print(schedule_name, name, "samples:", tree_digest(res.get_samples()))
        infos = res.transition_infos.combine_all().unwrap()
        print(schedule_name, name, "infos:", tree_digest(infos))
        print(schedule_name, name, "tuning:", tree_digest(res.tuning_infos.unwrap().get().unwrap()) if res.tuning_infos.is_some() else None)

# ---------------------------------------------------------------------------
# 4. structure and errors
# ---------------------------------------------------------------------------

print("== 4. structure")


def sig(fn):
    """Parameter names, kinds and defaults (annotations are not behaviour)."""
    params = inspect.signature(fn).parameters.values()
    return [(p.name, p.kind.name, None if p.default is p.empty else p.default) for p in params]


for fn in (da.da_init, da.da_step, da.da_finalize):
    print(fn.__name__, sig(fn))

for name, kernel in make_kernels().items():
    cls = type(kernel)
    for meth in (
        "transition",
        "start_epoch",
        "end_epoch",
        "tune",
        "end_warmup",
        "init_state",
        "_standard_transition",
        "_adaptive_transition",
    ):
        print(cls.__name__, meth, sig(getattr(cls, meth)))
    print(cls.__name__, cls.error_book, cls.needs_history, cls.identifier)
    print(cls.__name__, sorted(vars(kernel)))
    print(cls.__name__, "is Kernel-like:", all(hasattr(kernel, m) for m in ("transition", "tune", "start_epoch", "end_epoch", "end_warmup")))
    try:
        kernel.model
    except RuntimeError as e:
        print(cls.__name__, "no model:", e)


class Frozen:
    __slots__ = ()


for fn, args in (
    (da.da_init, (Frozen(),)),
    (da.da_finalize, (Frozen(),)),
    (da.da_step, (Frozen(), 0.5, 0)),
    (da.da_init, (None,)),
):
    try:
        fn(*args)
    except Exception as e:  # noqa: BLE001
        print(fn.__name__, type(e).__name__, e)

print("done")
