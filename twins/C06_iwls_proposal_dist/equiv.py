"""
Equivalence harness for the RW / IWLS / MH kernels and their helpers.

Run with the worktree on PYTHONPATH, once on HEAD and once with the patch applied:

    PYTHONPATH=$PWD python _twin/<name>/equiv.py > out.txt

The program is deterministic. It prints, for a grid of kernels, models, block shapes,
PRNG keys, step sizes and epoch types, a bit-exact digest (dtype, shape, weak_type,
sha1 of the raw bytes) of every leaf of every result, the sequence of calls made on
the user-facing objects (model interface, chol_info_fn, proposal_fn), the exceptions
raised on misuse, and the side effects on the objects passed in.
"""

import hashlib
import warnings

import jax
import jax.numpy as jnp
import numpy as np

import liesel.goose as gs
from liesel.goose import iwls_utils
from liesel.goose.da import da_finalize, da_init, da_step
from liesel.goose.epoch import EpochConfig, EpochType
from liesel.goose.mh import mh_error_book, mh_step
from liesel.goose.mh_kernel import MHProposal
from liesel.goose.rw import RWKernelState
from liesel.goose.iwls import IWLSKernelState

warnings.simplefilter("ignore", FutureWarning)

LINES = []


def emit(*parts):
    line = " ".join(str(p) for p in parts)
    LINES.append(line)
    print(line)


def leaf_digest(x):
    weak = getattr(getattr(x, "aval", None), "weak_type", None)
    kind = type(x).__name__ if not isinstance(x, jax.Array) else "Array"
    arr = np.asarray(x)
    sha = hashlib.sha1(arr.tobytes()).hexdigest()[:12]
    flat = arr.ravel()
    head = ",".join(repr(v.item()) for v in flat[:3])
    return f"{kind}:{arr.dtype}:{arr.shape}:w={weak}:{sha}:[{head}]"


def digest(tree):
    leaves, treedef = jax.tree_util.tree_flatten(tree)
    return str(treedef) + " | " + " ; ".join(leaf_digest(x) for x in leaves)


# ---------------------------------------------------------------------------
# models with analytic gradient and Hessian, several block shapes
# ---------------------------------------------------------------------------

rng = np.random.default_rng(20240611)
X = np.column_stack([np.ones(12), rng.uniform(-1, 1, size=(12, 2))]).astype(np.float32)
y_pois = rng.poisson(np.exp(X @ np.array([0.3, -0.5, 0.8]))).astype(np.float32)
y_bern = rng.binomial(1, 0.4, size=12).astype(np.float32)
y_norm = rng.normal(size=12).astype(np.float32)


def lp_gauss(ms):
    # scalar key "a" (shape ()), vector key "b" (shape (3,)), coupled
    a, b = ms["a"], ms["b"]
    prec = ms["prec"]
    r = b - a
    return -0.5 * r @ prec @ r - 0.5 * (a - 1.5) ** 2 / 0.7


def lp_poisson(ms):
    eta = ms["X"] @ ms["beta"]
    return jnp.sum(ms["y"] * eta - jnp.exp(eta)) - 0.5 * jnp.sum(ms["beta"] ** 2) / 10.0


def lp_logit(ms):
    eta = ms["X"][:, 0] * ms["icpt"] + ms["X"][:, 1:] @ ms["slope"]
    ll = jnp.sum(ms["y"] * eta - jnp.logaddexp(0.0, eta))
    return ll - 0.5 * ms["icpt"] ** 2 - 0.5 * jnp.sum(ms["slope"] ** 2)


def lp_lm(ms):
    mu = ms["X"] @ ms["beta"]
    sigma = jnp.exp(ms["log_sigma"])
    return jnp.sum(jax.scipy.stats.norm.logpdf(ms["y"], mu, sigma))


A = rng.normal(size=(3, 3))
PREC = (A @ A.T + 3 * np.eye(3)).astype(np.float32)

MODELS = {
    "gauss": (
        lp_gauss,
        {"a": jnp.asarray(0.3), "b": jnp.asarray([0.1, -0.4, 0.9]), "prec": PREC},
        [("a",), ("a", "b"), ("b", "a")],
    ),
    "poisson": (
        lp_poisson,
        {"beta": jnp.asarray([0.2, -0.1, 0.4]), "X": X, "y": y_pois},
        [("beta",)],
    ),
    "logit": (
        lp_logit,
        {"icpt": jnp.asarray(-0.2), "slope": jnp.asarray([0.5, -0.3]), "X": X,
         "y": y_bern},
        [("slope", "icpt")],
    ),
    "lm": (
        lp_lm,
        {"beta": jnp.asarray([0.1, 0.2, -0.3]), "log_sigma": jnp.asarray(0.1), "X": X,
         "y": y_norm},
        [("beta", "log_sigma")],
    ),
}


class LoggedInterface(gs.DictInterface):
    """DictInterface that records the sequence of calls made by the library."""

    def __init__(self, fn):
        super().__init__(fn)
        self.calls = []

    def extract_position(self, position_keys, model_state):
        self.calls.append("extract:" + ",".join(position_keys))
        return super().extract_position(position_keys, model_state)

    def update_state(self, position, model_state):
        self.calls.append("update:" + ",".join(position.keys()))
        return super().update_state(position, model_state)

    def log_prob(self, model_state):
        self.calls.append("log_prob")
        return super().log_prob(model_state)


def epoch_state(epoch_type, time_in_epoch=0):
    es = EpochConfig(epoch_type, 50, 1, None).to_state(1, 7)
    es.advance_time(time_in_epoch)
    return es


EPOCHS = {
    "burnin": epoch_state(EpochType.BURNIN, 3),
    "fast": epoch_state(EpochType.FAST_ADAPTATION, 0),
    "slow": epoch_state(EpochType.SLOW_ADAPTATION, 11),
    "post": epoch_state(EpochType.POSTERIOR, 5),
}

STEP_SIZES = [0.05, 1.1]
KEYS = [jax.random.PRNGKey(s) for s in (0, 1, 42)]


# ---------------------------------------------------------------------------
# kernel factories
# ---------------------------------------------------------------------------


def make_chol_info_fn(lp, keys, log):
    def chol_info_fn(model_state):
        log.append("chol_info_fn")
        pos = {k: model_state[k] for k in keys}
        flat, unravel = jax.flatten_util.ravel_pytree(pos)

        def f(z):
            return lp({**model_state, **unravel(z)})

        # user-supplied information: negative Hessian plus a ridge
        info = -jax.hessian(f)(flat) + 0.25 * jnp.eye(flat.shape[0])
        return jnp.linalg.cholesky(info)

    return chol_info_fn


def make_proposal_fns(keys, log):
    def sym(key, model_state, step_size):
        log.append("proposal_fn:sym")
        pos = {}
        for i, k in enumerate(keys):
            sub = jax.random.fold_in(key, i)
            pos[k] = model_state[k] + step_size * jax.random.normal(
                sub, jnp.shape(model_state[k])
            )
        return MHProposal(pos, 0.0)

    def asym(key, model_state, step_size):
        log.append("proposal_fn:asym")
        pos = {}
        corr = 0.0
        for i, k in enumerate(keys):
            sub = jax.random.fold_in(key, i)
            old = model_state[k]
            mean_fwd = old + 0.5 * step_size
            new = mean_fwd + step_size * jax.random.normal(sub, jnp.shape(old))
            mean_bwd = new + 0.5 * step_size
            fwd = jax.scipy.stats.norm.logpdf(new, mean_fwd, step_size).sum()
            bwd = jax.scipy.stats.norm.logpdf(old, mean_bwd, step_size).sum()
            corr = corr + (bwd - fwd)
            pos[k] = new
        return MHProposal(pos, corr)

    return {"sym": sym, "asym": asym}


def kernel_variants(model_name, lp, keys):
    """Yields (label, kernel, state_cls, call_log)."""
    log = []
    yield "rw", gs.RWKernel(keys), RWKernelState, log
    log = []
    yield "rw_cfg", gs.RWKernel(
        keys, initial_step_size=0.3, da_target_accept=0.4, da_gamma=0.1,
        da_kappa=0.6, da_t0=5,
    ), RWKernelState, log
    log = []
    yield "iwls", gs.IWLSKernel(keys), IWLSKernelState, log
    log = []
    yield "iwls_cfg", gs.IWLSKernel(
        keys, initial_step_size=0.2, da_target_accept=0.6, da_gamma=0.2,
        da_kappa=0.9, da_t0=3,
    ), IWLSKernelState, log
    log = []
    yield "iwls_chol", gs.IWLSKernel(
        keys, chol_info_fn=make_chol_info_fn(lp, keys, log)
    ), IWLSKernelState, log
    for tune in (False, True):
        for name in ("sym", "asym"):
            log = []
            fn = make_proposal_fns(keys, log)[name]
            yield f"mh_{name}_tune{int(tune)}", gs.MHKernel(
                keys, fn, initial_step_size=0.8, da_tune_step_size=tune,
                da_target_accept=0.3, da_gamma=0.07, da_kappa=0.7, da_t0=8,
            ), RWKernelState, log


def fresh_state(state_cls, step_size):
    return state_cls(step_size)


def outcome_digest(outcome):
    return (
        "info=" + digest(outcome.info)
        + " || ks=" + digest(outcome.kernel_state)
        + " || ms=" + digest(outcome.model_state)
    )


# ---------------------------------------------------------------------------
# 1. single transitions, eager, direct calls of the private transition methods
# ---------------------------------------------------------------------------

emit("# section 1: eager _standard_transition / _adaptive_transition / transition")
for mname, (lp, ms0, blocks) in MODELS.items():
    for keys in blocks:
        for label, kernel, state_cls, ulog in kernel_variants(mname, lp, keys):
            model = LoggedInterface(lp)
            kernel.set_model(model)
            # keep the eager grid moderate for the (slow) IWLS kernels
            key_grid = KEYS[:2] if not label.startswith("iwls") else KEYS[:1]
            for ki, key in enumerate(key_grid):
                for ss in STEP_SIZES:
                    tag = f"{mname}/{'+'.join(keys)}/{label}/k{ki}/s{ss}"

                    ks = fresh_state(state_cls, ss)
                    model.calls.clear()
                    ulog.clear()
                    out = kernel._standard_transition(key, ks, ms0, EPOCHS["post"])
                    emit(tag, "std", outcome_digest(out))
                    emit(tag, "std-calls", "|".join(model.calls), "||", "|".join(ulog))
                    emit(tag, "std-sidefx", out.kernel_state is ks, digest(ks),
                         digest(ms0))

                    ks = fresh_state(state_cls, ss)
                    model.calls.clear()
                    ulog.clear()
                    out = kernel._adaptive_transition(key, ks, ms0, EPOCHS["slow"])
                    emit(tag, "ada", outcome_digest(out))
                    emit(tag, "ada-calls", "|".join(model.calls), "||", "|".join(ulog))
                    emit(tag, "ada-sidefx", out.kernel_state is ks, digest(ks))

                if ki == 0:
                    for ename in ("fast", "post"):
                        ep = EPOCHS[ename]
                        ks = fresh_state(state_cls, 0.4)
                        out = kernel.transition(key, ks, ms0, ep)
                        emit(f"{mname}/{'+'.join(keys)}/{label}/transition/{ename}",
                             outcome_digest(out), "input-ks", digest(ks))


# ---------------------------------------------------------------------------
# 2. jitted chains through the public transition (several epochs in a row)
# ---------------------------------------------------------------------------

emit("# section 2: jitted chains")
for mname, (lp, ms0, blocks) in MODELS.items():
    for keys in blocks:
        for label, kernel, state_cls, ulog in kernel_variants(mname, lp, keys):
            model = LoggedInterface(lp)
            kernel.set_model(model)
            step = jax.jit(kernel.transition)
            ks = kernel.init_state(KEYS[0], ms0)
            ms = ms0
            key = jax.random.PRNGKey(7)
            trail = hashlib.sha1()
            n_acc = 0
            for ename in ("fast", "slow", "burnin", "post"):
                ks = kernel.start_epoch(key, ks, ms, EPOCHS[ename])
                for t in range(12):
                    ep = epoch_state(EPOCHS[ename].config.type, t)
                    key, sub = jax.random.split(key)
                    out = step(sub, ks, ms, ep)
                    ks, ms = out.kernel_state, out.model_state
                    trail.update(outcome_digest(out).encode())
                    n_acc += int(out.info.position_moved)
                if ename in ("fast", "slow"):
                    ks = kernel.end_epoch(key, ks, ms, EPOCHS[ename])
                tune = kernel.tune(key, ks, ms, EPOCHS[ename])
                trail.update(digest(tune).encode())
            wo = kernel.end_warmup(key, ks, ms, None)
            emit(f"{mname}/{'+'.join(keys)}/{label}/chain", trail.hexdigest(),
                 "acc", n_acc, "final", outcome_digest(out), "warmup", digest(wo),
                 "trace-calls", "|".join(model.calls), "||", "|".join(ulog))


# ---------------------------------------------------------------------------
# 3. detailed balance: reported acceptance prob vs. the analytic ratio
# ---------------------------------------------------------------------------

emit("# section 3: acceptance probability vs analytic MH ratio (IWLS, RW)")


def analytic_iwls(lp, keys, ms, ms_new, s, chol_fn=None):
    pos = {k: ms[k] for k in keys}
    x, unravel = jax.flatten_util.ravel_pytree(pos)
    xn, _ = jax.flatten_util.ravel_pytree({k: ms_new[k] for k in keys})

    def f(z):
        return lp({**ms, **unravel(z)})

    def q(to, frm):
        g = jax.grad(f)(frm)
        F = -jax.hessian(f)(frm)
        Finv = jnp.linalg.inv(F)
        mean = frm + (s**2 / 2) * Finv @ g
        cov = s**2 * Finv
        return jax.scipy.stats.multivariate_normal.logpdf(to, mean, cov)

    return jnp.minimum(1.0, jnp.exp(f(xn) - f(x) + q(x, xn) - q(xn, x)))


for mname, (lp, ms0, blocks) in MODELS.items():
    for keys in blocks:
        kernel = gs.IWLSKernel(keys)
        kernel.set_model(gs.DictInterface(lp))
        for ki, key in enumerate(KEYS[1:2]):
            for ss in STEP_SIZES:
                out = kernel._standard_transition(
                    key, IWLSKernelState(ss), ms0, EPOCHS["post"]
                )
                # recover the proposal irrespective of acceptance
                k1, _ = jax.random.split(key)
                moved = bool(out.info.position_moved)
                if moved:
                    ref = analytic_iwls(lp, keys, ms0, out.model_state, ss)
                    ok = bool(jnp.allclose(ref, out.info.acceptance_prob, rtol=2e-3,
                                           atol=1e-5))
                else:
                    ok = None
                emit(f"{mname}/{'+'.join(keys)}/iwls-db/k{ki}/s{ss}", "moved", moved,
                     "matches-analytic", ok, leaf_digest(out.info.acceptance_prob))


# ---------------------------------------------------------------------------
# 4. mh_step directly: corrections, nan handling, weak types, keyword use
# ---------------------------------------------------------------------------

emit("# section 4: mh_step")
emit("error_book", sorted(mh_error_book.items()))
lp, ms0, _ = MODELS["gauss"]
model = LoggedInterface(lp)
prop = {"a": jnp.asarray(0.35), "b": jnp.asarray([0.0, -0.5, 1.0])}
for corr in (0.0, -0.7, 2.5, jnp.asarray(0.3), jnp.inf, -jnp.inf, jnp.nan,
             np.float32(0.25), 1):
    for ki, key in enumerate(KEYS):
        model.calls.clear()
        info, ms = mh_step(key, model, prop, ms0, corr)
        emit(f"mh_step/corr={corr!r}/k{ki}", digest(info), digest(ms),
             "|".join(model.calls))
        info2, ms2 = mh_step(prng_key=key, model=model, proposal=prop,
                             model_state=ms0, log_correction=corr)
        emit(f"mh_step-kw/corr={corr!r}/k{ki}", digest(info2), digest(ms2))
        info3, ms3 = jax.jit(lambda k, p, m, c: mh_step(k, model, p, m, c))(
            key, prop, ms0, corr
        )
        emit(f"mh_step-jit/corr={corr!r}/k{ki}", digest(info3), digest(ms3))
for ki, key in enumerate(KEYS):
    info, ms = mh_step(key, model, prop, ms0)
    emit(f"mh_step/default/k{ki}", digest(info), digest(ms))


def lp_nan(ms):
    return jnp.log(ms["a"])  # nan for negative a


model_nan = gs.DictInterface(lp_nan)
for a_new in (-1.0, 0.0, 2.0):
    info, ms = mh_step(KEYS[0], model_nan, {"a": jnp.asarray(a_new)},
                       {"a": jnp.asarray(1.0)})
    emit(f"mh_step/nan-model/a={a_new}", digest(info), digest(ms))


class PyFloatModel:
    """Model whose log_prob is a python float: weakly typed all the way."""

    def extract_position(self, position_keys, model_state):
        return {k: model_state[k] for k in position_keys}

    def update_state(self, position, model_state):
        return {**model_state, **position}

    def log_prob(self, model_state):
        return -0.5 * float(model_state["z"]) ** 2


for z_new in (0.1, 3.0):
    for corr in (0.0, -0.2):
        info, ms = mh_step(KEYS[1], PyFloatModel(), {"z": jnp.asarray(z_new)},
                           {"z": jnp.asarray(0.5)}, corr)
        emit(f"mh_step/pyfloat/z={z_new}/c={corr}", digest(info), digest(ms))


# ---------------------------------------------------------------------------
# 5. iwls_utils directly
# ---------------------------------------------------------------------------

emit("# section 5: iwls_utils")
for d in (1, 2, 4):
    M = rng.normal(size=(d, d))
    P = (M @ M.T + d * np.eye(d)).astype(np.float32)
    L = jnp.linalg.cholesky(jnp.asarray(P))
    b = jnp.asarray(rng.normal(size=d).astype(np.float32))
    m = jnp.asarray(rng.normal(size=d).astype(np.float32))
    emit(f"solve/d{d}", leaf_digest(iwls_utils.solve(L, b)))
    emit(f"solve-kw/d{d}", leaf_digest(iwls_utils.solve(chol_lhs=L, rhs=b)))
    emit(f"solve-jit/d{d}", leaf_digest(jax.jit(iwls_utils.solve)(L, b)))
    emit(f"logp/d{d}", leaf_digest(iwls_utils.mvn_log_prob(b, m, L)))
    emit(f"logp-kw/d{d}",
         leaf_digest(iwls_utils.mvn_log_prob(x=b, mean=m, chol_inv_cov=L)))
    emit(f"logp-jit/d{d}", leaf_digest(jax.jit(iwls_utils.mvn_log_prob)(b, m, L)))
    for ki, key in enumerate(KEYS):
        emit(f"sample/d{d}/k{ki}", leaf_digest(iwls_utils.mvn_sample(key, m, L)))
        emit(f"sample-kw/d{d}/k{ki}", leaf_digest(
            iwls_utils.mvn_sample(prng_key=key, mean=m, chol_inv_cov=L)))
        emit(f"sample-jit/d{d}/k{ki}",
             leaf_digest(jax.jit(iwls_utils.mvn_sample)(key, m, L)))
emit("triangular_solve is lax", iwls_utils.triangular_solve
     is jax.lax.linalg.triangular_solve)


# ---------------------------------------------------------------------------
# 6. dual averaging helpers on the kernel states
# ---------------------------------------------------------------------------

emit("# section 6: dual averaging")
for cls in (RWKernelState, IWLSKernelState):
    ks = cls(0.37)
    emit(cls.__name__, "init", digest(ks))
    for t, acc in enumerate((0.9, 0.1, jnp.asarray(0.5), 1.0, 0.0)):
        r = da_step(ks, acc, t, 0.3, 0.07, 0.7, 8)
        emit(cls.__name__, "step", t, r, digest(ks))
    emit(cls.__name__, "finalize", da_finalize(ks), digest(ks))
    emit(cls.__name__, "reinit", da_init(ks), digest(ks))


# ---------------------------------------------------------------------------
# 7. misuse: exceptions must be the same
# ---------------------------------------------------------------------------

emit("# section 7: exceptions")


def attempt(label, fn):
    try:
        r = fn()
        emit(label, "OK", type(r).__name__)
    except Exception as e:  # noqa: BLE001
        emit(label, "EXC", type(e).__name__, str(e).splitlines()[0][:120])


lp, ms0, _ = MODELS["gauss"]
for make in (
    lambda: gs.RWKernel(["a"]),
    lambda: gs.IWLSKernel(["a"]),
    lambda: gs.IWLSKernel(["a"], chol_info_fn=lambda ms: jnp.eye(1)),
    lambda: gs.MHKernel(["a"], make_proposal_fns(("a",), [])["sym"]),
    lambda: gs.MHKernel(["a"], make_proposal_fns(("a",), [])["sym"],
                        da_tune_step_size=True),
):
    k = make()
    name = type(k).__name__
    st = k.init_state(KEYS[0], ms0)
    emit(name, "has_model", k.has_model(), "init", digest(st))
    attempt(name + "/std-no-model",
            lambda: k._standard_transition(KEYS[0], st, ms0, EPOCHS["post"]))
    attempt(name + "/ada-no-model",
            lambda: k._adaptive_transition(KEYS[0], st, ms0, EPOCHS["fast"]))
    attempt(name + "/transition-no-model",
            lambda: k.transition(KEYS[0], st, ms0, EPOCHS["fast"]))
    k.set_model(gs.DictInterface(lp))
    attempt(name + "/missing-key",
            lambda: k._standard_transition(KEYS[0], st, {"b": ms0["b"]},
                                           EPOCHS["post"]))
    attempt(name + "/bad-state",
            lambda: k._standard_transition(KEYS[0], None, ms0, EPOCHS["post"]))
    attempt(name + "/bad-epoch",
            lambda: k._adaptive_transition(KEYS[0], k.init_state(KEYS[0], ms0), ms0,
                                           None))

# IWLS with an indefinite information matrix -> nan correction -> error code 90
kernel = gs.IWLSKernel(["a"], chol_info_fn=lambda ms: jnp.full((1, 1), jnp.nan))
kernel.set_model(gs.DictInterface(lp))
out = kernel._standard_transition(KEYS[0], IWLSKernelState(0.5), ms0, EPOCHS["post"])
emit("iwls/nan-chol", outcome_digest(out))


def lp_convex(ms):
    return 0.5 * jnp.sum(ms["a"] ** 2)  # positive Hessian: cholesky(-H) is nan


kernel = gs.IWLSKernel(["a"])
kernel.set_model(gs.DictInterface(lp_convex))
out = kernel._standard_transition(KEYS[0], IWLSKernelState(0.5),
                                  {"a": jnp.asarray([0.3, 0.2])}, EPOCHS["post"])
emit("iwls/indefinite", outcome_digest(out))
out = kernel._adaptive_transition(KEYS[0], IWLSKernelState(0.5),
                                  {"a": jnp.asarray([0.3, 0.2])}, EPOCHS["fast"])
emit("iwls/indefinite-ada", outcome_digest(out))

# public surface that must not move
for cls in (gs.RWKernel, gs.IWLSKernel, gs.MHKernel):
    emit(cls.__name__, "mro", [c.__name__ for c in cls.__mro__],
         "public", sorted(n for n in vars(cls) if not n.startswith("_")),
         "error_book", sorted(cls.error_book.items()),
         "needs_history", cls.needs_history)
import inspect  # noqa: E402

for fn in (mh_step, iwls_utils.solve, iwls_utils.mvn_log_prob, iwls_utils.mvn_sample,
           da_step, da_init, da_finalize, gs.RWKernel.__init__,
           gs.IWLSKernel.__init__, gs.MHKernel.__init__):
    emit("signature", fn.__qualname__, inspect.signature(fn))

emit("# total digest", hashlib.sha1("\n".join(LINES).encode()).hexdigest(),
     "lines", len(LINES))
