import ast

from .runner import (V, expr, expr_is, is_assign_to, is_expr_call, replace_expr,
                     replace_stmt, stmt)

I = "liesel/goose/interface.py"
M = "liesel/model/model.py"
G = "liesel/model/goose.py"
L = "LieselInterface"

VARIANTS = [
    V("c03_no_overwrite", "M", I, f"{L}.update_state",
      *replace_stmt("self._model.state = model_state", None),
      note="result depends on earlier calls (history leak)", expect_rule="C03.R3"),
    V("c03_alias_model", "M", I, f"{L}.__init__",
      *replace_stmt("self._model = model._copy_computational_model()", "self._model = model"),
      note="the user's model is mutated by the sampler", expect_rule="C03.R1"),
    V("c03_return_input", "M", I, f"{L}.update_state",
      *replace_stmt("return self._model.state", "return model_state"),
      note="returns the unmodified input", expect_rule="C03.R3"),
    V("c03_dict_inplace", "M", I, "DictInterface.update_state",
      *replace_stmt("return model_state | position",
                    "model_state.update(position)\nreturn model_state"),
      note="input state mutated in place", expect_rule="C03.R2"),
    V("c03_update_if_auto", "M", I, f"{L}.update_state",
      *replace_stmt("self._model.update()",
                    "if self._model.auto_update:\n    self._model.update()"),
      note="no sweep when auto_update is off", expect_rule="C03.R3"),
    V("c03_targeted", "M", I, f"{L}.update_state",
      *replace_stmt("self._model.update()", "self._model.update('_model_log_prob')"),
      note="only the log-prob ancestors are refreshed", expect_rule="C03.R3"),
    V("c03_no_clear", "M", I, f"{L}.update_state",
      lambda nd: isinstance(nd, ast.For) and "_outdated" in ast.unparse(nd), lambda nd: None,
      note="outdated flags of the input state survive", expect_rule="C03.R3"),
    V("c03_no_restore", "M", M, "Model._copy_computational_model",
      *replace_stmt("self.state = backup", None),
      note="the user's model loses its state when an interface is created",
      expect_rule="C03.R1"),
    V("c03_vars_first", "M", I, f"{L}.extract_position",
      *replace_expr("model_state[key].value", "model_state[self._model.vars[key].value_node.name].value"),
      note="variable name resolved first", expect_rule="C03.R4"),
    V("c03_dataclass_nocopy", "M", I, "DataclassInterface.update_state",
      *replace_expr("copy.copy(model_state)", "model_state"),
      note="dataclass state mutated in place", expect_rule="C03.R2"),
    V("c03_goose_drift", "M", G, "GooseModel.update_state",
      *replace_stmt("self._model.update()", "self._model.update('_model_log_prob')"),
      note="deprecated alias drifts from LieselInterface", expect_rule="C03.R"),
    V("c03_fd_no_copy", "M", G, "finite_discrete_gibbs_kernel",
      *replace_stmt("model = model._copy_computational_model()", None),
      note="Gibbs factory works on the user's model", expect_rule="C03.R1"),
    # ---- twins
    V("c03_t_dict", "T", I, "DictInterface.update_state",
      *replace_stmt("return model_state | position",
                    "new_state = model_state.copy()\nnew_state.update(position)\nreturn new_state"),
      note="copy then update the copy"),
    V("c03_t_loopvar", "T", I, f"{L}.update_state",
      lambda nd: isinstance(nd, ast.For) and "_outdated" in ast.unparse(nd),
      lambda nd: stmt("for nd_ in self._model.nodes.values():\n    nd_._outdated = False"),
      note="loop variable renamed"),
]
