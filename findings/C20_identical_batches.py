"""
Reproduction of known finding KF-C20-1 (run with /venv/bin/python).
optim_flat never replaces the carried PRNG key, so every iteration draws the same
batches; with n % batch_size != 0 the dropped observations never influence the fit.
The script changes each observation in turn and reports which ones have exactly zero
influence on the optimised coefficient.  Exit status 1 = defect present.
"""
import sys

import jax.numpy as jnp
import numpy as np
import tensorflow_probability.substrates.jax.distributions as tfd

import liesel.goose as gs
import liesel.model as lsl


def fit(y):
    mu = lsl.param(0.0, name="mu")
    yv = lsl.obs(jnp.asarray(y), lsl.Dist(tfd.Normal, loc=mu, scale=1.0), name="y")
    model = lsl.GraphBuilder().add(yv).build_model()
    res = gs.optim_flat(model, ["mu"], batch_size=7, batch_seed=1,
                        stopper=gs.Stopper(max_iter=40, patience=40),
                        restore_best_position=False, progress_bar=False)
    return float(res.position["mu"])


y0 = np.arange(10, dtype=np.float32)
base = fit(y0)
no_influence = []
for i in range(10):
    y = y0.copy()
    y[i] += 100.0
    if fit(y) == base:
        no_influence.append(i)
print("observations without any influence on the fit:", no_influence)
sys.exit(1 if no_influence else 0)
