import ast

from .runner import (V, expr, expr_is, is_assign_to, replace_expr, replace_stmt, stmt)

M = "liesel/distributions/mvn_degen.py"
C = "liesel/distributions/copulas.py"
A = "liesel/bijectors/algebraic_sigmoid.py"
K = "MultivariateNormalDegenerate"

VARIANTS = [
    V("c18_sign_pen", "M", M, f"{K}.from_penalty",
      *replace_expr("log_pdet - rank * jnp.log(var)", "log_pdet + rank * jnp.log(var)"),
      note="wrong sign of the log-pdet adjustment", expect_rule="C18.R1"),
    V("c18_sign_smooth", "M", M, f"{K}.from_penalty_smooth",
      *replace_expr("log_pdet + rank * jnp.log(smooth)", "log_pdet - rank * jnp.log(smooth)"),
      note="wrong sign of the log-pdet adjustment", expect_rule="C18.R1"),
    V("c18_no_rank", "M", M, f"{K}.from_penalty",
      *replace_expr("log_pdet - rank * jnp.log(var)", "log_pdet - jnp.log(var)"),
      note="adjustment without rank", expect_rule="C18.R1"),
    V("c18_evals_of_prec", "M", M, f"{K}.from_penalty",
      *replace_expr("jax.numpy.linalg.eigvalsh(pen)", "jax.numpy.linalg.eigvalsh(prec)"),
      note="pdet of the scaled precision adjusted twice", expect_rule="C18.R1"),
    V("c18_logprob_coef", "M", M, f"{K}._log_prob",
      *replace_expr("0.5 * (prob1 - prob2)", "0.5 * prob1 - prob2"),
      note="normalising constant not halved", expect_rule="C18.R1"),
    V("c18_logprob_sign", "M", M, f"{K}._log_prob",
      *replace_expr("self.rank * jnp.log(2 * jnp.pi) - self.log_pdet",
                    "self.rank * jnp.log(2 * jnp.pi) + self.log_pdet"),
      note="log-pdet enters with the wrong sign", expect_rule="C18.R1"),
    V("c18_rank_ge", "M", M, "_rank",
      *replace_expr("eigenvalues > tol", "eigenvalues > -tol"),
      note="zero eigenvalues counted", expect_rule="C18.R1"),
    V("c18_bound_zero", "M", C, "GaussianCopula.__init__",
      *replace_expr("dependence >= -1.0", "dependence >= 0.0"),
      note="negative dependence rejected under validate_args", expect_rule="C18.R3"),
    V("c18_bound_tight", "M", C, "GaussianCopula.__init__",
      *replace_expr("dependence <= 1.0", "dependence <= 0.99"),
      note="upper bound inside the support", expect_rule="C18.R3"),
    V("c18_tril22", "M", C, "GaussianCopula.__init__",
      *replace_expr("np.sqrt(1.0 - dependence ** 2)", "1.0 - dependence ** 2"),
      note="variance instead of standard deviation", expect_rule="C18.R4"),
    V("c18_ildj", "M", A, "AlgebraicSigmoid._inverse_log_det_jacobian",
      *replace_expr("-1.5 * np.log(1.0 - y ** 2)", "-0.5 * np.log(1.0 - y ** 2)"),
      note="wrong exponent", expect_rule="C18.R2"),
    V("c18_fldj_sign", "M", A, "AlgebraicSigmoid._forward_log_det_jacobian",
      *replace_expr("-1.5 * np.log(1.0 + x ** 2)", "1.5 * np.log(1.0 + x ** 2)"),
      note="sign", expect_rule="C18.R2"),
    V("c18_inverse", "M", A, "AlgebraicSigmoid._inverse",
      *replace_expr("y / np.sqrt(1.0 - y ** 2)", "y / np.sqrt(1.0 + y ** 2)"),
      note="inverse is not the inverse", expect_rule="C18.R2"),
    # ---- twins
    V("c18_t_power", "T", A, "AlgebraicSigmoid._forward",
      *replace_expr("x / np.sqrt(1.0 + x ** 2)", "x * (1.0 + x ** 2) ** (-0.5)"),
      note="power form"),
    V("c18_t_fldj_factor", "T", A, "AlgebraicSigmoid._forward_log_det_jacobian",
      *replace_expr("-1.5 * np.log(1.0 + x ** 2)", "-(3 / 2) * np.log(x ** 2 + 1.0)"),
      note="equivalent spelling"),
    V("c18_t_bounds_flip", "T", C, "GaussianCopula.__init__",
      *replace_expr("dependence >= -1.0", "-1.0 <= dependence"),
      note="flipped comparison"),
    V("c18_t_logprob", "T", M, f"{K}._log_prob",
      *replace_expr("0.5 * (prob1 - prob2)", "0.5 * prob1 - 0.5 * prob2"),
      note="distributed factor"),
]
