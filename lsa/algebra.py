"""
Term -> sympy translation for straight-line arithmetic (term-equivalence rules of
C11 and C18).  sympy is used as an algebraic *normaliser* only: no search over
inputs, no solver.  Anything that is not plain arithmetic raises Untranslatable and
the dependent obligation is reported as unproven.
"""

from __future__ import annotations

import sympy as sp

from .core.terms import fn_name


class Untranslatable(Exception):
    pass


FUNCS = {
    "sqrt": sp.sqrt, "log": sp.log, "exp": sp.exp, "abs": sp.Abs, "square": lambda x: x ** 2,
    "log1p": lambda x: sp.log(1 + x), "expm1": lambda x: sp.exp(x) - 1,
    "power": lambda a, b: a ** b, "reciprocal": lambda x: 1 / x,
}
PREFIXES = ("jax.numpy.", "numpy.", "math.", "jax.lax.")


def to_sympy(t, symbols: dict, leaf=None):
    """symbols: term -> sympy expression for leaves (parameters, attributes...)."""
    if t in symbols:
        return symbols[t]
    if leaf is not None:
        r = leaf(t)
        if r is not None:
            return r
    tag = t[0]
    if tag == "c":
        v = t[1]
        if isinstance(v, bool) or not isinstance(v, (int, float)):
            raise Untranslatable(t)
        if isinstance(v, float):
            return sp.nsimplify(v, rational=True)
        return sp.Integer(v)
    if tag == "op":
        a, b = to_sympy(t[2], symbols, leaf), to_sympy(t[3], symbols, leaf)
        o = t[1]
        if o == "+":
            return a + b
        if o == "-":
            return a - b
        if o == "*":
            return a * b
        if o == "/":
            return a / b
        if o == "**":
            return a ** b
        raise Untranslatable(t)
    if tag == "u" and t[1] == "-":
        return -to_sympy(t[2], symbols, leaf)
    if tag == "call":
        name = fn_name(t[1]) or ""
        for p in PREFIXES:
            if name.startswith(p):
                short = name[len(p):]
                if short in FUNCS and not t[3]:
                    return FUNCS[short](*[to_sympy(a, symbols, leaf) for a in t[2]])
        if name in ("float", "jax.numpy.asarray", "jax.numpy.float32") and len(t[2]) == 1:
            return to_sympy(t[2][0], symbols, leaf)
    if tag == "g" and t[1] in ("jax.numpy.pi", "numpy.pi", "math.pi"):
        return sp.pi
    if leaf is not None:
        r = leaf(t)
        if r is not None:
            return r
    raise Untranslatable(t)


def is_zero(expr) -> bool:
    e = sp.simplify(expr)
    if e == 0:
        return True
    e = sp.simplify(sp.powsimp(sp.expand_log(sp.powdenest(e, force=True), force=True),
                               force=True))
    if e == 0:
        return True
    e = sp.simplify(sp.radsimp(sp.together(e)))
    return e == 0
