"""
C01 -- model cache coherence (dirty-flag protocol of liesel/model).

Every site that implements one step of the protocol is checked; each is the only code
performing that step, so each obligation is a necessary condition of coherence for all
graphs and histories.
"""

from __future__ import annotations

import ast

from ..core.cfg import CFG, ENTRY, EXIT
from ..core.terms import (cmp_, not_, pc, phi_, c, evaluate, fn_name, kw, make_inliner, n, pretty, subterms)
from .common import LIB_FACTS, is_call, method, short

NODE = "liesel.model.nodes.Node"
TNODE = "liesel.model.nodes.TransientNode"
MODEL = "liesel.model.model.Model"
SELF = n("self")

# classes whose update() is a documented no-op
NOOP_UPDATE = {
    "liesel.model.nodes.Value": "strong value: never outdated, nothing to compute",
    "liesel.model.nodes.NoDist": "placeholder distribution, never part of a model",
}
CONFIG_FIELDS = {"function", "_function", "distribution", "_distribution", "per_obs",
                 "_per_obs", "inputs", "_inputs", "kwinputs", "_kwinputs", "at", "_at",
                 "init_dist", "name", "_name"}


def node_classes(repo):
    base = repo.cls(NODE)
    return [base] + repo.subclasses(base)


def check(ctx):
    repo = ctx.repo
    ctx.rule("R1", "update() of every caching node stores _value, then _outdated = False, "
                   "nothing else, and computes the value from declared inputs only.")
    ctx.rule("R2", "every node read by update()/value through a field other than "
                   "inputs/kwinputs is declared in all_input_nodes().")
    ctx.rule("R3", "transient nodes never cache: outdated is derived from the inputs, the "
                   "state carries no value, update() stores nothing, value is recomputed.")
    ctx.rule("R4", "assigning a value flags all recursive outputs before any sweep; only "
                   "Value cuts the recursion; auto-update triggers a full update.")
    ctx.rule("R5", "outputs are rebuilt as the exact inverse of all_input_nodes(); the "
                   "sweep order is a topological sort of that graph.")
    ctx.rule("R6", "Model.update sweeps self._sorted_nodes on every path, calling "
                   "node.update() iff node.outdated (targeted: and node in the recursive "
                   "inputs of *all* names).")
    ctx.rule("R8", "who-may-write: the cache fields _value / _outdated are written only by "
                   "the protocol sites, and node.update() is called only by the sweeps "
                   "(frozen table of sites, each with a reason).")
    ctx.rule("R7", "state getter/setter save and restore value and flag of every node.")
    ctx.trust(LIB_FACTS["toposort"])
    ctx.undecided("value equality with a from-scratch recomputation for arbitrary user "
                  "functions (depends on the purity of user code)",
                  "'at most once' under re-entrant user functions")

    classes = node_classes(repo)
    tnode = repo.cls(TNODE)
    transient = {ci.qualname for ci in [tnode] + repo.subclasses(tnode)}

    # ------------------------------------------------------------------ R1
    caching = 0
    for ci in classes:
        upd = ci.own_method("update")
        if upd is None or ci.qualname == NODE:
            continue
        if ci.qualname in transient:
            continue
        res = evaluate(repo, upd, inline=make_inliner(
            repo, self_class=ci, allow=lambda f: f.name in ("init_dist",)), inline_depth=2)
        self_stores = [(loc, val, node, cond) for loc, val, node, cond in res.stores
                       if loc[0] == "a" and loc[1] == SELF]
        other_stores = [(loc, val, node, cond) for loc, val, node, cond in res.stores
                        if not (loc[0] == "a" and loc[1] == SELF)]
        if ci.qualname in NOOP_UPDATE:
            ok = not res.stores and all(r[1] == SELF for r in res.returns)
            ctx.ob("C01.R1", upd, f"no-op update ({NOOP_UPDATE[ci.qualname]}) stores nothing "
                                  "and returns self", ok,
                   detail=f"{len(res.stores)} stores")
            continue
        caching += 1
        def once_per_path(sts):
            """stores on pairwise exclusive paths (if / else arms) are ONE store per path"""
            from ..domains.keys import exclusive
            if len(sts) > 1 and all(exclusive(a[3], b[3]) for i_, a in enumerate(sts)
                                    for b in sts[i_ + 1:]):
                common = set(sts[0][3])
                for s_ in sts[1:]:
                    common &= set(s_[3])
                vs = [s_[1] for s_ in sts]
                val = vs[0] if len(set(vs)) == 1 else ("tuple", tuple(vs))
                last = max(sts, key=lambda s_: res.stores.index(s_))
                merged = (sts[0][0], val, last[2], tuple(x for x in sts[0][3] if x in common))
                res.stores[res.stores.index(last)] = merged
                return [merged]
            return sts
        vals = once_per_path([s for s in self_stores if s[0][2] == "_value"])
        flags = once_per_path([s for s in self_stores if s[0][2] == "_outdated"])
        extra = [s for s in self_stores if s[0][2] not in ("_value", "_outdated")]
        ok_pair = len(vals) == 1 and len(flags) == 1
        ctx.ob("C01.R1", upd, "update() stores self._value and self._outdated exactly once",
               ok_pair, detail=f"{len(vals)} value stores, {len(flags)} flag stores",
               stmt=f"stores value={len(vals)} flag={len(flags)}")
        if ok_pair:
            iv = res.stores.index(vals[0])
            ifl = res.stores.index(flags[0])
            ctx.ob("C01.R1", upd, "the flag is cleared (set to False) after the value is "
                                  "stored", flags[0][1] == c(False) and iv < ifl,
                   detail=f"flag := {short(flags[0][1])}", node=flags[0][2],
                   stmt="flag " + pretty(flags[0][1]))
            # unconditional on every normal exit
            rets = res.returns
            ok_all = bool(rets)
            for rc, rt, rn in rets:
                ok_all = ok_all and set(vals[0][3]) <= set(rc) and set(flags[0][3]) <= set(rc)
            ctx.ob("C01.R1", upd, "value and flag are stored on every normal-exit path",
                   ok_all, detail=f"{len(rets)} return(s)")
            # provenance of the value
            reads = set()
            for x in subterms(vals[0][1]):
                if x[0] == "a" and x[1] == SELF:
                    reads.add(x[2])
            bad = sorted(r for r in reads if r not in CONFIG_FIELDS)
            ctx.ob("C01.R1", upd, "the cached value is computed from declared inputs "
                                  "(inputs, kwinputs, at) and the node's configuration only",
                   not bad, detail=f"reads self.{bad}" if bad else "",
                   stmt=f"reads {bad}", facts={"self_reads": sorted(reads)})
        ctx.ob("C01.R1", upd, "update() writes nothing else on self or on other nodes",
               not extra and not other_stores,
               detail=str([pretty(s[0]) for s in extra + other_stores]),
               stmt="extra stores " + str([pretty(s[0]) for s in extra + other_stores]))
    ctx.require_min("caching node classes with an update()", caching, 3)

    # ------------------------------------------------------------------ R2
    dist = repo.cls("liesel.model.nodes.Dist")
    ain = method(repo, dist, "all_input_nodes", own=True)
    ra = evaluate(repo, ain).ret()
    sup = ("call", ("a", ("call", ("n", "super"), (), ()), "all_input_nodes"), (), ())
    at = ("a", SELF, "at")
    ok = (ra is not None and ra[0] == "phi" and ra[1] == at
          and is_call(ra[2], "liesel.model.nodes._unique_tuple")
          and ra[2][2] in ((sup, ("list", (at,))), (sup, ("tuple", (at,)))) and ra[3] == sup)
    if not ok and ra is not None and is_call(ra, "liesel.model.nodes._unique_tuple") \
            and len(ra[2]) == 2 and ra[2][0] == sup:
        # the same set of edges with the choice inside the call:
        # _unique_tuple(inherited, [at] if at else [])
        x = ra[2][1]
        ok = (x[0] in ("phi", "ifexp") and x[1] == at
              and x[2] in (("list", (at,)), ("tuple", (at,)))
              and x[3][0] in ("list", "tuple") and x[3][1] == ())
    ctx.ob("C01.R2", ain, "Dist.all_input_nodes() = inherited inputs plus the evaluation "
                          "point `at` (when set), so `at` is an edge of the graph", ok,
           detail=short(ra or ()), stmt="Dist inputs " + pretty(ra or ())[:160])
    base = repo.cls(NODE)
    bin_ = method(repo, base, "all_input_nodes", own=True)
    rb = evaluate(repo, bin_).ret()
    ok = (rb is not None and is_call(rb, "liesel.model.nodes._unique_tuple")
          and rb[2] == (("a", SELF, "inputs"),
                        ("call", ("a", ("a", SELF, "kwinputs"), "values"), (), ())))
    ctx.ob("C01.R2", bin_, "Node.all_input_nodes() = inputs and kwinputs", ok,
           detail=short(rb or ()))
    # classes reading self.X.value for X not in inputs/kwinputs must declare X
    for ci in classes:
        for mname in ("update", "value"):
            fi = ci.own_method(mname, "getter" if mname == "value" else None)
            if fi is None:
                continue
            r = evaluate(repo, fi)
            fields = set()
            for t, _, _ in r.calls:
                pass
            for root in [x[1] for x in r.returns] + [s[1] for s in r.stores]:
                for x in subterms(root):
                    if x[0] == "a" and x[2] == "value" and x[1][0] == "a" and x[1][1] == SELF \
                            and x[1][2] not in ("inputs", "kwinputs"):
                        fields.add(x[1][2])
            for f in sorted(fields):
                decl = repo.lookup_method(ci, "all_input_nodes")
                rd = evaluate(repo, decl).ret() if decl else None
                ok = rd is not None and any(x == ("a", SELF, f) or x == ("a", SELF, "_" + f)
                                            for x in subterms(rd))
                ctx.ob("C01.R2", fi, f"self.{f}.value is read, so self.{f} is declared in "
                                     f"all_input_nodes()", ok,
                       detail=f"all_input_nodes of {ci.name}: {short(rd or ())}",
                       stmt=f"undeclared input {f}")

    # ------------------------------------------------------------------ R3
    od = method(repo, tnode, "outdated", "getter", own=True)
    ro = evaluate(repo, od)
    rets = [r for r in ro.returns]
    ok = False
    merged = ro.ret()
    if merged is not None and merged[0] == "phi" and merged[1] == ("a", SELF, "model") \
            and merged[3] == c(True):
        last = merged[2]
        ok = (is_call(last, "any") and last[2] and last[2][0][0] == "comp"
              and last[2][0][3][0][1] == ("call", ("a", SELF, "all_input_nodes"), (), ())
              and last[2][0][2] == ("a", ("iter", last[2][0][3][0][1]), "outdated"))
    ctx.ob("C01.R3", od, "TransientNode.outdated = any(input.outdated for input in "
                         "all_input_nodes()) (True outside a model) -- never a cached flag",
           ok, detail=str([short(r[1]) for r in rets]), stmt="transient outdated")
    sg = method(repo, tnode, "state", "getter", own=True)
    rs = evaluate(repo, sg).ret()
    ctx.ob("C01.R3", sg, "the state of a transient node carries no value",
           rs is not None and is_call(rs, "liesel.model.nodes.NodeState") and rs[2][0] == c(None)
           and rs[2][1] == ("a", SELF, "outdated"), detail=short(rs or ()))
    tu = method(repo, tnode, "update", own=True)
    ru = evaluate(repo, tu)
    ctx.ob("C01.R3", tu, "TransientNode.update() stores nothing", not ru.stores)
    n_tv = 0
    for q in sorted(transient):
        ci = repo.cls(q)
        vg = ci.own_method("value", "getter")
        if vg is None or "abstractmethod" in vg.decorators():
            continue
        n_tv += 1
        rv = evaluate(repo, vg)
        reads_cache = any(x == ("a", SELF, "_value") for r in rv.returns for x in subterms(r[1]))
        ctx.ob("C01.R3", vg, "the value of a transient node is recomputed from its inputs "
                             "(no read of the cache, no store)",
               not reads_cache and not rv.stores,
               detail="reads self._value" if reads_cache else f"{len(rv.stores)} stores")
    ctx.require_min("transient value getters", n_tv, 3)

    # ------------------------------------------------------------------ R4
    value_cls = repo.cls("liesel.model.nodes.Value")
    vs = method(repo, value_cls, "value", "setter", own=True)
    rv = evaluate(repo, vs)
    cfg = CFG(vs.node)
    st_val = [s for s in rv.stores if s[0] == ("a", SELF, "_value")]
    ctx.ob("C01.R4", vs, "the setter stores the new value", len(st_val) == 1
           and st_val[0][1] == n(vs.params()[1]) and not st_val[0][3])
    model_t = ("a", SELF, "model")
    flag_calls = [(t, nd, cond) for t, nd, cond in rv.calls
                  if t[1][0] == "a" and t[1][2] == "flag_outdated"]
    ok_flag = False
    if len(flag_calls) == 1:
        t, nd, cond = flag_calls[0]
        recv = t[1][1]
        atoms = [(a, p) for a, p in cond if a[0] != "inloop"]
        ok_flag = (recv == ("iter", ("a", SELF, "outputs")) and atoms == [(model_t, True)])
    ctx.ob("C01.R4", vs, "every direct output is flagged outdated whenever the node is "
                         "part of a model (unconditionally, for all outputs)", ok_flag,
           detail=str([(short(t), [pretty(a) for a, _ in cond]) for t, _, cond in flag_calls]),
           stmt="flag loop")
    upd_calls = [(t, nd, cond) for t, nd, cond in rv.calls
                 if t[1] == ("a", model_t, "update")]
    ok_upd = False
    if len(upd_calls) == 1:
        t, nd, cond = upd_calls[0]
        ok_upd = (not t[2] and not t[3]
                  and [(a, p) for a, p in cond] == [(model_t, True),
                                                    (("a", model_t, "auto_update"), True)])
        if flag_calls:
            ok_upd = ok_upd and flag_calls[0][1].lineno < nd.lineno
    others = [t for t, _, _ in rv.calls if t[1][0] == "a" and t[1][1] == model_t
              and t[1][2] != "update"]
    ctx.ob("C01.R4", vs, "with auto-update on, the assignment triggers a FULL model.update() "
                         "after flagging (so outdated nodes left by earlier manual-mode "
                         "assignments are refreshed too)", ok_upd and not others,
           detail=str([short(t) for t, _, _ in upd_calls] + [short(t) for t in others]),
           stmt="auto-update sweep " + str([pretty(t)[:60] for t, _, _ in upd_calls]
                                           + [pretty(t)[:60] for t in others]))
    # the switch itself: a model starts with auto-update ON, the property reads the field
    # the constructor / setter write, and the setter stores what it is given
    mc_ = repo.cls("liesel.model.model.Model")
    mi_ = method(repo, mc_, "__init__", own=True)
    au0 = [val for loc, val, _, _ in evaluate(repo, mi_).stores
           if loc == ("a", n("self"), "_auto_update")]
    aug = mc_.own_method("auto_update", "getter") or mc_.own_method("auto_update")
    aus = mc_.own_method("auto_update", "setter")
    rg_ = evaluate(repo, aug).ret() if aug is not None else None
    ss_ = [(loc, val) for loc, val, _, cond in evaluate(repo, aus).stores] if aus is not None else []
    ctx.ob("C01.R4", mi_, "a new model has auto-update switched on; Model.auto_update reads and "
                          "writes that one field", au0 == [c(True)]
           and rg_ == ("a", n("self"), "_auto_update") and aus is not None
           and ss_ == [(("a", n("self"), "_auto_update"), n(aus.pos_params()[1]))],
           detail=f"initial {[short(v, 30) for v in au0]}; getter {short(rg_ or ())}; "
                  f"setter {[(pretty(l), pretty(v)) for l, v in ss_]}",
           stmt="auto_update switch")
    base_flag = method(repo, base, "flag_outdated", own=True)
    rf = evaluate(repo, base_flag)
    st = [s for s in rf.stores if s[0] == ("a", SELF, "_outdated")]
    rec = [(t, cond) for t, _, cond in rf.calls if t[1][0] == "a" and t[1][2] == "flag_outdated"]
    ok = (len(st) == 1 and st[0][1] == c(True) and not st[0][3] and len(rec) == 1
          and rec[0][0][1][1] == ("iter", ("a", SELF, "_outputs"))
          and all(a[0] == "inloop" for a, _ in rec[0][1]))
    ctx.ob("C01.R4", base_flag, "flag_outdated sets the flag and recurses into ALL outputs",
           ok, detail=str([short(t) for t, _ in rec]), stmt="flag recursion")
    cutters = [ci.qualname for ci in classes if ci.own_method("flag_outdated")
               and ci.qualname != NODE]
    ctx.ob("C01.R4", value_cls, "only Value overrides flag_outdated (strong values stop the "
                                "propagation)", cutters == ["liesel.model.nodes.Value"],
           detail=str(cutters))
    outd = method(repo, base, "outdated", "getter", own=True)
    rod = evaluate(repo, outd)
    # (as a function: the flag inside a model, True outside -- however the branch is written)
    ok = rod.ret() == ("phi", ("a", SELF, "model"), ("a", SELF, "_outdated"), c(True))
    ctx.ob("C01.R4", outd, "Node.outdated reports the cached flag (True outside a model)", ok)

    # ------------------------------------------------------------------ R5
    mc, sn = wiring_obligations(ctx, "C01.R5")

    # ------------------------------------------------------------------ R6
    upd = method(repo, mc, "update")
    ru = evaluate(repo, upd)
    ucfg = CFG(upd.node)
    def _sweeps(loop):
        return any(isinstance(x, ast.Call) and isinstance(x.func, ast.Attribute)
                   and x.func.attr == "update" and not x.args and not x.keywords
                   for x in ast.walk(loop))
    loops = [s for s in ucfg.stmts if isinstance(s, ast.For)
             and (ast.unparse(s.iter) == "self._sorted_nodes" or _sweeps(s))]
    sorted_t = ("a", SELF, "_sorted_nodes")
    node_t = ("iter", sorted_t)
    # the two modes of update() -- all nodes / the inputs of the named targets -- are read
    # off the evaluated calls with `names` resolved, however the branches are arranged
    # (two loops under an if, one loop with a guard, one loop over a filtered collection)
    mode_all, mode_named = sweep_mode(ru, False), sweep_mode(ru, True)
    ctx.ob("C01.R6", upd, "every path through Model.update() runs a sweep over "
                          "self._sorted_nodes (no early exit that leaves nodes outdated)",
           len(loops) >= 1 and ucfg.must_pass_through(ENTRY, EXIT, loops)
           and len(mode_all) == 1 and len(mode_named) == 1
           and mode_all[0][0] == sorted_t and mode_named[0][0] == sorted_t,
           detail=f"{len(loops)} sweeps, collections "
                  f"{[short(x[0]) for x in mode_all + mode_named]}",
           stmt="sweep on every path")
    ctx.paths += ucfg.paths_count(1000)
    outd_atom = (("a", node_t, "outdated"), True)
    ok_full = len(mode_all) == 1 and mode_all[0][1] == {outd_atom}
    ctx.ob("C01.R6", upd, "full update: node.update() iff node.outdated, for every node in "
                          "topological order", ok_full,
           detail=str([[pretty(a)[:80] + "=" + str(p) for a, p in x[1]] for x in mode_all]),
           stmt="full sweep guard")
    ok_t = False
    inputs_term = None
    if len(mode_named) == 1:
        at_ = mode_named[0][1]
        mem = [a for a, p in at_ if a[0] == "cmp" and a[1] == "in" and a[2] == node_t and p]
        if len(mem) == 1 and outd_atom in at_ and len(at_) == 2:
            inputs_term = mem[0][3]
            ok_t = True
    ctx.ob("C01.R6", upd, "targeted update: node.update() iff node is a recursive input of "
                          "a target and node.outdated", ok_t,
           detail=str([[pretty(a)[:80] + "=" + str(p) for a, p in x[1]] for x in mode_named]),
           stmt="targeted sweep guard")
    ok_u = False
    if inputs_term is not None:
        # set().union(*(self._recursive_inputs(name) for name in names))
        comps = [x for x in subterms(inputs_term) if x[0] == "comp"]
        ok_u = (len(comps) == 1 and comps[0][3][0][1] == n("names")
                and comps[0][2] == ("call", ("a", SELF, "_recursive_inputs"),
                                    (("iter", n("names")),), ())
                and inputs_term[0] == "call" and inputs_term[1][0] == "a"
                and inputs_term[1][2] == "union"
                and inputs_term[1][1][0] == "set" and inputs_term[1][1][1] == ()
                and inputs_term[2] == (("star", comps[0]),))
    ctx.ob("C01.R6", upd, "the target set is the union of the recursive inputs of ALL "
                          "given names", ok_u, detail=short(inputs_term or ()),
           stmt="targets " + pretty(inputs_term or ())[:160])
    rin = method(repo, mc, "_recursive_inputs")
    rr = evaluate(repo, rin)
    lp = rr.loops[0] if rr.loops else None
    ok_r = False
    if lp is not None and len(rr.loops) == 1:
        ext = [t for t, _, _ in lp["calls"] if t[1][0] == "a" and t[1][2] == "extend"]
        app = [t for t, _, _ in lp["calls"] if t[1][0] == "a" and t[1][2] == "append"]
        pop = [t for t, _, _ in lp["calls"] if t[1][0] == "a" and t[1][2] == "pop"]
        recv = pop[0][1][1] if pop else ()
        while recv and recv[0] in ("carried", "loop", "mut"):
            recv = recv[2] if recv[0] in ("carried", "loop") else recv[1]
        start = recv
        ok_r = (len(ext) == 1 and len(pop) == 1 and len(app) == 1
                and ext[0][2] == (("call", ("a", pop[0], "all_input_nodes"), (), ()),)
                and app[0][2] == (pop[0],)
                and start == ("list", (("s", ("a", SELF, "_nodes"), n("name")),))
                and rr.ret() is not None and rr.ret()[0] in ("loop", "list", "n", "carried"))
        if ok_r:
            # a node is expanded and recorded exactly when it was not recorded before, and
            # the recorded list is what is returned
            seen_t = app[0][1][1]
            member = ("cmp", "in", pop[0], seen_t)
            conds_ = {tuple(cd) for t, _, cd in lp["calls"] if t in (ext[0], app[0])}
            ok_r = (len(conds_) == 1 and [(a, p_) for a, p_ in next(iter(conds_))
                                          if a[0] != "inloop"] == [(member, False)]
                    and seen_t[0] == "carried" and seen_t[2][0] == "list" and seen_t[2][1] == ()
                    and rr.ret() == ("loop", seen_t[1], ("phi", member, seen_t, (
                        "mut", seen_t, "append", (pop[0],), ()))))
    ctx.ob("C01.R6", rin, "_recursive_inputs is the worklist closure of the named node "
                          "under all_input_nodes() (including `at` of distributions), the "
                          "node itself included", ok_r,
           detail=short(rr.ret() or ()), stmt="recursive inputs closure")

    # ------------------------------------------------------------------ R8
    # who may write the cache fields / call node.update(): only the protocol sites
    node_quals = {ci.qualname for ci in classes}
    WRITE_OK = {
        # own-class protocol sites (self._value / self._outdated)
        "__init__", "update", "state", "value", "flag_outdated",
    }
    FOREIGN_OK = {
        "liesel.goose.interface.LieselInterface.update_state":
            "clears the flags right after overwriting the whole state (C03.R3)",
        "liesel.model.goose.GooseModel.update_state": "same (deprecated alias)",
        "liesel.model.goose.finite_discrete_gibbs_kernel.<locals>.transition_fn":
            "same, on the private model copy (C13.R2)",
    }
    UPDATE_CALLERS_OK = {
        "liesel.model.model.Model.update": "the topological sweep",
        "liesel.model.model.Model.__init__": "the initial sweep in sorted order",
        "liesel.model.nodes.Calc.__init__": "update_on_init of a node outside any model",
        "liesel.model.nodes.Var.update": "user API on a variable outside the sweep",
    }
    n_sites = 0
    for q, fi in sorted(repo.functions.items()):
        if not fi.module.name.startswith(("liesel.model", "liesel.goose")) \
                or isinstance(fi.node, ast.Lambda):
            continue
        for x in ast.walk(fi.node):
            if isinstance(x, (ast.FunctionDef, ast.Lambda)) and x is not fi.node:
                continue
        own_nodes = [x for x in _walk_own(fi.node)]
        for x in own_nodes:
            tgt = None
            if isinstance(x, ast.Assign):
                tgt = [t for t in x.targets]
            elif isinstance(x, (ast.AugAssign, ast.AnnAssign)):
                tgt = [x.target]
            for t in tgt or []:
                if isinstance(t, ast.Attribute) and t.attr in ("_value", "_outdated"):
                    n_sites += 1
                    on_self = isinstance(t.value, ast.Name) and t.value.id == "self"
                    # (a helper extracted from a tabled site writes on that site's behalf)
                    from .common import owners
                    own_q = owners(repo, fi)
                    if on_self:
                        okw = (fi.cls is not None and fi.cls.qualname in node_quals
                               and all(o.rsplit(".", 1)[-1] in WRITE_OK for o in own_q))
                        why = "a node class's own protocol method"
                    else:
                        okw = all(o in FOREIGN_OK for o in own_q)
                        why = "a tabled foreign writer"
                    ctx.ob("C01.R8", fi, f"the cache field {t.attr} is written only by the "
                                         f"dirty-flag protocol sites ({why}); any other write "
                                         f"bypasses flagging", okw,
                           detail=f"`{ast.unparse(x)[:80]}` in {fi.qualname}", node=x,
                           stmt=f"foreign cache write {ast.unparse(t)}", nontrivial=not okw)
            if isinstance(x, ast.Call) and isinstance(x.func, ast.Attribute) \
                    and x.func.attr == "update" and not x.args and not x.keywords:
                recv = ast.unparse(x.func.value)
                model_like = recv in ("self", "model", "self._model", "self.model", "gb") \
                    and not (fi.cls is not None and fi.cls.qualname in node_quals
                             and recv == "self")
                if recv == "self" and fi.cls is not None and fi.cls.qualname == MODEL:
                    model_like = True
                if model_like:
                    continue
                if fi.cls is not None and fi.cls.name in ("GraphBuilder", "DistRegBuilder") \
                        and recv == "self":
                    continue
                n_sites += 1
                from .common import owners
                okc = all(o in UPDATE_CALLERS_OK for o in owners(repo, fi))
                ctx.ob("C01.R8", fi, "node.update() is called only by the sweep sites "
                                     "(Model.update / Model.__init__ in topological order) "
                                     "and the two tabled user-level entry points", okc,
                       detail=f"`{ast.unparse(x)}` in {fi.qualname}", node=x,
                       stmt=f"foreign node update {ast.unparse(x)}", nontrivial=not okc)
    ctx.require_min("cache-field writes and node.update() call sites examined", n_sites, 15)

    # ------------------------------------------------------------------ R7
    ss = method(repo, base, "state", "setter", own=True)
    r1 = evaluate(repo, ss)
    st = {loc[2]: val for loc, val, _, cond in r1.stores if loc[1] == SELF and not cond}
    p = n(ss.params()[1])
    ctx.ob("C01.R7", ss, "Node.state setter restores value and flag from the given state",
           st == {"_value": ("a", p, "value"), "_outdated": ("a", p, "outdated")},
           detail=str({k: pretty(v) for k, v in st.items()}))
    sgt = method(repo, base, "state", "getter", own=True)
    rgt = evaluate(repo, sgt).ret()
    ctx.ob("C01.R7", sgt, "Node.state = (value, outdated)",
           rgt == ("call", ("g", "liesel.model.nodes.NodeState"),
                   (("a", SELF, "value"), ("a", SELF, "outdated")), ()), detail=short(rgt or ()))
    tss = method(repo, tnode, "state", "setter", own=True)
    r2 = evaluate(repo, tss)
    st2 = {loc[2]: val for loc, val, _, cond in r2.stores if loc[1] == SELF and not cond}
    p2 = n(tss.params()[1])
    ctx.ob("C01.R7", tss, "TransientNode.state setter restores value and flag",
           st2 == {"_value": ("a", p2, "value"), "_outdated": ("a", p2, "outdated")})
    ms = method(repo, mc, "state", "setter", own=True)
    r3 = evaluate(repo, ms)
    ok = False
    if len(r3.loops) == 1 and len(r3.stores) == 1:
        loc, val, _, _ = r3.stores[0]
        it = r3.loops[0]["iter"]
        ok = (it == ("call", ("a", n(ms.params()[1]), "items"), (), ())
              and loc == ("a", ("s", ("a", SELF, "_nodes"), ("proj", ("iter", it), 0)), "state")
              and val == ("proj", ("iter", it), 1))
    ctx.ob("C01.R7", ms, "Model.state setter applies every entry to the node of that name",
           ok)
    mg = method(repo, mc, "state", "getter", own=True)
    r4 = evaluate(repo, mg).ret()
    ok = (r4 is not None and r4[0] == "comp" and r4[1] == "dict"
          and r4[3][0][1] == ("call", ("a", ("a", SELF, "_nodes"), "items"), (), ())
          and r4[2][1] == ("a", ("proj", ("iter", r4[3][0][1]), 1), "state")
          and not r4[3][0][2])
    ctx.ob("C01.R7", mg, "Model.state reads the state of every node", ok, detail=short(r4 or ()))

    # ---- shared mechanisms: the neighbour's rules run as obligations of this property
    ctx.include("C03", "C01.R9", only=['C03.R1'])
    ctx.rule("R9", "shared mechanisms, run as obligations of this property: making an "
                   "interface / Goose model / Gibbs kernel from a model copies it through "
                   "backup -> clear -> deepcopy -> restore of the COMPLETE node states, so "
                   "pending outdated flags of the user's model survive (C03.R1).")


def _walk_own(fnode):
    """ast.walk without descending into nested function definitions."""
    stack = list(ast.iter_child_nodes(fnode))
    while stack:
        x = stack.pop()
        yield x
        if isinstance(x, (ast.FunctionDef, ast.AsyncFunctionDef, ast.Lambda, ast.ClassDef)):
            continue
        stack.extend(ast.iter_child_nodes(x))


def _nonnull(t) -> bool:
    """Terms that are certainly not None: fresh containers, displays, comprehensions and
    the result of set algebra on them."""
    if t[0] in ("set", "list", "tuple", "dict", "comp", "fresh"):
        return True
    if t[0] == "call" and t[1][0] == "a" and t[1][2] in ("union", "intersection", "copy"):
        return _nonnull(t[1][1])
    if t[0] == "call" and t[1] in (n("set"), n("list"), n("tuple"), n("frozenset")):
        return True
    return False


def _fold_none(t):
    if not isinstance(t, tuple) or not t:
        return t
    t = tuple(_fold_none(x) if isinstance(x, tuple) else x for x in t)
    if t[0] == "cmp" and t[1] == "is" and len(t) == 4 and c(None) in (t[2], t[3]):
        o = t[2] if t[3] == c(None) else t[3]
        if t[2] == t[3]:
            return c(True)
        if _nonnull(o):
            return c(False)
    return t


def _specialise(t, facts, truth=False):
    """Resolve joins whose condition is decided by `facts` (a fact is used where a truth
    value is asked for, never where the value itself flows), then fold None tests."""
    from .c13 import partial_eval

    def val(t):
        if not isinstance(t, tuple) or not t:
            return t
        if t[0] in ("phi", "ifexp") and len(t) == 4:
            cnd = tv(t[1])
            if cnd[0] == "c" and isinstance(cnd[1], bool):
                return val(t[2] if cnd[1] else t[3])
            return (t[0], cnd, val(t[2]), val(t[3]))
        if t[0] == "bool" or (t[0] == "u" and t[1] == "not"):
            return tv(t)
        return tuple(val(x) if isinstance(x, tuple) else x for x in t)

    def tv(t):
        if t in facts:
            return c(facts[t])
        if t[0] == "u" and t[1] == "not":
            return not_(tv(t[2]))
        if t[0] == "bool":
            return ("bool", t[1], tuple(tv(x) for x in t[2]))
        return val(t)

    return partial_eval(_fold_none(tv(t) if truth else val(t)), {})


def sweep_mode(ru, with_names: bool):
    """The node.update() calls of Model.update() in one of its two modes (`names` given or
    not), as (iterated collection, residual guard atoms): joins on `names` are resolved,
    None tests of the resolved values folded, and a sweep over a filtered generator of X is
    a sweep over X under the filter."""
    facts = {n("names"): with_names}
    out = []
    for t, _, cond in ru.calls:
        if not (t[1][0] == "a" and t[1][2] == "update" and t[2] == () and t[3] == ()):
            continue
        recv = _specialise(t[1][1], facts)
        if recv[0] != "iter":
            continue
        coll, extra, sub = recv[1], [], None
        if (coll[0] == "comp" and len(coll[3]) == 1 and coll[2] == ("iter", coll[3][0][1])):
            # (node for node in X if f(node)): elements of X that pass the filters
            sub = (recv, coll[2])
            extra = [(f_, True) for f_ in coll[3][0][2]]
            coll = coll[3][0][1]
        atoms, dead = set(), False
        for a, pol in list(cond) + extra:
            a = _specialise(a, facts, truth=True)
            if sub is not None:
                a = _replace(a, sub[0], sub[1])
            for a_, p_ in _atoms(((a, pol),)):
                if a_[0] == "bool":
                    # a false conjunction / true disjunction with one undecided member
                    rest = [x for x in a_[2] if x[0] != "c"]
                    if len(rest) == 1 and all(
                            x[1] == (a_[1] == "and") for x in a_[2] if x[0] == "c"):
                        (a_, p_), = _atoms(((rest[0], p_),)) if len(
                            _atoms(((rest[0], p_),))) == 1 else ((a_, p_),)
                if a_[0] == "c" and isinstance(a_[1], bool):
                    dead = dead or (a_[1] != p_)
                    continue
                if a_[0] == "inloop" or a_ == n("names"):
                    continue
                atoms.add((a_, p_))
        if not dead:
            out.append((coll, frozenset(atoms)))
    return out


def _replace(t, old, new):
    if t == old:
        return new
    if not isinstance(t, tuple):
        return t
    return tuple(_replace(x, old, new) if isinstance(x, tuple) else x for x in t)


def _atoms(cond):
    out = set()

    def add(t, pol):
        if t[0] == "bool" and ((t[1] == "and" and pol) or (t[1] == "or" and not pol)):
            for x in t[2]:
                add(x, pol)
        elif t[0] == "u" and t[1] == "not":
            add(t[2], not pol)
        else:
            out.add((t, pol))

    for t, pol in cond:
        add(t, pol)
    return out


def _different_loops(fnode, call_a, call_b) -> bool:
    def enclosing_loops(target):
        out = []

        def walk(node, stack):
            for ch in ast.iter_child_nodes(node):
                if ch is target:
                    out.extend(stack)
                    return True
                ns = stack + [ch] if isinstance(ch, (ast.For, ast.While)) else stack
                if walk(ch, ns):
                    return True
            return False
        walk(fnode, [])
        return out
    la, lb = enclosing_loops(call_a), enclosing_loops(call_b)
    return bool(la) and bool(lb) and la[0] is not lb[0]


def wiring_obligations(ctx, rule):
    """Outputs are the inverse of inputs; the sweep order is topological (shared with
    C15.R4)."""
    repo = ctx.repo
    base = repo.cls(NODE)
    mc = repo.cls(MODEL)
    init = method(repo, mc, "__init__")
    ri = evaluate(repo, init)
    calls = ri.calls
    heap0 = {loc[2]: val for loc, val, _, _ in ri.stores if loc[0] == "a" and loc[1] == SELF}
    claim_first = None
    # reads of self._nodes after the constructor stored it see the stored term
    nodes_t = ("call", ("a", ri.env.heap.get(("a", SELF, "_nodes"), ("a", SELF, "_nodes")),
                        "values"), (), ())

    def idx_of(pred):
        return [i for i, (t, _, _) in enumerate(calls) if pred(t)]

    i_clear = idx_of(lambda t: t[1][0] == "a" and t[1][2] == "_clear_outputs"
                     and t[1][1] == ("iter", nodes_t))
    i_set = idx_of(lambda t: t[1][0] == "a" and t[1][2] == "_set_model"
                   and t[1][1] == ("iter", nodes_t))
    inp_it = ("call", ("a", ("iter", nodes_t), "all_input_nodes"), (), ())
    i_add = idx_of(lambda t: t[1][0] == "a" and t[1][2] == "_add_output"
                   and t[1][1] == ("iter", inp_it) and t[2] == (("iter", nodes_t),))
    ok = (len(i_clear) == 1 and len(i_add) == 1 and i_clear[0] < i_add[0]
          and len(i_set) == 1 and i_set[0] < i_add[0])
    # the clear loop must be a separate, earlier loop (all cleared before any add)
    if ok:
        ok = calls[i_clear[0]][1].lineno < calls[i_add[0]][1].lineno and \
            _different_loops(init.node, calls[i_clear[0]][1], calls[i_add[0]][1])
    # a node is CLAIMED (_set_model raises for a node of another model) before anything
    # of it is edited: a rejected build must leave the other model's nodes untouched
    claim_first = (len(i_set) == 1 and len(i_clear) == 1 and i_set[0] < i_clear[0])
    ctx.ob(rule, init, "each node is claimed with _set_model() before its outputs are "
                       "cleared, so a build that is rejected because a node belongs to "
                       "another model leaves that node (and the other model) unchanged",
           claim_first, detail=f"set_model@{i_set} clear@{i_clear}", stmt="claim before edit")
    # ... and nothing in the constructor RELEASES nodes (on a rejected build the ones it
    # did not claim belong to the other, live model)
    rel = [(t, nd) for t, nd, _ in calls if t[0] == "call" and t[1][0] == "a"
           and t[1][2] in ("_unset_model", "_unset_var")]
    ctx.ob(rule, init, "the constructor never releases a node (no _unset_model in any of its "
                       "paths, error handlers included): a rejected build cannot unfreeze the "
                       "nodes of the model it collided with", not rel,
           detail="; ".join(short(t, 60) for t, _ in rel[:2]), node=rel[0][1] if rel else None,
           stmt="constructor releases nodes " + "; ".join(pretty(t)[:50] for t, _ in rel[:2]))
    ctx.ob(rule, init, "all outputs are cleared (and the model registered) for every "
                           "node before input._add_output(node) is called for every input "
                           "of every node", ok,
           detail=f"clear@{i_clear} set_model@{i_set} add@{i_add}", stmt="output wiring")
    # the primitives the wiring is made of
    prim = {}
    for mname in ("_add_output", "_clear_outputs", "_unset_model", "_set_model"):
        pf = method(repo, base, mname, own=True)
        prim[mname] = (pf, evaluate(repo, pf))
    pf, pr = prim["_add_output"]
    outp = ("a", SELF, "_outputs")
    sts = [(loc, val) for loc, val, _, cond in pr.stores if not cond]
    p0 = n([a for a in pf.params() if a != "self"][0])
    ok_add = (sts in ([(outp, ("call", ("g", "liesel.model.nodes._unique_tuple"),
                              (outp, (kind_, (p0,))), ()))] for kind_ in ("list", "tuple"))
              or sts == [(outp, ("op", "+", outp, ("tuple", (p0,))))])
    ctx.ob(rule, pf, "_add_output appends the given node to this node's outputs (keeping "
                     "what is there, no duplicates)", ok_add,
           detail=str([(pretty(l_), short(v, 80)) for l_, v in sts]), stmt="_add_output body")
    pf, pr = prim["_clear_outputs"]
    sts = [(loc, val) for loc, val, _, cond in pr.stores if not cond]
    ctx.ob(rule, pf, "_clear_outputs empties this node's outputs",
           sts == [(outp, ("tuple", ()))], detail=str([(pretty(l_), short(v)) for l_, v in sts]),
           stmt="_clear_outputs body")
    rutf = repo.func("liesel.model.nodes._unique_tuple")
    rut = evaluate(repo, rutf).ret()
    ok_ut = (rut is not None and is_call(rut, "tuple") and len(rut[2]) == 1
             and rut[2][0] == ("call", ("a", n("dict"), "fromkeys"),
                               (("call", ("g", "itertools.chain"), (("star", n("args")),), ()),),
                               ()))
    ctx.ob(rule, rutf, "_unique_tuple keeps the first occurrence of every element, in order "
                       "(dict.fromkeys over the chained arguments)", ok_ut,
           detail=short(rut or (), 120), stmt="_unique_tuple body")
    heap = {loc[2]: val for loc, val, _, _ in ri.stores if loc[0] == "a" and loc[1] == SELF}
    ng = heap.get("_node_graph")
    sn = heap.get("_sorted_nodes")
    ok = (ng == ("call", ("a", SELF, "_build_node_graph"), (nodes_t,), ())
          and sn == ("call", ("n", "list"),
                     (("call", ("g", "networkx.topological_sort"), (ng,), ()),), ()))
    ctx.ob(rule, init, "_sorted_nodes = list(topological_sort(node graph of all nodes))",
           ok, detail=short(sn or ()), stmt="sorted nodes " + pretty(sn or ())[:120])
    # the node graph must reach topological_sort as built: no call that receives it
    # may edit it (a shared graph object re-wired for another purpose changes the
    # sweep order)
    if ng is not None:
        GRAPH_MUT = {"add_edge", "remove_edge", "add_node", "remove_node", "add_edges_from",
                     "remove_edges_from", "add_nodes_from", "remove_nodes_from", "clear",
                     "clear_edges", "update", "add_weighted_edges_from", "__setitem__"}
        ng_alias = (ng, ("a", SELF, "_node_graph"))
        for t, nd, cond in calls:
            if t[0] != "call":
                continue
            args = list(t[2]) + [v for _, v in t[3]]
            recv = t[1][1] if t[1][0] == "a" else None
            if recv in ng_alias and t[1][2] in GRAPH_MUT:
                ctx.ob(rule, init, "the node graph is not edited after it was built", False,
                       detail=short(t), node=nd, stmt="node graph edited: " + pretty(t)[:100])
                continue
            if not any(a in ng_alias for a in args):
                continue
            name = fn_name(t[1]) or ""
            if name.startswith("networkx."):
                ok_c = name.rsplit(".", 1)[-1] in (
                    "topological_sort", "is_directed_acyclic_graph", "find_cycle",
                    "lexicographical_topological_sort", "topological_generations",
                    "DiGraph", "simple_cycles")
                ctx.ob(rule, init, f"{name} reads the node graph without editing it", ok_c,
                       unproven=True, node=nd, stmt="node graph passed to " + name,
                       nontrivial=False)
                continue
            callee = None
            if t[1][0] == "a" and t[1][1] == SELF:
                callee = repo.lookup_method(mc, t[1][2])
            elif name in repo.functions:
                callee = repo.functions[name]
            if callee is None:
                ctx.ob(rule, init, "the node graph is handed only to functions that are known "
                                   "not to edit it", False, unproven=True, detail=short(t),
                       node=nd, stmt="node graph passed to " + pretty(t[1])[:80])
                continue
            rcal = evaluate(repo, callee)
            params = [p for p in callee.params() if p not in ("self", "cls")]
            pos = [i for i, a in enumerate(t[2]) if a in ng_alias]
            pnames = {params[i] for i in pos if i < len(params)} | {
                k for k, v in t[3] if v in ng_alias}
            edits = [ct for ct, _, _ in rcal.calls if ct[0] == "call" and ct[1][0] == "a"
                     and ct[1][2] in GRAPH_MUT and ct[1][1][0] == "n" and ct[1][1][1] in pnames]
            ctx.ob(rule, init, f"{callee.qualname} does not edit the node graph it is given",
                   not edits, detail="; ".join(short(e, 80) for e in edits[:3]), node=nd,
                   stmt="node graph edited by " + callee.name)
    bng = method(repo, mc, "_build_node_graph")
    rg = evaluate(repo, bng)
    ext = [t for t, _, _ in rg.calls if t[1][0] == "a" and t[1][2] == "extend"]
    ok = False
    node_t = ("iter", n("nodes"))
    src = ("call", ("a", node_t, "all_input_nodes"), (), ())
    if len(ext) == 1 and ext[0][2] and ext[0][2][0][0] == "comp":
        comp = ext[0][2][0]
        ok = comp[3][0][1] == src and comp[2] == ("tuple", (("iter", src), node_t))
    elif not ext:
        # the loop + extend(comprehension) in its normal form: one comprehension over
        # (node, input) pairs
        edges_t = [x for x in subterms(rg.ret() or ()) if x[0] == "comp" and x[1] == "list"
                   and len(x[3]) == 2]
        ok = (len(edges_t) >= 1 and edges_t[0][3][0][1] == n("nodes")
              and edges_t[0][3][1][1] == src and not edges_t[0][3][0][2]
              and not edges_t[0][3][1][2]
              and edges_t[0][2] == ("tuple", (("iter", src), node_t)))
    ctx.ob(rule, bng, "graph edges are (input, node) for every input in "
                          "node.all_input_nodes() -- the same relation as the outputs", ok,
           detail=short(ext[0]) if ext else "", stmt="graph edges")
    removers = [t for t, _, _ in rg.calls if t[0] == "call" and t[1][0] == "a"
                and (t[1][2].startswith(("remove", "clear", "pop")) or t[1][2] in ("discard",))]
    rt_g = rg.ret()
    built = rt_g is not None and any(is_call(x, "networkx.DiGraph") for x in subterms(rt_g))
    ctx.ob(rule, bng, "the node graph is built from the edge list and nothing is removed "
                      "from it", built and not removers,
           detail="; ".join(short(t, 80) for t in removers[:2]) or short(rt_g or ()),
           stmt="graph pruned " + (pretty(removers[0])[:80] if removers else ""))
    sweep = [t for t, _, cond in calls if t[1][0] == "a" and t[1][2] == "update"
             and t[1][1] == ("iter", sn if sn else ())]
    ctx.ob(rule, init, "the initial sweep updates every node in sorted order",
           len(sweep) == 1, detail=f"{len(sweep)} sweep call(s)")

    return mc, sn
