"""
Reproduction of known findings KF-C15-1 / KF-C15-2 (run with /venv/bin/python).
A model with a seeded node (_needs_seed=True) cannot be rebuilt from the nodes
returned by pop_nodes_and_vars() / copy_nodes_and_vars(): the nodes keep the `seed`
input that build_model attached, which points at the old model's reserved
'_model_<name>_seed' node.  Exit status 1 = defect present.
"""
import sys

import jax

import liesel.model as lsl


def f(x, seed):
    return x + jax.random.normal(seed)


def build():
    noisy = lsl.Calc(f, lsl.Value(1.0, _name="x"), _name="noisy", _needs_seed=True)
    return lsl.GraphBuilder().add(noisy).build_model()


bad = 0
for how in ("pop_nodes_and_vars", "copy_nodes_and_vars"):
    model = build()
    nodes, vars_ = getattr(model, how)()
    try:
        lsl.GraphBuilder().add(*nodes.values(), *vars_.values()).build_model()
        print(how, "-> rebuild ok")
    except RuntimeError as e:
        bad += 1
        print(how, "-> rebuild FAILED:", e)
sys.exit(1 if bad else 0)
