"""
Branch-definite assignment of local variables on the statement CFG.

A *must* dataflow analysis: at every use of a local name, the name must have been
assigned on every path from the function entry.  One refinement removes the
classic false report of path-insensitive checkers (``nodes.py`` Var.transform,
flagged by mypy's possibly-undefined): guard correlation for unmodified boolean
locals -- a name assigned only under ``if g:`` counts as assigned wherever ``g``
is known to be true again (``if g: use(x)``, ``g and use(x)``), as long as ``g``
was not re-assigned in between.
"""

from __future__ import annotations

import ast

from ..core.cfg import CFG, ENTRY, EXIT, RAISE, walk_shallow


def _targets(t, out):
    if isinstance(t, ast.Name):
        out.append(t.id)
    elif isinstance(t, (ast.Tuple, ast.List)):
        for x in t.elts:
            _targets(x, out)
    elif isinstance(t, ast.Starred):
        _targets(t.value, out)


def stmt_defs(st) -> list[str]:
    out: list[str] = []
    if isinstance(st, ast.Assign):
        for t in st.targets:
            _targets(t, out)
    elif isinstance(st, ast.AnnAssign):
        if st.value is not None:
            _targets(st.target, out)
    elif isinstance(st, ast.AugAssign):
        _targets(st.target, out)
    elif isinstance(st, (ast.For, ast.AsyncFor)):
        pass  # the target is bound on the 'iter' edge, see below
    elif isinstance(st, (ast.With, ast.AsyncWith)):
        for i in st.items:
            if i.optional_vars is not None:
                _targets(i.optional_vars, out)
    elif isinstance(st, (ast.Import, ast.ImportFrom)):
        for a in st.names:
            out.append((a.asname or a.name).split(".")[0])
    elif isinstance(st, (ast.FunctionDef, ast.AsyncFunctionDef, ast.ClassDef)):
        out.append(st.name)
    elif isinstance(st, ast.ExceptHandler):
        if st.name:
            out.append(st.name)
    elif isinstance(st, ast.Match):
        for case in st.cases:
            for x in ast.walk(case.pattern):
                if isinstance(x, (ast.MatchAs, ast.MatchStar)) and x.name:
                    out.append(x.name)
                if isinstance(x, ast.MatchMapping) and x.rest:
                    out.append(x.rest)
    # walrus anywhere in the statement's own expressions
    for e in _own_exprs(st):
        for x in walk_shallow(e):
            if isinstance(x, ast.NamedExpr):
                _targets(x.target, out)
    return out


def _own_exprs(st):
    if isinstance(st, (ast.If, ast.While)):
        return [st.test]
    if isinstance(st, (ast.For, ast.AsyncFor)):
        return [st.iter]
    if isinstance(st, (ast.With, ast.AsyncWith)):
        return [i.context_expr for i in st.items]
    if isinstance(st, ast.Try):
        return []
    if isinstance(st, ast.ExceptHandler):
        return [st.type] if st.type is not None else []
    if isinstance(st, ast.Match):
        return [st.subject]
    if isinstance(st, (ast.FunctionDef, ast.AsyncFunctionDef)):
        return list(st.decorator_list) + [d for d in st.args.defaults] + [
            d for d in st.args.kw_defaults if d is not None]
    if isinstance(st, ast.ClassDef):
        return list(st.decorator_list) + list(st.bases)
    if isinstance(st, ast.Assign):
        return [st.value] + [t for t in st.targets if not isinstance(t, ast.Name)]
    if isinstance(st, ast.AnnAssign):
        return ([st.value] if st.value is not None else []) + (
            [st.target] if not isinstance(st.target, ast.Name) else [])
    if isinstance(st, ast.AugAssign):
        return [st.value, st.target]
    return [st]


def _uses(e, guards=()):
    """Yield (name, node, guards) for Name loads in expression e; ``guards`` are the
    (name, polarity) facts established by short-circuit evaluation."""
    if isinstance(e, ast.BoolOp):
        g = list(guards)
        for v in e.values:
            yield from _uses(v, tuple(g))
            lit = _guard_literal(v)
            if lit is not None:
                g.append(lit if isinstance(e.op, ast.And) else (lit[0], not lit[1]))
        return
    if isinstance(e, ast.IfExp):
        yield from _uses(e.test, guards)
        lit = _guard_literal(e.test)
        yield from _uses(e.body, guards + ((lit,) if lit else ()))
        yield from _uses(e.orelse, guards + (((lit[0], not lit[1]),) if lit else ()))
        return
    if isinstance(e, ast.Name):
        if isinstance(e.ctx, ast.Load):
            yield e.id, e, guards
        return
    if isinstance(e, (ast.Lambda, ast.FunctionDef, ast.AsyncFunctionDef, ast.ClassDef)):
        return
    if isinstance(e, (ast.ListComp, ast.SetComp, ast.GeneratorExp, ast.DictComp)):
        # own scope: only the first iterable is evaluated in the enclosing scope
        bound: list[str] = []
        for gen in e.generators:
            _targets(gen.target, bound)
        first = True
        for gen in e.generators:
            for nm, node, gs in _uses(gen.iter, guards):
                if first or nm not in bound:
                    yield nm, node, gs
            first = False
            for cond in gen.ifs:
                for nm, node, gs in _uses(cond, guards):
                    if nm not in bound:
                        yield nm, node, gs
        elts = [e.key, e.value] if isinstance(e, ast.DictComp) else [e.elt]
        for x in elts:
            for nm, node, gs in _uses(x, guards):
                if nm not in bound:
                    yield nm, node, gs
        return
    for ch in ast.iter_child_nodes(e):
        yield from _uses(ch, guards)


def _guard_literal(e):
    if isinstance(e, ast.Name):
        return (e.id, True)
    if isinstance(e, ast.UnaryOp) and isinstance(e.op, ast.Not) and isinstance(
            e.operand, ast.Name):
        return (e.operand.id, False)
    return None


def analyse_function(fnode: ast.FunctionDef):
    """Returns list of (name, node) uses that may be unbound."""
    a = fnode.args
    params = {x.arg for x in a.posonlyargs + a.args + a.kwonlyargs}
    if a.vararg:
        params.add(a.vararg.arg)
    if a.kwarg:
        params.add(a.kwarg.arg)
    cfg = CFG(fnode)
    # handlers are CFG nodes too
    nodes = list(cfg.g.nodes)
    local_names: set[str] = set()
    declared_global: set[str] = set()
    for st in nodes:
        if isinstance(st, ast.AST):
            local_names.update(stmt_defs(st))
            if isinstance(st, (ast.For, ast.AsyncFor)):
                t: list[str] = []
                _targets(st.target, t)
                local_names.update(t)
    for x in walk_shallow(fnode):
        if isinstance(x, (ast.Global, ast.Nonlocal)):
            declared_global.update(x.names)
    local_names -= declared_global
    local_names -= params
    if not local_names:
        return [], cfg

    TOP = None  # unreached
    IN: dict = {nd: TOP for nd in nodes}
    OUT: dict = {nd: TOP for nd in nodes}
    IN[ENTRY] = (frozenset(), frozenset())
    OUT[ENTRY] = IN[ENTRY]

    def meet(s1, s2):
        if s1 is TOP:
            return s2
        if s2 is TOP:
            return s1
        a1, c1 = s1
        a2, c2 = s2
        return (a1 & a2, c1 & c2)

    def transfer(st, state):
        assigned, conds = state
        defs = stmt_defs(st) if isinstance(st, ast.AST) else []
        if isinstance(st, ast.Delete):
            gone = []
            for t in st.targets:
                _targets(t, gone)
            assigned = assigned - frozenset(gone)
        if defs:
            assigned = assigned | frozenset(d for d in defs if d in local_names)
            # re-assigning a guard variable invalidates its conditional facts
            conds = frozenset(cf for cf in conds if cf[0] not in defs)
        return (assigned, conds)

    def edge_state(src, dst, label, out_state, in_state):
        state = in_state if label == "exc" else out_state
        if state is TOP:
            return TOP
        assigned, conds = state
        if isinstance(src, (ast.For, ast.AsyncFor)) and label == "iter":
            t: list[str] = []
            _targets(src.target, t)
            assigned = assigned | frozenset(x for x in t if x in local_names)
        if isinstance(src, (ast.If, ast.While)) and label in (True, False):
            lits = []

            def collect(e, pol):
                lit = _guard_literal(e)
                if lit is not None:
                    lits.append((lit[0], lit[1] == pol))
                elif isinstance(e, ast.BoolOp):
                    if (isinstance(e.op, ast.And) and pol) or (
                            isinstance(e.op, ast.Or) and not pol):
                        for v in e.values:
                            collect(v, pol)
                elif isinstance(e, ast.UnaryOp) and isinstance(e.op, ast.Not):
                    collect(e.operand, not pol)

            collect(src.test, label)
            for g, pol in lits:
                assigned = assigned | frozenset(nm for (gg, pp, nm) in conds
                                                if gg == g and pp == pol)
        return (assigned, conds)

    # conditional facts are created at the join after an ``if g:`` whose arms differ
    if_joins: dict = {}

    order = list(nx_topo(cfg))
    changed = True
    rounds = 0
    while changed and rounds < 50:
        changed = False
        rounds += 1
        for nd in order:
            if nd == ENTRY:
                continue
            state = TOP
            per_pred = []
            for pred in cfg.g.predecessors(nd):
                lab = cfg.g[pred][nd].get("label")
                labs = lab if isinstance(lab, tuple) else (lab,)
                for lb in labs:
                    s = edge_state(pred, nd, lb, OUT[pred], IN[pred])
                    per_pred.append((pred, lb, s))
                    state = meet(state, s)
            if state is not TOP:
                # guard correlation: names assigned on some but not all incoming
                # paths where the difference is explained by an ``if <name>:`` header
                extra = set()
                for pred, lb, s in per_pred:
                    if s is TOP:
                        continue
                    for nm in s[0] - state[0]:
                        g = _explaining_guard(cfg, nd, pred, nm, OUT, stmt_defs)
                        if g is not None:
                            extra.add((g[0], g[1], nm))
                if extra:
                    state = (state[0], state[1] | frozenset(extra))
            if state != IN[nd]:
                IN[nd] = state
                changed = True
            new_out = transfer(nd, state) if state is not TOP else TOP
            if new_out != OUT[nd]:
                OUT[nd] = new_out
                changed = True

    problems = []
    for nd in nodes:
        if not isinstance(nd, ast.AST) or IN[nd] is TOP:
            continue
        assigned, conds = IN[nd]
        for e in _own_exprs(nd):
            if e is None:
                continue
            for nm, node, guards in _uses(e):
                if nm not in local_names or nm in assigned:
                    continue
                ok = False
                for g, pol in guards:
                    if (g, pol, nm) in conds:
                        ok = True
                if isinstance(nd, ast.AugAssign) and isinstance(nd.target, ast.Name) \
                        and nd.target.id == nm and nm in assigned:
                    ok = True
                if not ok:
                    problems.append((nm, node))
    return problems, cfg


def _explaining_guard(cfg, join, pred, name, OUT, stmt_defs_fn):
    """If ``name`` is assigned along the edge from ``pred`` because an enclosing
    ``if <g>:`` arm assigned it, and the other arm reaches ``join`` without an
    assignment, return (g, polarity)."""
    # find an If header that dominates join whose test is a simple guard literal
    for hdr in cfg.g.nodes:
        if not isinstance(hdr, ast.If):
            continue
        lit = _guard_literal(hdr.test)
        if lit is None:
            continue
        if not cfg.dominates(hdr, join):
            continue
        # name assigned in exactly one arm (syntactically) and the guard variable is
        # not assigned in either arm
        def assigns(stmts, nm):
            for s in stmts:
                for x in ast.walk(s):
                    if isinstance(x, ast.stmt) and nm in stmt_defs_fn(x):
                        return True
                    if isinstance(x, (ast.For, ast.AsyncFor)):
                        t: list[str] = []
                        _targets(x.target, t)
                        if nm in t:
                            return True
            return False
        in_body, in_else = assigns(hdr.body, name), assigns(hdr.orelse, name)
        g = lit[0]
        if assigns(hdr.body, g) or assigns(hdr.orelse, g):
            continue
        if in_body and not in_else:
            return (g, lit[1])
        if in_else and not in_body:
            return (g, not lit[1])
    return None


def nx_topo(cfg):
    """Reverse-postorder of the CFG from ENTRY (good iteration order)."""
    import networkx as nx
    order = list(nx.dfs_postorder_nodes(cfg.g, ENTRY))
    order.reverse()
    rest = [nd for nd in cfg.g.nodes if nd not in set(order)]
    return order + rest
