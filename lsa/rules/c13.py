"""
C13 -- the Gibbs kernels draw from the exact full conditional.

Decided: reader/writer agreement between the model wiring (DistRegBuilder.add_np_smooth,
MultivariateNormalDegenerate.from_penalty) and the conditional the tau2 kernel assumes
(frozen conjugacy table), and that the finite-discrete kernel's logits are the FULL model
log-probability of each outcome.
"""

from __future__ import annotations

import sympy as sp

from ..algebra import Untranslatable, is_zero, to_sympy
from ..core.terms import (cmp_, not_, pc, phi_, c, evaluate, fn_name, kw, n, pretty, substitute, subterms)
from .common import LIB_FACTS, is_call, method, short

DR = "liesel.model.distreg"
MVND = "liesel.distributions.mvn_degen.MultivariateNormalDegenerate"
SELF = n("self")


def partial_eval(t, facts: dict):
    """Simplify phi / ifexp / bool terms under known truth values of atoms."""
    if not isinstance(t, tuple) or not t:
        return t
    if t in facts:
        return ("c", facts[t])
    tag = t[0]
    if tag == "path":
        vals = []
        for a, pol in t[1]:
            v = partial_eval(a, facts)
            if v[0] == "c" and isinstance(v[1], bool):
                vals.append(v[1] == pol)
            else:
                vals.append(None)
        if any(v is False for v in vals):
            return ("c", False)
        if all(v is True for v in vals):
            return ("c", True)
        return t
    if tag in ("phi", "ifexp"):
        cnd = partial_eval(t[1], facts)
        if cnd[0] == "c" and isinstance(cnd[1], bool):
            return partial_eval(t[2] if cnd[1] else t[3], facts)
        a_, b_ = partial_eval(t[2], facts), partial_eval(t[3], facts)
        if a_ == b_:
            return a_
        return (tag, cnd, a_, b_)
    if tag == "bool":
        vals = [partial_eval(x, facts) for x in t[2]]
        known = [v[1] for v in vals if v[0] == "c" and isinstance(v[1], bool)]
        if t[1] == "or":
            if any(known):
                return ("c", True)
            if len(known) == len(vals):
                return ("c", False)
        else:
            if any(k is False for k in known):
                return ("c", False)
            if len(known) == len(vals):
                return ("c", True)
        return (tag, t[1], tuple(vals))
    if tag == "u" and t[1] == "not":
        v = partial_eval(t[2], facts)
        if v[0] == "c" and isinstance(v[1], bool):
            return ("c", not v[1])
        return (tag, t[1], v)
    out = tuple(partial_eval(x, facts) if isinstance(x, tuple) else x for x in t)
    # a record that a join had hidden from the evaluator: Rec(a, b)#0 is a
    if out[0] == "proj" and isinstance(out[2], int) and out[1][0] == "call" \
            and out[1][1][0] == "g" and not out[1][3] and out[2] < len(out[1][2]) \
            and out[1][1][1].rsplit(".", 1)[-1].lstrip("_")[:1].isupper() \
            and not any(a[0] == "star" for a in out[1][2]):
        return out[1][2][out[2]]
    return out


def check(ctx):
    repo = ctx.repo
    ctx.rule("R1", "tau2 kernel: IG(a + rank/2, b + beta'K beta/2) drawn as b / Gamma(a), "
                   "with a, b, rank, K, beta read from the group that add_np_smooth wires as "
                   "tau2 ~ InverseGamma(a, b), beta ~ MVN-degenerate(0, tau2, K, rank); the "
                   "supplied rank is the one the model's density uses.")
    ctx.rule("R2", "finite-discrete kernel: logits = full model log-probability after "
                   "assigning each outcome (state overwritten first), categorical draw, the "
                   "drawn outcome is returned under the variable's name.")
    ctx.trust(LIB_FACTS["gamma"])
    ctx.undecided("distributional exactness", "that tau2 has no other children in a user's "
                  "model (the kernel is built for DistRegBuilder models)")

    # ------------------------------------------------------------------ R4 the pipeline
    ctx.rule("R4", "the distributional-regression pipeline hands the engine, for every "
                   "group with a smoothing variance, the kernel the verified factory builds "
                   "for THAT group; no kernel closure reads a loop variable by reference.")
    from .common import late_binding_obligations
    dm = repo.func(f"{DR}.dist_reg_mcmc")
    rdm = evaluate(repo, dm)
    adds = [(t, pcs) for t, _nd, pcs in rdm.calls
            if t[1][0] == "a" and t[1][2] == "add_kernel" and t[2]]
    tau_adds = [(t, pcs) for t, pcs in adds if "'tau2'" in str(pcs) or "tau2" in pretty(t[2][0])]
    ok_tau = False
    detail = "no add_kernel call for the smoothing variances"
    for t, pcs in tau_adds:
        k = t[2][0]
        if is_call(k, f"{DR}.tau2_gibbs_kernel") and len(k[2]) == 1 and k[2][0][0] == "iter":
            grp_it = k[2][0]
            ok_tau = any(p[0] == ("cmp", "in", c("tau2"), grp_it) and p[1] for p in pcs)
            detail = f"{short(k)} under {pcs}"
        else:
            ok_tau = False
            detail = f"add_kernel receives {short(k, 200)}"
            break
    ctx.ob("C13.R4", dm, "every group that has a tau2 gets tau2_gibbs_kernel(<that group>) "
                         "-- the factory whose closure R1 verifies", ok_tau and len(tau_adds) == 1,
           unproven=True, detail=detail, stmt="tau2 kernels of the pipeline")
    late_binding_obligations(ctx, "C13.R4", [DR, "liesel.model.goose"],
                             "Gibbs kernels of the model package")

    # ------------------------------------------------------------------ R1 kernel side
    tk = repo.func(f"{DR}.tau2_gibbs_kernel")
    rk = evaluate(repo, tk)
    tr = tk.nested("transition")
    rt = evaluate(repo, tr, closure=rk.closure())
    ret = rt.ret()
    ms = n(tr.params()[1])
    grp = n("group")

    def vf(name):
        return ("call", ("a", grp, "value_from"), (ms, c(name)), ())
    pk = ("a", ("s", grp, c("tau2")), "name")
    ok_ret = ret is not None and ret[0] == "dict" and len(ret[1]) == 1 and ret[1][0][0] == pk
    ctx.ob("C13.R1", tr, "the kernel returns the draw under the tau2 variable's name",
           ok_ret, detail=short(ret or ()))
    if ok_ret:
        draw = ret[1][0][1]
        A, B, R, Q = sp.symbols("A B R Q", positive=True)
        G = sp.Symbol("G", positive=True)
        gam = [x for x in subterms(draw) if is_call(x, "jax.random.gamma")]
        ok_form = False
        detail = short(draw, 200)
        if len(gam) == 1:
            shape_t = kw(gam[0], "a", 1)
            key_t = kw(gam[0], "key", 0)
            quad = [x for x in subterms(draw) if x[0] == "op" and x[1] == "@"
                    and not any(y[0] == "op" and y[1] == "@" and y != x and x in subterms(y)
                                for y in subterms(draw))]

            def leaf(t):
                if t == vf("a"):
                    return A
                if t == vf("b"):
                    return B
                if t == vf("rank"):
                    return R
                if t == gam[0]:
                    return G
                if t[0] == "op" and t[1] == "@":
                    flat = []

                    def fl(x):
                        if x[0] == "op" and x[1] == "@":
                            fl(x[2])
                            fl(x[3])
                        else:
                            flat.append(x)
                    fl(t)
                    if flat == [vf("beta"), vf("K"), vf("beta")]:
                        return Q
                    return None
                if is_call(t, "jax.numpy.squeeze") and len(t[2]) == 1:
                    return to_sympy(t[2][0], {}, leaf)
                return None
            try:
                e_draw = to_sympy(draw, {}, leaf)
                e_shape = to_sympy(shape_t, {}, leaf)
                ok_form = (is_zero(e_draw - (B + Q / 2) / G) and is_zero(e_shape - (A + R / 2))
                           and key_t == n(tr.params()[0]))
                detail = f"draw = {e_draw}, Gamma shape = {e_shape}"
            except Untranslatable as ex:
                detail = f"untranslatable {short(ex.args[0])}"
        ctx.ob("C13.R1", tr, "draw = (b + beta' K beta / 2) / Gamma(a + rank / 2) with a, b, "
                             "rank, beta, K read from the current model state", ok_form,
               detail=detail, stmt="tau2 draw " + detail[:160])
    gk = rk.ret()
    ctx.ob("C13.R1", tk, "the kernel is registered for exactly the tau2 position key",
           gk is not None and is_call(gk, "liesel.goose.gibbs.GibbsKernel")
           and kw(gk, "position_keys", 0) == ("list", (pk,)), detail=short(gk or ()))
    # ------------------------------------------------------------------ R1 model side
    anp = repo.func(f"{DR}.DistRegBuilder.add_np_smooth")
    ra = evaluate(repo, anp)
    groups = [t for t, _, _ in ra.calls if is_call(t, "liesel.model.nodes.Group")]
    ok_g = False
    members = {}
    if len(groups) == 1:
        members = dict(groups[0][3])
        ok_g = {"a", "b", "rank", "K", "beta", "tau2"} <= set(members)
    ctx.ob("C13.R1", anp, "add_np_smooth registers the group members a, b, rank, K, beta, "
                          "tau2 that the kernel reads", ok_g, detail=str(sorted(members)),
           stmt=f"group members {sorted(members)}")
    if ok_g:
        tau2 = members["tau2"]
        beta = members["beta"]
        td = kw(tau2, "distribution", 1) if tau2[0] == "call" else None
        ok_t = (td is not None and is_call(td, "liesel.model.nodes.Dist")
                and td[2][0] == ("g", "tensorflow_probability.substrates.jax.distributions."
                                      "InverseGamma")
                and kw(td, "concentration") == members["a"] and kw(td, "scale") == members["b"])
        ctx.ob("C13.R1", anp, "tau2 ~ InverseGamma(concentration = a, scale = b) with the "
                              "group's a and b", ok_t, detail=short(td or (), 160),
               stmt="tau2 prior")
        bd = kw(beta, "distribution", 1) if beta[0] == "call" else None
        ok_b = (bd is not None and is_call(bd, "liesel.model.nodes.Dist")
                and bd[2][0] == ("g", f"{MVND}.from_penalty")
                and kw(bd, "loc") == c(0.0) and kw(bd, "var") == tau2
                and kw(bd, "pen") == members["K"] and kw(bd, "rank") == members["rank"])
        ctx.ob("C13.R1", anp, "beta ~ MVN-degenerate.from_penalty(loc = 0, var = tau2, pen = "
                              "K, rank = rank) with the group's tau2, K and rank (zero "
                              "location is what makes the quadratic form beta' K beta)",
               ok_b, detail=short(bd or (), 200), stmt="beta prior")
        rk_t = members["rank"]
        ok_r = (rk_t[0] == "call" and rk_t[2]
                and rk_t[2][0] == ("call", ("g", "numpy.linalg.matrix_rank"), (n("K"),), ()))
        ctx.ob("C13.R1", anp, "the group's rank is the matrix rank of the penalty K", ok_r,
               detail=short(rk_t, 100))
    # the density honours a supplied rank (so kernel and model use the same rank)
    fp = repo.func(f"{MVND}.from_penalty")
    rf = evaluate(repo, fp)
    rtf = rf.ret()
    rank_arg = kw(rtf, "rank", 2) if rtf is not None and rtf[0] == "call" else None
    lp_arg = kw(rtf, "log_pdet", 3) if rtf is not None and rtf[0] == "call" else None
    supplied = {("cmp", "is", n("rank"), c(None)): False,
                }
    lpn = ("cmp", "is", n("log_pdet"), c(None))
    lpnn = ("n", "__unused__")
    for label, facts in (("log_pdet not supplied", {**supplied, lpn: True, lpnn: False}),
                         ("log_pdet supplied", {**supplied, lpn: False, lpnn: True})):
        red = partial_eval(rank_arg, facts) if rank_arg is not None else None
        ctx.ob("C13.R1", fp, f"from_penalty passes a SUPPLIED rank on unchanged ({label})",
               red == n("rank"), detail=f"rank argument reduces to {short(red or ())}",
               stmt=f"supplied rank ({label}) -> {pretty(red or ())[:100]}")
        if lp_arg is not None:
            redl = partial_eval(lp_arg, facts)
            uses = [x for x in subterms(redl) if x[0] == "op" and x[1] == "*"
                    and n("rank") in (x[2], x[3])]
            ctx.ob("C13.R1", fp, f"the log-pseudo-determinant adjustment uses the supplied "
                                 f"rank ({label})", bool(uses),
                   detail=short(redl, 160), stmt=f"log_pdet rank ({label})")

    # ------------------------------------------------------------------ R2
    fd = repo.func("liesel.model.goose.finite_discrete_gibbs_kernel")
    rfd = evaluate(repo, fd)
    tf = fd.nested("transition_fn")
    rtf_ = evaluate(repo, tf, closure=rfd.closure())
    cl = tf.nested("conditional_log_prob_fn")
    rcl = evaluate(repo, cl, closure={**rfd.closure(), **rtf_.closure()})
    model_t = rfd.env.vars.get("model")
    ok_auto = any(loc == ("a", model_t, "auto_update") and val == c(False)
                  for loc, val, _, _ in rfd.stores)
    ctx.ob("C13.R2", fd, "the private model copy has auto-update switched off (assignments "
                         "inside the vmapped function do not trigger sweeps)", ok_auto)
    sts = [(loc, val, nd.lineno) for loc, val, nd, _ in rtf_.stores]
    ow = [s for s in sts if s[0] == ("a", model_t, "state") and s[1] == n(tf.params()[1])]
    flags = [s for s in sts if s[0][0] == "a" and s[0][2] == "_outdated" and s[1] == c(False)]
    ok_state = len(ow) == 1 and len(flags) == 1 and ow[0][2] < flags[0][2]
    ctx.ob("C13.R2", tf, "the private model's state is overwritten with the given model "
                         "state and all flags are cleared first", ok_state)
    val_p = n(cl.params()[0])
    asg = [(loc, val, nd.lineno) for loc, val, nd, _ in rcl.stores]
    ups = [(t, nd.lineno) for t, nd, _ in rcl.calls if t[0] == "call"
           and t[1] == ("a", model_t, "update")]
    rr = rcl.ret()
    ok_c = (len(asg) == 1 and asg[0][0] == ("a", ("s", ("a", model_t, "vars"), n("name")),
                                            "value") and asg[0][1] == val_p
            and len(ups) == 1 and (not ups[0][0][2] or ups[0][0][2] == (c("_model_log_prob"),))
            and asg[0][2] < ups[0][1]
            and rr == ("a", model_t, "log_prob"))
    ctx.ob("C13.R2", cl, "per outcome: assign the outcome to the variable, update (at least) "
                         "everything the model log-probability depends on, return the FULL "
                         "model log-probability", ok_c,
           detail=f"returns {short(rr or ())}; update {[short(u[0]) for u in ups]}",
           stmt="conditional logits " + pretty(rr or ())[:100])
    rtt = rtf_.ret()
    outcomes_t = rfd.env.vars.get("outcomes")
    ok_d = False
    if rtt is not None and rtt[0] == "dict" and len(rtt[1]) == 1 and rtt[1][0][0] == n("name"):
        draw = rtt[1][0][1]
        cat = [x for x in subterms(draw) if is_call(x, "jax.random.categorical")]
        if len(cat) == 1 and draw == ("s", outcomes_t, cat[0]):
            logits = kw(cat[0], "logits", 1)
            ok_d = (kw(cat[0], "key", 0) == n(tf.params()[0]) and logits is not None
                    and logits[0] == "call" and is_call(logits[1], "jax.vmap")
                    and logits[1][2] == (("fn", cl.qualname),)
                    and logits[2] == (outcomes_t,))
    ctx.ob("C13.R2", tf, "the new value is outcomes[categorical(key, logits = vmap("
                         "conditional log-prob)(outcomes))], returned under the variable's "
                         "name", ok_d, detail=short(rtt or (), 200), stmt="categorical draw")
    # ---- provenance of the outcome grid: the user's values unchanged, or the support
    # of the variable's own distribution
    dist_t = ("call", ("a", ("a", ("s", ("a", n("model"), "vars"), n("name")), "dist_node"),
                       "init_dist"), (), ())
    user_ok, default_ok, arms_seen = False, False, []
    ot = outcomes_t
    if ot is not None and ot[0] == "phi" and ot[1] == ("cmp", "is", n("outcomes"), c(None)):
        dflt, user = ot[2], ot[3]
        user_ok = user == n("outcomes") or (
            user[0] == "call" and (fn_name(user[1]) or "") in (
                "jax.numpy.asarray", "jax.numpy.array", "jax.numpy.atleast_1d")
            and user[2] == (n("outcomes"),) and not user[3])

        def leaves(t):
            # a `match` statement or the isinstance chain it stands for; an arm that
            # raises (undef) is not a grid
            if t[0] == "phi" and (t[1][:1] == ("case?",) or is_call(t[1], "isinstance")):
                return leaves(t[2]) + leaves(t[3])
            return [] if t[0] == "undef" else [t]
        arms_seen = leaves(dflt)
        bern = [a for a in arms_seen if a[0] == "call" and (fn_name(a[1]) or "") in (
            "jax.numpy.array", "jax.numpy.asarray") and a[2] == (("list", (c(0), c(1))),)
            and all(k == "dtype" and v == ("a", dist_t, "dtype") for k, v in a[3])]
        fin = [a for a in arms_seen if a == ("a", dist_t, "outcomes")]
        default_ok = len(bern) == 1 and len(fin) == 1 and len(arms_seen) == 2
    ctx.ob("C13.R2", fd, "user-supplied outcomes are used as given (array conversion only: "
                         "no cast, rounding or reordering)", user_ok,
           detail=short(ot or (), 200), stmt="user outcomes " + pretty(ot[3] if ot and ot[0] == "phi" else ())[:100])
    ctx.ob("C13.R2", fd, "without user outcomes the grid is the support of the variable's "
                         "own distribution: {0, 1} for Bernoulli, dist.outcomes for "
                         "FiniteDiscrete", default_ok,
           detail="; ".join(short(a, 80) for a in arms_seen), stmt="default outcomes")
    gk = rfd.ret()
    ctx.ob("C13.R2", fd, "registered for exactly the variable's name",
           gk is not None and is_call(gk, "liesel.goose.gibbs.GibbsKernel")
           and kw(gk, "position_keys", 0) == ("list", (n("name"),)))

    # ---- shared mechanisms: the neighbour's rules run as obligations of this property
    ctx.include("C18", "C13.R3", only=['C18.R1'])
    ctx.include("C01", "C13.R3", only=['C01.R6'])
    ctx.include("C09", "C13.R3", only=['C09.R3'])
    ctx.rule("R3", "shared mechanisms, run as obligations of this property: 'given all other CURRENT values': every kernel of a sequence starts from the state its predecessor left (C09.R3); the smoothing prior the tau2 kernel conditions on is the degenerate normal as documented (C18.R1); the conditional is evaluated through a targeted update that reaches every ancestor, also through `at` (C01.R6).")
