#!/usr/bin/env python3
"""Regenerates the build-report table of DESIGN.md (between BUILD-TABLE markers) from a
quick run of every check on /repo and the self-test variant lists."""
import importlib
import os
import re
import sys

ROOT = os.path.dirname(os.path.dirname(os.path.abspath(__file__)))
sys.path.insert(0, ROOT)
from lsa.__main__ import run_rules  # noqa: E402

rows, tm, tt = [], 0, 0
for p in sorted(open(os.path.join(ROOT, "tools/built.txt")).read().split()):
    ctx = run_rules(p, "/repo", "quick")
    mod = importlib.import_module(f"lsa.selftest.v_{p.lower()}")
    m = sum(1 for v in mod.VARIANTS if v.kind == "M")
    t = sum(1 for v in mod.VARIANTS if v.kind == "T")
    seeds = len([d for d in os.listdir(os.path.join(ROOT, "seeded")) if d.startswith(p + "_")])
    tm, tt = tm + m, tt + t
    rows.append(f"| {p} | {len(ctx.obligations)} | {len(ctx.analysed_functions)} | {m} | {t} | {seeds} |")
table = ("| id | obligations on the clean tree | functions consulted | self-test mutants "
         "(must fire) | twins (must stay silent) | seeded changes kept for this property |\n"
         "|---|---|---|---|---|---|\n" + "\n".join(rows)
         + f"\n\n{tm} breaking variants and {tt} refactor twins in `lsa/selftest/v_cNN.py`; all "
           "mutants are\nreported with the expected rule id, all twins stay at exit 0.\n")
path = os.path.join(ROOT, "DESIGN.md")
s = open(path).read()
s2 = re.sub(r"(<!-- BUILD-TABLE-BEGIN -->\n).*?(<!-- BUILD-TABLE-END -->)",
            lambda m_: m_.group(1) + table + m_.group(2), s, flags=re.S)
import json  # noqa: E402
idx = json.load(open(os.path.join(ROOT, "seeded", "INDEX.json")))
srows = "\n".join(f"| {e['property']} | `{e['name']}` | {', '.join(e['detected_by']) or 'MISSED'} |"
                  for e in sorted(idx, key=lambda e: (e["property"], e["name"])))
s2 = re.sub(r"(<!-- SEED-TABLE-BEGIN -->\n).*?(<!-- SEED-TABLE-END -->)",
            lambda m_: m_.group(1) + srows + "\n" + m_.group(2), s2, flags=re.S)
open(path, "w").write(s2)
print(table)
print(len(idx), "seeded changes;", sum(1 for e in idx if e["property"] in e["detected_by"]),
      "reported by their own property's check")
