"""
Exercises liesel.bijectors.AlgebraicSigmoid and liesel.distributions.GaussianCopula
and prints a bit-exact digest of all results.

Run from the worktree root with PYTHONPATH set to the worktree root.
"""

import hashlib

import jax
import jax.numpy as jnp
import numpy as np
import tensorflow_probability.substrates.jax.distributions as tfd

from liesel.bijectors import AlgebraicSigmoid
from liesel.distributions import GaussianCopula


def digest(label, value):
    arr = np.asarray(value)
    h = hashlib.sha256(arr.tobytes()).hexdigest()[:16]
    flat = arr.ravel()
    head = ",".join(float(v).hex() for v in flat[:4])
    print(f"{label}: shape={arr.shape} dtype={arr.dtype} sha={h} head={head}")


def attempt(label, fn):
    try:
        out = fn()
    except BaseException as e:
        msg = str(e).splitlines()[0] if str(e) else ""
        print(f"{label}: RAISED {type(e).__name__}: {msg[:120]}")
        return None
    if out is not None:
        digest(label, out)
    return out


def jaxpr_hash(label, fn, *args):
    txt = str(jax.make_jaxpr(fn)(*args))
    print(f"{label}: jaxpr sha={hashlib.sha256(txt.encode()).hexdigest()[:16]}")


def sigmoid_part():
    rng = np.random.default_rng(1)
    b = AlgebraicSigmoid()
    bv = AlgebraicSigmoid(validate_args=True, name="checked")
    print("names", b.name, bv.name, b.validate_args, bv.validate_args,
          b.forward_min_event_ndims, b._is_increasing(), sorted(b.parameters))

    xs = {
        "grid": jnp.linspace(-50.0, 50.0, 2001, dtype=jnp.float32),
        "rand": jnp.asarray(rng.normal(size=(7, 5)) * 3, dtype=jnp.float32),
        "tiny": jnp.asarray([0.0, -0.0, 1e-30, -1e-30, 1e-20, 1e-10], jnp.float32),
        "huge": jnp.asarray([1e10, -1e10, 1e19, -1e19, 1e20, 3e38, -3e38], jnp.float32),
        "special": jnp.asarray([jnp.inf, -jnp.inf, jnp.nan], jnp.float32),
        "scalar": jnp.float32(0.75),
        "int": jnp.arange(-4, 5),
        "f16": jnp.asarray([-2.0, 0.5, 3.0], jnp.float16),
    }
    ys = {
        "grid": jnp.linspace(-1.0, 1.0, 2001, dtype=jnp.float32),
        "rand": jnp.asarray(rng.uniform(-1, 1, size=(7, 5)), dtype=jnp.float32),
        "edge": jnp.asarray(
            [1.0, -1.0, 0.99999994, -0.99999994, 0.0, -0.0, 1e-30], jnp.float32
        ),
        "outside": jnp.asarray([1.5, -1.5, 2.0, jnp.inf, jnp.nan], jnp.float32),
        "scalar": jnp.float32(-0.3),
        "int": jnp.asarray([-1, 0, 1]),
        "f16": jnp.asarray([-0.5, 0.25, 0.875], jnp.float16),
    }
    for bij_name, bij in [("plain", b), ("checked", bv)]:
        for k, x in xs.items():
            # fresh bijector objects are not needed: TFP caches by input identity only
            attempt(f"sig.{bij_name}.forward.{k}", lambda: bij.forward(x))
            attempt(f"sig.{bij_name}.fldj.{k}",
                    lambda: bij.forward_log_det_jacobian(x))
            attempt(f"sig.{bij_name}.fldj0.{k}",
                    lambda: bij.forward_log_det_jacobian(x, event_ndims=0))
            if np.ndim(x) >= 1:
                attempt(f"sig.{bij_name}.fldj1.{k}",
                        lambda: bij.forward_log_det_jacobian(x, event_ndims=1))
            attempt(f"sig.{bij_name}.roundtrip.{k}",
                    lambda: AlgebraicSigmoid().inverse(
                        jnp.asarray(np.asarray(AlgebraicSigmoid().forward(x)))))
        for k, y in ys.items():
            attempt(f"sig.{bij_name}.inverse.{k}", lambda: bij.inverse(y))
            attempt(f"sig.{bij_name}.ildj.{k}",
                    lambda: bij.inverse_log_det_jacobian(y))
            if np.ndim(y) >= 1:
                attempt(f"sig.{bij_name}.ildj1.{k}",
                        lambda: bij.inverse_log_det_jacobian(y, event_ndims=1))

    # private methods called directly, with python scalars and numpy arrays
    for v in [0.0, 0.5, -2.0, 3, True]:
        attempt(f"sig.priv.forward.{v!r}", lambda: b._forward(v))
        attempt(f"sig.priv.fldj.{v!r}", lambda: b._forward_log_det_jacobian(v))
    for v in [0.0, 0.5, -0.25]:
        attempt(f"sig.priv.inverse.{v!r}", lambda: b._inverse(v))
        attempt(f"sig.priv.ildj.{v!r}", lambda: b._inverse_log_det_jacobian(v))
    for v in [1.0, 1, 2.0]:
        attempt(f"sig.priv.inverse.{v!r}", lambda: b._inverse(v))
    npx = np.asarray([0.1, -0.7, 0.9], dtype=np.float64)
    attempt("sig.priv.np.forward", lambda: b._forward(npx))
    attempt("sig.priv.np.inverse", lambda: b._inverse(npx))
    attempt("sig.priv.np.fldj", lambda: b._forward_log_det_jacobian(npx))
    attempt("sig.priv.np.ildj", lambda: b._inverse_log_det_jacobian(npx))
    attempt("sig.priv.str.forward", lambda: b._forward("a"))
    attempt("sig.priv.none.inverse", lambda: b._inverse(None))
    attempt("sig.priv.list.fldj", lambda: b._forward_log_det_jacobian([1.0, 2.0]))

    # transformations
    x = xs["rand"]
    y = ys["rand"]
    attempt("sig.jit.forward", lambda: jax.jit(b.forward)(x))
    attempt("sig.jit.inverse", lambda: jax.jit(b.inverse)(y))
    attempt("sig.jit.fldj", lambda: jax.jit(b.forward_log_det_jacobian)(x))
    attempt("sig.jit.ildj", lambda: jax.jit(b.inverse_log_det_jacobian)(y))
    attempt("sig.grad.forward", lambda: jax.vmap(jax.grad(b.forward))(x.ravel()))
    attempt("sig.grad.inverse", lambda: jax.vmap(jax.grad(b.inverse))(y.ravel()))
    attempt("sig.grad2.forward",
            lambda: jax.vmap(jax.grad(jax.grad(b.forward)))(x.ravel()))
    jaxpr_hash("sig.jaxpr.forward", lambda v: AlgebraicSigmoid().forward(v), x)
    jaxpr_hash("sig.jaxpr.inverse", lambda v: AlgebraicSigmoid().inverse(v), y)
    jaxpr_hash("sig.jaxpr.fldj",
               lambda v: AlgebraicSigmoid().forward_log_det_jacobian(v), x)
    jaxpr_hash("sig.jaxpr.ildj",
               lambda v: AlgebraicSigmoid().inverse_log_det_jacobian(v), y)
    jaxpr_hash("sig.jaxpr.grad", jax.grad(lambda v: AlgebraicSigmoid().forward(v)),
               1.0)

    # as part of a transformed distribution
    td = tfd.TransformedDistribution(tfd.Normal(0.0, 2.0), AlgebraicSigmoid())
    attempt("sig.td.log_prob", lambda: td.log_prob(ys["grid"][1:-1]))
    attempt("sig.td.sample", lambda: td.sample(11, seed=jax.random.PRNGKey(3)))
    inv = tfd.TransformedDistribution(
        tfd.Uniform(-1.0, 1.0),
        __import__(
            "tensorflow_probability.substrates.jax.bijectors", fromlist=["Invert"]
        ).Invert(AlgebraicSigmoid()),
    )
    attempt("sig.inv.log_prob", lambda: inv.log_prob(xs["grid"]))


def copula_part():
    rng = np.random.default_rng(2)
    u_grid = jnp.asarray(
        np.stack(np.meshgrid(np.linspace(0.01, 0.99, 23), np.linspace(0.01, 0.99, 23)),
                 axis=-1).reshape(-1, 2),
        dtype=jnp.float32,
    )
    u_rand = jnp.asarray(rng.uniform(size=(50, 2)), dtype=jnp.float32)
    u_edge = jnp.asarray(
        [[0.0, 0.5], [1.0, 0.5], [0.0, 0.0], [1.0, 1.0], [1e-7, 1 - 1e-7],
         [0.5, 0.5], [-0.1, 0.5], [0.5, 1.2], [np.nan, 0.5]],
        dtype=jnp.float32,
    )
    deps = [0.0, -0.0, 0.42, -0.42, 0.9, -0.9, 0.999, -0.999, 0.9999999, 1e-8,
            1.0, -1.0, 1.5, -2.0, float("nan")]
    for validate in (False, True):
        for dep in deps:
            for kind, d in [("py", dep), ("f32", jnp.float32(dep))]:
                tag = f"cop.v{int(validate)}.{kind}.{dep!r}"
                try:
                    c = GaussianCopula(d, validate_args=validate)
                except BaseException as e:
                    print(f"{tag}: CONSTRUCT RAISED {type(e).__name__}: {str(e)[:100]}")
                    continue
                print(tag, "shapes", c.batch_shape, c.event_shape, c.name,
                      sorted(c.parameters), c.validate_args)
                digest(tag + ".scale_tril", c.distribution.scale_tril)
                digest(tag + ".loc", c.distribution.loc)
                attempt(tag + ".lp.grid", lambda: c.log_prob(u_grid))
                attempt(tag + ".lp.rand", lambda: c.log_prob(u_rand))
                attempt(tag + ".lp.edge", lambda: c.log_prob(u_edge))
                attempt(tag + ".prob.rand", lambda: c.prob(u_rand))
                attempt(tag + ".sample",
                        lambda: c.sample(5, seed=jax.random.PRNGKey(11)))

    # batched dependence
    for shape in [(3,), (2, 3), (1,), (0,)]:
        dep = jnp.asarray(rng.uniform(-0.95, 0.95, size=shape), dtype=jnp.float32)
        for validate in (False, True):
            tag = f"cop.batch{shape}.v{int(validate)}"
            c = GaussianCopula(dep, validate, True, "B")
            print(tag, c.batch_shape, c.event_shape, c.name)
            digest(tag + ".scale_tril", c.distribution.scale_tril)
            u = jnp.asarray(rng.uniform(size=(4,) + shape + (2,)), dtype=jnp.float32)
            attempt(tag + ".lp", lambda: c.log_prob(u))
            attempt(tag + ".sample", lambda: c.sample(2, seed=jax.random.PRNGKey(5)))
    bad = jnp.asarray([0.1, 1.2, -0.3], dtype=jnp.float32)
    attempt("cop.batchbad.v1", lambda: GaussianCopula(bad, validate_args=True)
            .log_prob(u_rand[:3]))
    attempt("cop.batchbad.v0", lambda: GaussianCopula(bad).log_prob(u_rand[:3]))
    bad2 = jnp.asarray([0.1, -1.2, -0.3], dtype=jnp.float32)
    attempt("cop.batchbad2.v1", lambda: GaussianCopula(bad2, validate_args=True)
            .log_prob(u_rand[:3]))

    # other argument types
    attempt("cop.none", lambda: GaussianCopula().log_prob(u_rand))
    attempt("cop.none.v1", lambda: GaussianCopula(None, True).log_prob(u_rand))
    attempt("cop.int0", lambda: GaussianCopula(0).log_prob(u_rand))
    attempt("cop.int0.v1", lambda: GaussianCopula(0, validate_args=True)
            .log_prob(u_rand))
    attempt("cop.np64", lambda: GaussianCopula(np.float64(0.3)).log_prob(u_rand))
    attempt("cop.nparr", lambda: GaussianCopula(np.asarray([0.3, -0.2]))
            .log_prob(u_rand[:2]))
    attempt("cop.list", lambda: GaussianCopula([0.3, -0.2]).log_prob(u_rand[:2]))
    attempt("cop.list.v1", lambda: GaussianCopula([0.3, -0.2], True)
            .log_prob(u_rand[:2]))
    attempt("cop.str", lambda: GaussianCopula("0.3").log_prob(u_rand))
    attempt("cop.truthy_validate", lambda: GaussianCopula(0.3, validate_args=1)
            .log_prob(u_rand))
    attempt("cop.truthy_validate_bad", lambda: GaussianCopula(1.3, validate_args="y")
            .log_prob(u_rand))
    attempt("cop.arr_validate", lambda: GaussianCopula(
        0.3, validate_args=jnp.asarray([True, False])).log_prob(u_rand))
    attempt("cop.arr_validate_none", lambda: GaussianCopula(
        None, validate_args=jnp.asarray([True, False])).log_prob(u_rand))

    # transformations
    def lp(dep, validate=False):
        return GaussianCopula(dep, validate_args=validate).log_prob(u_rand)

    attempt("cop.jit", lambda: jax.jit(lp)(0.42))
    attempt("cop.jit.validate", lambda: jax.jit(lambda d: lp(d, True))(0.42))
    attempt("cop.grad", lambda: jax.grad(lambda d: lp(d).sum())(0.42))
    attempt("cop.vmap", lambda: jax.vmap(lp)(jnp.asarray([-0.5, 0.1, 0.7])))
    jaxpr_hash("cop.jaxpr", lp, 0.42)
    jaxpr_hash(
        "cop.jaxpr.batch",
        lambda d: GaussianCopula(d).log_prob(u_rand[:2]),
        jnp.asarray([0.42, 0.1]),
    )
    jaxpr_hash("cop.jaxpr.grad", jax.grad(lambda d: lp(d).sum()), 0.42)

    # parameter properties / copy / constraining bijector
    props = GaussianCopula.parameter_properties()
    print("cop.props", sorted(props))
    pp = props["dependence"]
    print("cop.props.shape_fn", pp.shape_fn((4, 3, 2)))
    bij = pp.default_constraining_bijector_fn()
    print("cop.props.bij", type(bij).__name__, bij.name)
    attempt("cop.props.bij.forward", lambda: bij.forward(jnp.linspace(-3, 3, 13)))
    c = GaussianCopula(jnp.asarray([0.3, -0.6], dtype=jnp.float32), name="orig")
    c2 = c.copy(validate_args=True)
    print("cop.copy", c2.name, c2.validate_args, c2.batch_shape)
    attempt("cop.copy.lp", lambda: c2.log_prob(u_rand[:2]))
    attempt("cop.getitem", lambda: c[0].log_prob(u_rand))

    # uniform marginals of samples (summary statistic only, deterministic seed)
    s = GaussianCopula(0.8).sample(2000, seed=jax.random.PRNGKey(0))
    digest("cop.samples", s)


if __name__ == "__main__":
    sigmoid_part()
    copula_part()
