import ast

from .runner import (V, expr, expr_is, is_assign_to, is_expr_call, replace_expr,
                     replace_stmt, stmt)

N = "liesel/model/nodes.py"
M = "liesel/model/model.py"


def _drop_decorator(name):
    def repl(nd):
        nd.decorator_list = [d for d in nd.decorator_list if ast.unparse(d) != name]
        return nd
    return repl


VARIANTS = [
    V("c15_unguarded_per_obs", "M", N, "Dist",
      lambda nd: isinstance(nd, ast.FunctionDef) and nd.name == "per_obs"
      and any(ast.unparse(d) == "no_model_setter" for d in nd.decorator_list),
      _drop_decorator("no_model_setter"),
      note="per_obs settable inside a model", expect_rule="C15.R1"),
    V("c15_unguarded_set_inputs", "M", N, "Node",
      lambda nd: isinstance(nd, ast.FunctionDef) and nd.name == "set_inputs",
      _drop_decorator("no_model_method"),
      note="inputs rewired inside a model", expect_rule="C15.R1"),
    V("c15_guard_after", "M", N, "no_model_method.wrapped",
      lambda nd: isinstance(nd, ast.If),
      lambda nd: stmt("result = fn(self, *args, **kwargs)") + [nd],
      note="guard runs the mutation before rejecting it", expect_rule="C15.R1"),
    V("c15_no_var_nodes", "M", M, "GraphBuilder._all_nodes_and_vars",
      *replace_stmt("nodes.extend(node.var.nodes)", None),
      note="dist / var-value nodes of discovered variables are not collected",
      expect_rule="C15.R2"),
    V("c15_closure_inputs_only", "M", M, "GraphBuilder._all_nodes_and_vars",
      *replace_expr("node.all_input_nodes()", "(*node.inputs, *node.kwinputs.values())"),
      note="`at` of stand-alone Dist nodes not collected", expect_rule="C15.R2"),
    V("c15_dup_after_wiring", "M", M, "Model.__init__",
      lambda nd: isinstance(nd, ast.If) and ast.unparse(nd.test) == "dups" and "node" in ast.unparse(nd),
      lambda nd: None, nth=0,
      note="duplicate node names not rejected", expect_rule="C15.R3"),
    V("c15_pop_no_unset", "M", M, "Model.pop_nodes_and_vars",
      lambda nd: isinstance(nd, ast.For) and "_unset_model" in ast.unparse(nd), lambda nd: None,
      note="popped nodes still belong to the dead model", expect_rule="C15.R5"),
    V("c15_copy_keeps_model_nodes", "M", M, "Model.copy_nodes_and_vars",
      *replace_stmt("nodes = {nm: nd for nm, nd in nodes.items() if not nm.startswith('_model')}", None),
      note="copies contain the reserved model nodes", expect_rule="C15.R5"),
    V("c15_set_model_no_check", "M", N, "Node._set_model",
      lambda nd: isinstance(nd, ast.If), lambda nd: None,
      note="a node can be stolen by a second model", expect_rule="C15.R7"),
    V("c15_getstate_all", "M", N, "Node.__getstate__",
      *replace_stmt("state['_model'] = self._model()", "state['_model'] = None"),
      note="unpickled nodes lose their model", expect_rule="C15.R6"),
    V("c15_load_pickle", "M", M, "load_model",
      *replace_expr("dill.load(handle)", "__import__('pickle').load(handle)"),
      note="different serializer on load", expect_rule="C15.R6"),
    V("c15_names_no_retry", "M", M, "GraphBuilder._do_set_missing_names",
      lambda nd: isinstance(nd, ast.While), lambda nd: None,
      note="generated names may collide with user names", expect_rule="C15.R3"),
    V("c15_reserved_only_added", "M", M, "GraphBuilder.build_model",
      lambda nd: isinstance(nd, ast.For) and "startswith('_model')" in ast.unparse(nd),
      lambda nd: ast.For(target=nd.target, iter=expr("self.nodes"), body=nd.body, orelse=[]),
      note="reserved names checked only for directly added nodes", expect_rule="C15.R3"),
    V("c15_dup_nodes_twice_ok", "M", M, "Model.__init__",
      lambda nd: isinstance(nd, ast.Compare) and ast.unparse(nd) == "v > 1",
      lambda nd: expr("v > 2"),
      note="a node name may occur twice", expect_rule="C15.R2"),
    V("c15_dup_vars_unchecked", "M", M, "Model.__init__",
      lambda nd: isinstance(nd, ast.Compare) and ast.unparse(nd) == "v > 1",
      lambda nd: expr("v > 10 ** 6"), nth=1,
      note="duplicate variable names accepted", expect_rule="C15.R2"),
    V("c15_copy_guard_negated", "M", M, "Model.__init__",
      lambda nd: isinstance(nd, ast.If) and ast.unparse(nd.test) == "copy",
      lambda nd: ast.If(test=expr("not copy"), body=nd.body, orelse=nd.orelse),
      note="deep copy exactly when NOT requested", expect_rule="C15.R5"),
    V("c15_closure_var_guard", "M", M, "GraphBuilder._all_nodes_and_vars",
      *replace_expr("node.var in all_vars", "node.var not in all_vars"),
      note="variables of nodes are never collected", expect_rule="C15.R2"),
    V("c15_closure_returns_worklist", "M", M, "GraphBuilder._all_nodes_and_vars",
      lambda nd: isinstance(nd, ast.Return), lambda nd: stmt("return nodes, all_vars"),
      note="returns the (empty) worklist", expect_rule="C15.R2"),
    V("c15_setstate_inverted", "M", "liesel/model/nodes.py", "Node.__setstate__",
      *replace_expr("self._model is not None", "self._model is None"),
      note="unpickled nodes lose their model reference", expect_rule="C15.R6"),
    # ---- twins
    V("c15_t_dup_ge2", "T", M, "Model.__init__",
      lambda nd: isinstance(nd, ast.Compare) and ast.unparse(nd) == "v > 1",
      lambda nd: expr("v >= 2"),
      note="same threshold"),
    V("c15_t_decorator_order", "T", N, "Node",
      lambda nd: isinstance(nd, ast.FunctionDef) and nd.name == "set_inputs",
      lambda nd: nd, note="identity (placeholder)"),
    V("c15_t_rename", "T", M, "GraphBuilder._all_nodes_and_vars",
      *replace_stmt("nodes.extend(node.var.nodes)", "var_nodes = node.var.nodes\nnodes.extend(var_nodes)"),
      note="temporary"),
]
VARIANTS = [v for v in VARIANTS if v.vid != "c15_t_decorator_order"]
