"""
C07 -- the engine drives every kernel through the documented lifecycle.

Typestate over the kernel-sequence events (init_states, start_epoch, transition,
end_epoch, tune, end_warmup).  Engine.sample_next_epoch is abstractly executed with
all ``self._x()`` helpers (and the jitted/vmapped ``_sample_many``) inlined; every
event call carries its full path condition, so "event e happens iff condition c"
and "e1 before e2" are read off for all paths at once.
"""

from __future__ import annotations

import ast

from ..core.terms import (cmp_, not_, pc, phi_, c, evaluate, fn_name, kw, make_inliner, n, pretty, subterms,
                          unwrap_callable)
from ..domains import concrete
from .common import LIB_FACTS, cond_parts, is_call, kernel_classes, method, short

ENGINE = "liesel.goose.engine.Engine"
EVENTS = ("init_states", "start_epoch", "transition", "end_epoch", "tune", "end_warmup")
ETYPE = "liesel.goose.epoch.EpochType"


def enum_members(repo):
    ci = repo.cls(ETYPE)
    out = {}
    for st in ci.node.body:
        if isinstance(st, ast.Assign) and isinstance(st.value, ast.Constant):
            out[st.targets[0].id] = st.value.value
    return out


def engine_model(repo):
    """Field table and event extraction helpers for Engine."""
    eng = repo.cls(ENGINE)
    init = method(repo, eng, "__init__")
    r = evaluate(repo, init)
    ks_field = None
    fields = {}
    for loc, val, node, cond in r.stores:
        if loc[0] == "a" and loc[1] == n("self"):
            fields[loc[2]] = val
            if val == n("kernel_sequence"):
                ks_field = loc[2]
    table = {}
    for f, val in fields.items():
        u = unwrap_callable(val)
        if u != val and u[0] == "a" and u[1] == n("self"):
            m = repo.lookup_method(eng, u[2])
            if m is not None:
                table[f] = m
    return eng, init, r, ks_field, fields, table


def event_of(t, ks_field):
    """Name of the kernel-sequence event a call term performs (or None)."""
    if t[0] != "call":
        return None
    f = t[1]
    if f[0] == "call":  # jax.vmap(self._kernel_sequence.m, ...)(...)
        f = unwrap_callable(f)
    if f[0] == "a" and f[1] == ("a", n("self"), ks_field):
        return f[2]
    return None


def atoms(cond):
    """Flatten a path condition into a set of (atom term, polarity)."""
    out = set()

    def add(t, pol):
        if t[0] == "bool" and ((t[1] == "and" and pol) or (t[1] == "or" and not pol)):
            for x in t[2]:
                add(x, pol)
        elif t[0] == "u" and t[1] == "not":
            add(t[2], not pol)
        else:
            out.add((t, pol))

    for t, pol in cond:
        add(t, pol)
    return out


def in_loop(cond):
    return any(t[0] == "inloop" for t, _ in cond)


def epoch_types_where(repo, pred, etype_t):
    """Names of the EpochType members for which the predicate term holds (the epoch type
    being the term `etype_t`); raises concrete.Unmodelled if it cannot be evaluated."""
    members = enum_members(repo)
    globs = {f"{ETYPE}.{k}": v for k, v in members.items()}
    helper = None
    if pred[0] == "call" and pred[2] == (etype_t,):
        nm = fn_name(pred[1]) or ""
        if nm.startswith(ETYPE + "."):
            helper = nm
        elif pred[1][0] == "a" and f"{ETYPE}.{pred[1][2]}" in repo.functions:
            # a static helper called through an instance: epoch.type.is_warmup(epoch.type)
            helper = f"{ETYPE}.{pred[1][2]}"
    if helper is not None:
        pfi = repo.functions.get(helper)
        if pfi is None:
            raise concrete.Unmodelled(pred)
        prt = evaluate(repo, pfi).ret()
        return {k for k, v in members.items()
                if concrete.evaluate(prt, {n(pfi.params()[0]): v}, globs)}
    return {k for k, v in members.items() if concrete.evaluate(pred, {etype_t: v}, globs)}


def dispatch_obligations(ctx, r6, r7):
    """The adaptive transition runs exactly in the adaptation epochs; tune dispatches on
    SLOW_ADAPTATION; the enum predicates hold for the documented members (shared with
    C11.R4: outside adaptation epochs the tuning state is never touched)."""
    repo = ctx.repo
    members = enum_members(repo)
    ctx.require_min("EpochType members", len(members), 5)
    globs = {f"{ETYPE}.{k}": v for k, v in members.items()}

    def true_for(pred, etype_t):
        """Set of member names for which the dispatch predicate is true."""
        if pred[0] == "call" and (fn_name(pred[1]) or "").startswith(ETYPE + ".") \
                and pred[2] == (etype_t,):
            pfi = repo.functions.get(fn_name(pred[1]))
            if pfi is None:
                raise concrete.Unmodelled(pred)
            prt = evaluate(repo, pfi).ret()
            return {k for k, v in members.items()
                    if concrete.evaluate(prt, {n(pfi.params()[0]): v}, globs)}
        return {k for k, v in members.items()
                if concrete.evaluate(pred, {etype_t: v}, globs)}

    tm = repo.cls("liesel.goose.kernel.TransitionMixin")
    tfi = method(repo, tm, "transition", own=True)
    rt = evaluate(repo, tfi).ret()
    p = cond_parts(rt) if rt else None
    etype_t = ("a", ("a", n("epoch"), "config"), "type")
    got, err = None, None
    if p is not None:
        try:
            got = true_for(p[0], etype_t)
        except concrete.Unmodelled as e:
            err = e
    ok = (p is not None and got == {"FAST_ADAPTATION", "SLOW_ADAPTATION"}
          and p[1] == ("a", n("self"), "_adaptive_transition")
          and p[2] == ("a", n("self"), "_standard_transition")
          and p[3] == (n("prng_key"), n("kernel_state"), n("model_state"), n("epoch")))
    ctx.ob(r6, tfi, "transition = cond(epoch type is FAST_/SLOW_ADAPTATION, adaptive, "
                    "standard, key, kernel_state, model_state, epoch): the adaptive branch "
                    "runs in the adaptation epochs only (not in burn-in, not in the posterior)",
           ok, unproven=err is not None,
           detail=f"adaptive for {sorted(got) if got is not None else err}; {short(rt or ())}",
           stmt="dispatch " + pretty(rt or ())[:200])
    um = repo.cls("liesel.goose.kernel.TuningMixin")
    ufi = method(repo, um, "tune", own=True)
    ru = evaluate(repo, ufi).ret()
    p = cond_parts(ru) if ru else None
    got, err = None, None
    if p is not None:
        try:
            got = true_for(p[0], etype_t)
        except concrete.Unmodelled as e:
            err = e
    ok = (p is not None and got == {"SLOW_ADAPTATION"}
          and p[1] == ("a", n("self"), "_tune_slow")
          and p[2] == ("a", n("self"), "_tune_fast")
          and p[3] == (n("prng_key"), n("kernel_state"), n("model_state"), n("epoch"),
                       n("history")))
    ctx.ob(r6, ufi, "tune = cond(type == SLOW_ADAPTATION, _tune_slow, _tune_fast, "
                    "key, kernel_state, model_state, epoch, history)", ok,
           unproven=err is not None,
           detail=f"slow for {sorted(got) if got is not None else err}; {short(ru or ())}",
           stmt="dispatch " + pretty(ru or ())[:200])
    # the dispatchers are the ones the kernels actually run: no kernel overrides them
    n_disp = 0
    for mixin, mname, fi_ in ((tm, "transition", tfi), (um, "tune", ufi)):
        for ci in repo.subclasses(mixin):
            n_disp += 1
            got_m = repo.lookup_method(ci, mname)
            ctx.ob(r6, ci, f"{ci.name}.{mname} is the mixin's dispatcher (not overridden by the "
                           f"kernel or a class in between)", got_m is not None
                   and got_m.qualname == fi_.qualname,
                   detail=f"resolves to {got_m.qualname if got_m else None}",
                   stmt=f"{ci.name}.{mname} overridden")
    ctx.require_min("kernels using the transition / tune dispatchers", n_disp, 7)
    want = {"is_adaptation": {"FAST_ADAPTATION", "SLOW_ADAPTATION"},
            "is_warmup": {"FAST_ADAPTATION", "SLOW_ADAPTATION", "BURNIN"}}
    for pname, expected in want.items():
        pfi = repo.func(f"{ETYPE}.{pname}")
        prt = evaluate(repo, pfi).ret()
        got, err = set(), None
        try:
            for k, v in members.items():
                if concrete.evaluate(prt, {n(pfi.params()[0]): v}, globs):
                    got.add(k)
        except concrete.Unmodelled as e:
            err = e
        ctx.ob(r7, pfi, f"{pname} holds exactly for {sorted(expected)}",
               err is None and got == expected, unproven=err is not None,
               detail=f"holds for {sorted(got)}" + (f"; unmodelled {err}" if err else ""),
               stmt=f"{pname} = {sorted(got)}",
               facts={"members": members, "true_for": sorted(got)})


def engine_event_obligations(ctx, rule):
    """The engine hands each lifecycle event the engine's current kernel / model states
    and fresh keys, mapped over chains, and stores the kernel states that come back."""
    repo = ctx.repo
    eng = repo.cls("liesel.goose.engine.Engine")
    SELF = n("self")
    ks_f, ms_f = ("a", SELF, "_kernel_states"), ("a", SELF, "_model_states")
    table = {"start_epoch": ("_kernel_start_epoch", None, 4),
             "end_epoch": ("_end_epoch", None, 4),
             "tune": ("_tune_kernels", "kernel_states", 5),
             "end_warmup": ("_end_warmup", "kernel_states", 4)}
    seen = 0
    for ev, (mname, field, nargs) in table.items():
        fi = method(repo, eng, mname)
        res = evaluate(repo, fi)
        calls = [(t, cond) for t, _, cond in res.calls
                 if t[0] == "call" and t[1][0] == "call" and is_call(t[1], "jax.vmap")
                 and t[1][2] and t[1][2][0] == ("a", ("a", SELF, "_kernel_sequence"), ev)]
        call_nodes = [nd for t, nd, _ in res.calls
                      if t[0] == "call" and t[1][0] == "call" and is_call(t[1], "jax.vmap")
                      and t[1][2] and t[1][2][0] == ("a", ("a", SELF, "_kernel_sequence"), ev)]
        if len(call_nodes) == 1:
            import ast as _ast
            early = []
            for rc, _, rnode in res.returns:
                if not isinstance(rnode, _ast.Return) or rnode.lineno >= call_nodes[0].lineno:
                    continue
                # an early return is fine when it is the guard itself written as an early
                # exit: its condition is exactly "not an adaptation epoch"
                atoms_ = [(a, p_) for a, p_ in rc]
                ok_guard = False
                if ev == "tune" and len(atoms_) == 1 and atoms_[0][1] is False:
                    pred = atoms_[0][0]
                    ok_guard = pred[0] == "call" and (fn_name(pred[1]) or "") == \
                        f"{ETYPE}.is_adaptation"
                if not ok_guard:
                    early.append(rnode)
            ctx.ob(rule, fi, f"no path through Engine.{mname} returns before the "
                             f"kernel_sequence.{ev} call (path conditions are not exact after a "
                             f"join, so early exits are excluded separately)", not early,
                   detail=f"return at line(s) {[x.lineno for x in early]}",
                   node=early[0] if early else None, stmt=f"{mname} returns before {ev}")
        ok_one = len(calls) == 1
        ctx.ob(rule, fi, f"Engine.{mname} calls kernel_sequence.{ev} once, mapped over chains",
               ok_one, detail=f"{len(calls)} call(s)", stmt=f"{mname} -> {ev}")
        if not ok_one:
            continue
        seen += 1
        call, ccond = calls[0]
        # the event is unconditional inside its helper -- except tuning, which runs
        # exactly when the epoch that just ended is an adaptation epoch (no other gate:
        # not the amount of history, not the state of the chains)
        assumed_ = {(rc[-1][0], not rc[-1][1]) for rc, _, _ in res.raises if rc}
        gate = [(a, p_) for a, p_ in ccond if (a, p_) not in assumed_]
        if ev == "tune":
            ep_p = [p_ for p_ in fi.params() if p_ != "self"]
            etype = ("a", ("a", n(ep_p[0]), "config"), "type") if ep_p else None
            ok_gate = False
            if len(gate) == 1 and gate[0][1] is True and etype is not None:
                try:
                    members = enum_members(repo)
                    globs = {f"{ETYPE}.{k}": v for k, v in members.items()}
                    pred = gate[0][0]
                    if pred[0] == "call" and (fn_name(pred[1]) or "").startswith(ETYPE + ".") \
                            and pred[2] == (etype,):
                        pfi = repo.functions.get(fn_name(pred[1]))
                        prt = evaluate(repo, pfi).ret()
                        got_ = {k for k, v in members.items()
                                if concrete.evaluate(prt, {n(pfi.params()[0]): v}, globs)}
                    else:
                        got_ = {k for k, v in members.items()
                                if concrete.evaluate(pred, {etype: v}, globs)}
                    ok_gate = got_ == {"FAST_ADAPTATION", "SLOW_ADAPTATION"}
                except concrete.Unmodelled:
                    ok_gate = False
        else:
            ok_gate = gate == []
        ctx.ob(rule, fi, f"kernel_sequence.{ev} is reached " + (
            "exactly when the epoch is an adaptation epoch (no further gate)" if ev == "tune"
            else "unconditionally inside its helper"), ok_gate,
               detail=str([pretty(a)[:60] + "=" + str(p_) for a, p_ in gate]),
               stmt=f"{mname} gate " + "; ".join(pretty(a)[:50] for a, _ in gate))
        args = call[2]
        ia = kw(call[1], "in_axes", 1)
        want_axes = ("tuple", tuple([c(0), c(0), c(0), c(None), c(0)][:nargs])) \
            if ev != "end_warmup" else None
        ok_axes = ia == want_axes or (ev == "end_warmup" and ia in (None, c(0)))
        ok_args = (len(args) == nargs and args[1] == ks_f and args[2] == ms_f
                   and args[0][0] in ("call", "fresh") and not any(
                       x in (ks_f, ms_f) for x in subterms(args[0])))
        ctx.ob(rule, fi, f"kernel_sequence.{ev} receives (fresh keys, the engine's kernel "
                         f"states, the engine's model states, ...) with keys / states mapped "
                         f"over the chain axis and the epoch broadcast", ok_args and ok_axes,
               detail=f"args {[short(a, 50) for a in args]}; in_axes {short(ia or ())}",
               stmt=f"{mname} arguments")
        out = call if field is None else ("a", call, field)
        # (other events written out in the same method may store their own results)
        st = [(val, cond) for loc, val, _, cond in res.stores if loc == ks_f and val == out]
        ok_store = len(st) == 1 and tuple(st[0][1]) == tuple(ccond)
        ctx.ob(rule, fi, f"the kernel states returned by {ev} become the engine's kernel "
                         f"states (on every path that made the call)", ok_store,
               detail=str([short(v, 80) for v, _ in st]), stmt=f"{mname} stores kernel states")
        if ev == "tune":
            app = [t for t, _, cond in res.calls
                   if t[0] == "call" and t[1] == ("a", ("a", SELF, "_tuning_info_chain"), "append")]
            ok_ti = (len(app) == 1 and app[0][2] and app[0][2][0][0] == "call"
                     and ("a", call, "infos") in set(subterms(app[0][2][0])))
            ctx.ob(rule, fi, "the tuning infos returned by tune are appended to the tuning "
                             "info chain (end_warmup hands them back to the kernels)", ok_ti,
                   stmt="tuning infos recorded")
    return seen


def kernel_sequence_obligations(ctx, rule, events):
    """Each KernelSequence method calls the same-named kernel method once per kernel and
    hands every kernel the sequence's own arguments (shared with C12.R3 for tune)."""
    repo = ctx.repo
    ks = repo.cls("liesel.goose.kernel_sequence.KernelSequence")
    n_ok = 0
    for m in events:
        kname = "init_state" if m == "init_states" else m
        mfi = method(repo, ks, m, own=True)
        rm = evaluate(repo, mfi)
        kcalls = [(t, cond) for t, _, cond in rm.calls
                  if t[1][0] == "a" and t[1][2] == kname
                  and any(x[0] == "iter" for x in subterms(t[1][1]))]
        one = len(kcalls) == 1
        over = False
        if one:
            its = [x for x in subterms(kcalls[0][0][1][1]) if x[0] == "iter"]
            over = any(y == ("a", n("self"), "_kernels") for x in its for y in subterms(x))
        ctx.ob(rule, mfi, f"KernelSequence.{m} calls kernel.{kname} exactly once for "
                              f"each kernel of self._kernels", one and over,
               detail=f"{len(kcalls)} call site(s)", stmt=f"{m} -> {kname}")
        n_ok += 1
        if not one:
            continue
        # ---- what comes back: one entry per kernel, taken from that kernel's result
        call0 = kcalls[0][0]
        rt_ = rm.ret()

        def appended(t):
            """element appended once per iteration to an initially empty list, or None"""
            if t is not None and t[0] == "loop" and t[2][0] == "mut" and t[2][2] == "append" \
                    and t[2][1][0] == "carried" and len(t[2][3]) == 1 \
                    and t[2][1][2][0] == "list" and t[2][1][2][1] == ():
                return t[2][3][0]
            if t is not None and t[0] == "comp" and t[1] == "list" and len(t[3]) == 1:
                return t[2]
            return None

        def dict_entries(t):
            return [(loc[2], val) for loc, val, _, _ in rm.stores
                    if loc[0] == "s" and loc[1] == t]
        ident = ("a", call0[1][1], "identifier")
        if m in ("init_states", "start_epoch", "end_epoch"):
            ok_r = appended(rt_) == call0
            what = "the list of the kernels' returned states, in kernel order"
        else:
            outs = {"transition": ("kernel_state", "info", "infos"),
                    "tune": ("kernel_state", "info", "infos"),
                    "end_warmup": ("kernel_state", "error_code", "error_codes")}[m]
            ok_r = False
            if rt_ is not None and rt_[0] == "call":
                ks_t = kw(rt_, "kernel_states")
                d_t = kw(rt_, outs[2])
                ents = dict_entries(d_t) if d_t is not None else []
                ok_r = (appended(ks_t) == ("a", call0, outs[0])
                        and ents == [(ident, ("a", call0, outs[1]))])
                if m == "transition":
                    ms_t = kw(rt_, "model_state")
                    ok_r = ok_r and ms_t == ("loop", "model_state", ("a", call0, "model_state"))
            what = (f"every kernel's returned kernel state (in kernel order) and its "
                    f"{outs[1]} under the kernel's identifier"
                    + (", and the model state left by the last kernel" if m == "transition" else ""))
        ctx.ob(rule, mfi, f"KernelSequence.{m} returns {what}", ok_r,
               detail=short(rt_ or (), 160), stmt=f"{m} result")
        # every kernel sees the sequence's own arguments: nothing is rebound between
        # kernels (except the model state that transition threads through)
        proto = repo.cls("liesel.goose.types.Kernel").own_method(kname)
        pnames = [p for p in proto.params() if p != "self"] if proto is not None else []
        # (keyword-only parameters with defaults are not part of the kernel protocol)
        own = [p for p in mfi.pos_params() if p != "self"]
        call = kcalls[0][0]
        first = 1 if m == "init_states" else 2
        for j in range(first, len(own)):
            arg = kw(call, pnames[j], j) if j < len(pnames) else (
                call[2][j] if j < len(call[2]) else None)
            par = n(own[j])
            if arg == par:
                ok_a = True
            elif m == "transition" and own[j] == "model_state":
                ok_a = arg == ("carried", "model_state", par)
            elif m == "end_warmup" and arg is not None:
                # the kernel's own slice of the tuning history (None stays None)
                own_slice = ("s", par, ("a", call[1][1], "identifier"))
                ok_a = arg == own_slice or arg == phi_(cmp_("is", par, c(None)), c(None),
                                                       own_slice)
            else:
                ok_a = False
            ctx.ob(rule, mfi, f"every kernel.{kname} call receives the sequence's own "
                                  f"'{own[j]}' argument (not a value rebound while looping "
                                  f"over the kernels)", ok_a, detail=short(arg or ()),
                   stmt=f"{m} passes {own[j]}: " + pretty(arg or ())[:80])
    return n_ok



def check(ctx):
    repo = ctx.repo
    ctx.rule("R1", "no kernel event is reachable in the initial-values epoch.")
    ctx.rule("R2", "every other epoch runs start_epoch, the transition loop, end_epoch and "
                   "(iff adaptation) tune, in this order, each helper once.")
    ctx.rule("R3", "exactly `duration` transitions per epoch: divisibility guard, "
                   "duration // chunk iterations over chunk keys, one transition per scan "
                   "step, time advanced by one after the transition.")
    ctx.rule("R4", "tune iff the current epoch is an adaptation epoch; history is the "
                   "current epoch's position chain iff a kernel needs it.")
    ctx.rule("R5", "end_warmup only before the first posterior epoch: guarded by a latch "
                   "that is set on the guarded path.")
    ctx.rule("R6", "TransitionMixin/TuningMixin dispatch on the epoch type in the "
                   "documented branch order.")
    ctx.rule("R7", "is_adaptation / is_warmup hold exactly for {FAST,SLOW} / "
                   "{FAST,SLOW,BURNIN} (finite-enum evaluation).")
    ctx.rule("R8", "every KernelSequence method calls the same-named kernel method once "
                   "per kernel.")
    ctx.trust(LIB_FACTS["cond"], LIB_FACTS["scan"], LIB_FACTS["vmap"])
    ctx.undecided("trace equality when epochs are appended one at a time (beyond: no event "
                  "depends on the number of configured epochs)")

    eng, init, init_res, ks_field, fields, table = engine_model(repo)
    ctx.ob("C07.R2", init, "Engine stores the kernel sequence in a field", ks_field is not None)
    if ks_field is None:
        return
    inl = make_inliner(repo, self_class=eng, field_table=table,
                       allow=lambda f: f.cls is not None and f.cls.qualname == ENGINE)
    sne = method(repo, eng, "sample_next_epoch")
    res = evaluate(repo, sne, inline=inl, inline_depth=5)
    for callee, _, _ in getattr(res, "inlined", []):
        ctx.saw(callee)

    events = []  # (name, term, node, cond, idx)
    scans = []
    for idx, (t, node, cond) in enumerate(res.calls):
        ev = event_of(t, ks_field)
        if ev:
            events.append((ev, t, node, cond, idx))
        if is_call(t, "jax.lax.scan"):
            scans.append((t, node, cond, idx))
    ctx.call_sites += len(res.calls)

    # ---- scan body
    scan_events = []
    scan_fi = None
    scan_res = None
    for t, node, cond, idx in scans:
        f = kw(t, "f", 0)
        if f and f[0] == "fn":
            scan_fi = repo.functions.get(f[1])
            if scan_fi is not None:
                scan_res = evaluate(repo, scan_fi, inline=inl, inline_depth=2)
                for j, (t2, node2, cond2) in enumerate(scan_res.calls):
                    ev = event_of(t2, ks_field)
                    if ev:
                        scan_events.append((ev, t2, node2, cond2, j))
                        events.append((ev, t2, node2,
                                       cond + ((("inscan", kw(t, "xs", 2)), True),) + cond2,
                                       idx + 0.5))
    events.sort(key=lambda e: e[4])
    names = [e[0] for e in events]
    ctx.extra["event_order"] = names
    ctx.require_min("kernel-sequence events reachable from sample_next_epoch",
                    len(events), 5)

    type_t = ("a", ("a", ("a", n("self"), "current_epoch"), "config"), "type")
    INIT = ("cmp", "==", type_t, ("g", f"{ETYPE}.INITIAL_VALUES"))
    POST = ("cmp", "==", type_t, ("g", f"{ETYPE}.POSTERIOR"))

    # ------------------------------------------------------------- R1
    # precondition guards (`if c: raise`) are assumptions of the lifecycle, not gates of
    # events: their fall-through negations are removed from the event conditions
    assumptions = set()
    for rc, _, _ in res.raises:
        if rc:
            a_, p_ = rc[-1]
            assumptions.add((a_, not p_))
    events = [(nm, t, nd, tuple(x for x in cond if x not in assumptions), idx)
              for nm, t, nd, cond, idx in events]
    nxt = [i for i, (t, _, _) in enumerate(res.calls)
           if t[0] == "call" and t[1][0] == "a" and t[1][2] == "next"
           and t[1][1] == ("a", n("self"), "_epoch_manager")]
    ctx.ob("C07.R1", sne, "the next epoch is fetched from the epoch manager before any "
                          "kernel event of sample_next_epoch",
           len(nxt) == 1 and all(nxt[0] < e[4] for e in events),
           detail=f"epoch_manager.next() at call #{nxt}")
    for name, t, node, cond, idx in events:
        at = atoms(cond)
        if name == "end_warmup":
            continue
        ctx.ob("C07.R1", sne, f"event {name} is unreachable when the epoch type is "
                              f"INITIAL_VALUES", (INIT, False) in at,
               detail=f"path condition {[pretty(a) + '=' + str(p) for a, p in at]}",
               node=node, stmt=f"{name} without initial-values exclusion")
    # the initial-values branch returns
    ret_init = [r for r in res.returns if (INIT, True) in atoms(r[0])]
    ctx.ob("C07.R1", sne, "the INITIAL_VALUES branch returns before any kernel helper",
           len(ret_init) >= 1, detail=f"{len(res.returns)} returns")

    # ------------------------------------------------------------- R2 order and counts
    def occ(nm):
        return [e for e in events if e[0] == nm]

    for nm in ("start_epoch", "end_epoch"):
        o = occ(nm)
        ctx.ob("C07.R2", sne, f"{nm} happens exactly once per epoch, outside any loop, "
                              f"unconditionally (given a non-initial epoch)",
               len(o) == 1 and not in_loop(o[0][3])
               and atoms(o[0][3]) <= {(INIT, False)},
               detail=f"{len(o)} occurrence(s); condition "
                      f"{[pretty(a) for a, _ in atoms(o[0][3])] if o else ''}",
               stmt=f"{nm} x{len(o)}")
    tr = occ("transition")
    ctx.ob("C07.R2", sne, "transition happens only inside the scan body of the chunk loop",
           len(tr) == 1 and in_loop(tr[0][3])
           and any(t[0] == "inscan" for t, _ in tr[0][3]),
           detail=f"{len(tr)} transition site(s)", stmt=f"transition x{len(tr)}")
    tn = occ("tune")
    ctx.ob("C07.R2", sne, "tune happens at most once per epoch, outside any loop",
           len(tn) == 1 and not in_loop(tn[0][3]), detail=f"{len(tn)} tune site(s)",
           stmt=f"tune x{len(tn)}")
    order_ok = False
    if occ("start_epoch") and tr and occ("end_epoch") and tn:
        order_ok = (occ("start_epoch")[0][4] < tr[0][4] < occ("end_epoch")[0][4]
                    < tn[0][4])
    ctx.ob("C07.R2", sne, "order: start_epoch < transitions < end_epoch < tune", order_ok,
           detail=f"observed order {names}", stmt="order " + " ".join(names))
    other = [e for e in events if e[0] not in ("start_epoch", "transition", "end_epoch",
                                               "tune", "end_warmup")]
    ctx.ob("C07.R2", sne, "no other kernel-sequence event is reachable from "
                          "sample_next_epoch", not other,
           detail=str([e[0] for e in other]))

    # ------------------------------------------------------------- R3 counts
    sfd = method(repo, eng, "_sample_for_duration")
    from ..core.cfg import CFG, calls_of_stmt
    cfg = CFG(sfd.node)
    loops = [s for s in cfg.stmts if isinstance(s, ast.For)]
    guard = None
    r_sfd = evaluate(repo, sfd, inline=None)
    # the guard: the `if` whose raise sits under a `... % ...` condition (however the test
    # is spelled: `d % c`, `d % c != 0`, `not d % c == 0`)
    mod_raises = [node for (cond, exc, node) in r_sfd.raises
                  if any(a[0] == "op" and a[1] == "%" for a, _ in cond)]
    for s in cfg.stmts:
        if isinstance(s, ast.If) and any(b in mod_raises for b in ast.walk(s)):
            guard = s
    chunk_t = ("a", n("self"), "_jitted_sample_duration")
    dur = n("duration")
    if guard is not None and len(loops) == 1:
        gt = None
        for (cond, exc, node) in r_sfd.raises:
            for a, pol in cond:
                if a[0] == "op" and a[1] == "%":
                    gt = (a, pol)
        ctx.ob("C07.R3", sfd, "the divisibility guard tests duration % chunk and raises "
                              "when it is non-zero",
               gt is not None and gt[0] == ("op", "%", dur, chunk_t) and gt[1] is True,
               detail=short(gt[0]) if gt else "guard not found", node=guard)
        ctx.ob("C07.R3", sfd, "the divisibility guard dominates the chunk loop",
               cfg.dominates(guard, loops[0]), node=loops[0])
    else:
        ctx.ob("C07.R3", sfd, "a `duration % chunk` guard that raises precedes a single "
                              "chunk loop", False, detail=f"guard={guard is not None}, "
                                                          f"loops={len(loops)}",
               stmt="missing divisibility guard")
    lp = r_sfd.loops[0] if r_sfd.loops else None
    if lp is not None:
        it = lp["iter"]
        want = ("call", ("n", "range"), (("op", "//", dur, chunk_t),), ())
        its = [x for x in subterms(it) if x == want]
        # tqdm(range(..)) arrives as phi(show_progress ? tqdm(range) : range)
        ctx.ob("C07.R3", sfd, "the chunk loop runs range(duration // chunk) times",
               bool(its) and not [x for x in subterms(it) if is_call(x, "range")
                                  and x != want],
               detail=f"loop iterates {short(it)}", node=lp["node"],
               stmt="loop over " + pretty(it)[:150])
        # inside: keys = self._split_prng_key(chunk); sample_many_jitted(keys, ...)
        sm = [t for t, _, _ in lp["calls"] if t[1][0] == "a" and t[1][1] == n("self")
              and t[1][2] in table]
        ok_keys = False
        keys = None
        if len(sm) == 1:
            keys = sm[0][2][0] if sm[0][2] else None
            gen = lambda arg: ("call", ("a", n("self"), "_split_prng_key"), (arg,), ())  # noqa
            # form 1: a fresh split of `chunk` keys in every iteration
            ok_keys = keys == gen(chunk_t)
            # form 2: one split of `duration` keys before the loop, sliced per chunk
            if not ok_keys and keys is not None and keys[0] == "s" and keys[1] == gen(dur):
                idx = keys[2][1] if keys[2][0] == "tuple" else (keys[2],)
                full = ("slice", c(None), c(None), c(None))
                ivar = ("iter", it)
                lo1 = ("op", "*", ivar, chunk_t)
                lo2 = ("op", "*", chunk_t, ivar)
                if len(idx) == 3 and idx[0] == full and idx[2] == full and idx[1][0] == "slice":
                    lo, hi, step = idx[1][1:]
                    ok_keys = (lo in (lo1, lo2) and step == c(None)
                               and hi in (("op", "+", lo, chunk_t), ("op", "+", chunk_t, lo),
                                          ("op", "*", ("op", "+", ivar, c(1)), chunk_t)))
        ctx.ob("C07.R3", sfd, "each chunk scans over exactly `chunk` fresh keys "
                              "(_split_prng_key(chunk) per chunk, or consecutive chunk-sized "
                              "slices of one _split_prng_key(duration)) in one jitted call",
               ok_keys, detail=f"{len(sm)} jitted call(s) in loop; "
                               f"keys={short(keys) if keys else '?'}",
               node=lp["node"], stmt="chunk keys")
        # the epoch clock, kernel states and model states are threaded from chunk to chunk
        getter = lambda a: repo.lookup_method(eng, a, "getter")  # noqa: E731
        r2 = evaluate(repo, sfd, props=getter, inline_depth=2)
        lp2 = r2.loops[0] if r2.loops else None
        sm2 = [t for t, _, _ in (lp2["calls"] if lp2 else []) if t[1][0] == "a"
               and t[1][1] == n("self") and t[1][2] in table]
        target = table.get(sm2[0][1][2]) if sm2 else None
        if sm2 and target is not None:
            ps = [p_ for p_ in target.params() if p_ != "self"]
            call2 = sm2[0]
            rt_t = evaluate(repo, target).ret()
            stores2 = {loc: val for loc, val, _, _ in lp2["stores"]}
            for pos, pname in enumerate(ps):
                if pos == 0 or pos >= len(call2[2]):
                    continue
                arg = call2[2][pos]
                ok_c = arg[0] == "carried" and arg[1][0] == "a" and arg[1][1] == n("self")
                ctx.ob("C07.R3", sfd, f"the `{pname}` handed to every chunk is the value left "
                                      f"by the previous chunk (re-read from the engine field "
                                      f"inside the loop, not a copy taken before the loop)",
                       ok_c, detail=f"argument {short(arg, 100)}", node=lp["node"],
                       stmt=f"stale {pname} between chunks")
                if ok_c:
                    field = arg[1]
                    newv = stores2.get(field)
                    # which output of the sampling function carries this parameter?
                    out_idx = None
                    if rt_t is not None and rt_t[0] == "tuple":
                        for j, o in enumerate(rt_t[1]):
                            base = o
                            while base[0] == "loop":
                                base = base[2]
                            if base[0] == "a" and base[2] == pname and is_call(
                                    base[1][1] if base[1][0] == "proj" else base[1],
                                    "jax.lax.scan"):
                                out_idx = j
                    ctx.ob("C07.R3", sfd, f"after each chunk the engine stores the "
                                          f"`{pname}` returned by the sampling function back "
                                          f"into the same field",
                           newv is not None and out_idx is not None
                           and newv == ("proj", call2, out_idx),
                           detail=f"stored {short(newv or (), 80)}; output index {out_idx}",
                           node=lp["node"], stmt=f"carry write-back {pname}")
    else:
        ctx.ob("C07.R3", sfd, "chunk loop found", False, unproven=True)
    # call site passes the epoch's duration
    dur_calls = [t for t, _, _ in res.calls
                 if t[1] == ("a", n("self"), "_sample_for_duration")]
    want_dur = ("a", ("a", ("a", n("self"), "current_epoch"), "config"), "duration")
    ctx.ob("C07.R3", sne, "_sample_for_duration is called once with the current epoch's "
                          "configured duration",
           len(dur_calls) == 1 and kw(dur_calls[0], "duration", 0) == want_dur,
           detail=short(dur_calls[0]) if dur_calls else "no call")
    # the scan body
    if scan_res is not None and scan_fi is not None:
        tr_in = [e for e in scan_events if e[0] == "transition"]
        ctx.ob("C07.R3", scan_fi, "the scan body performs exactly one transition, "
                                  "unconditionally",
               len(tr_in) == 1 and not tr_in[0][3], detail=f"{len(tr_in)} transitions")
        params = scan_fi.params()
        carry = n(params[0]) if params else n("carry")
        adv = [(j, t) for j, (t, _, _) in enumerate(scan_res.calls)
               if t[1][0] == "a" and t[1][2] == "advance_time"]
        if tr_in:
            tt = tr_in[0][1]
            ep = tt[2][3] if len(tt[2]) > 3 else kw(tt, "epoch")
            ctx.ob("C07.R3", scan_fi, "the transition receives the carried epoch state "
                                      "(time before the advance)",
                   ep == ("a", carry, "epoch"), detail=f"epoch argument {short(ep or ())}")
            ok_adv = (len(adv) == 1 and adv[0][0] > tr_in[0][4]
                      and adv[0][1][1][1] == ("a", carry, "epoch")
                      and adv[0][1][2] == (c(1),))
            ctx.ob("C07.R3", scan_fi, "time advances by exactly 1, once, after the "
                                      "transition", ok_adv,
                   detail=f"advance calls {[short(a[1]) for a in adv]} at "
                          f"{[a[0] for a in adv]}, transition at {tr_in[0][4]}",
                   stmt="advance_time placement")
            rt = scan_res.ret()
            ok_carry = False
            if rt and rt[0] == "tuple" and is_call(rt[1][0], "liesel.goose.engine.Carry"):
                nc = rt[1][0]
                ok_carry = (kw(nc, "epoch", 2) == ("a", carry, "epoch")
                            and kw(nc, "kernel_states", 0) == ("a", tt, "kernel_states")
                            and kw(nc, "model_state", 1) == ("a", tt, "model_state"))
            ctx.ob("C07.R3", scan_fi, "the new carry holds the transition's kernel states "
                                      "and model state and the advanced epoch", ok_carry,
                   detail=short(rt or ()))
        # the scan is over the keys parameter with the initial carry from the arguments
    else:
        ctx.ob("C07.R3", sne, "scan body found", False, unproven=True)
    adv_fi = repo.func("liesel.goose.epoch.EpochState.advance_time")
    ra = evaluate(repo, adv_fi)
    heap = ra.env.heap
    t_ok = heap.get(("a", n("self"), "time")) == ("op", "+", ("a", n("self"), "time"), n("by"))
    ti_ok = heap.get(("a", n("self"), "time_in_epoch")) == (
        "op", "+", ("a", n("self"), "time_in_epoch"), n("by"))
    ctx.ob("C07.R3", adv_fi, "advance_time adds `by` to both the global and the "
                             "within-epoch time", t_ok and ti_ok,
           detail=str({pretty(k): pretty(v) for k, v in heap.items()}))
    ts = repo.func("liesel.goose.epoch.EpochConfig.to_state")
    rts = evaluate(repo, ts).ret()
    ok_ts = (rts is not None and is_call(rts, "liesel.goose.epoch.EpochState")
             and kw(rts, "time_in_epoch", 4) == c(0)
             and kw(rts, "time", 2) == n("time_before_epoch")
             and kw(rts, "config", 0) == n("self")
             and kw(rts, "nth_epoch", 1) == n("nth_epoch"))
    ctx.ob("C07.R3", ts, "a new epoch state starts at within-epoch time 0 and global time "
                         "= time before the epoch", ok_ts, detail=short(rts or ()))

    from .c16 import clock_obligations
    clock_obligations(ctx, "C07.R3")

    # ------------------------------------------------------------- R4 tuning
    if tn:
        name, t, node, cond, idx = tn[0]
        at = atoms(cond)
        ad = [a for a, pol in at if is_call(a, f"{ETYPE}.is_adaptation")]
        ok = (len(ad) == 1 and (ad[0], True) in at and ad[0][2] == (type_t,))
        extra = [(a, p) for a, p in at if a != INIT and not (ad and a == ad[0])]
        ctx.ob("C07.R4", sne, "tune is guarded by exactly is_adaptation(current epoch type)",
               ok and not extra,
               detail=f"condition {[pretty(a) + '=' + str(p) for a, p in at]}",
               node=node, stmt="tune guard " + str(sorted(pretty(a) for a, _ in at)))
        hist = t[2][4] if len(t[2]) > 4 else kw(t, "history")
        hr = ("a", n("self"), "_history_required_for_tuning")
        ok_h = False
        if hist is not None and hist[0] == "phi" and hist[1] == hr:
            cur = hist[2]
            ok_h = (hist[3] == c(None)
                    and any(x == ("call", ("a", ("a", n("self"), "_position_chain"),
                                           "get_current_chain"), (), ())
                            for x in subterms(cur)))
        ctx.ob("C07.R4", sne, "history = the current epoch's position chain when a kernel "
                              "needs history, else None", ok_h,
               detail=f"history argument {short(hist or ())}", node=node,
               stmt="tune history " + pretty(hist or ())[:150])
        hreq = fields.get("_history_required_for_tuning")
        ok_req = hreq is not None and is_call(hreq, "any") and any(
            x[0] == "a" and x[2] == "needs_history" for x in subterms(hreq))
        ctx.ob("C07.R4", init, "history is required iff any kernel has needs_history",
               ok_req, detail=short(hreq or ()))

    # ------------------------------------------------------------- R5 latch
    ew = occ("end_warmup")
    if len(ew) != 1:
        ctx.ob("C07.R5", sne, "end_warmup has exactly one call site, in the epoch start",
               False, detail=f"{len(ew)} sites", stmt=f"end_warmup x{len(ew)}")
    else:
        name, t, node, cond, idx = ew[0]
        at = atoms(cond)
        latches = [a for a, pol in at if a[0] == "a" and a[1] == n("self") and not pol
                   and fields.get(a[2]) == c(False)]
        ctx.ob("C07.R5", sne, "end_warmup is guarded by `type == POSTERIOR`",
               (POST, True) in at, node=node,
               detail=f"condition {[pretty(a) + '=' + str(p) for a, p in at]}",
               stmt="end_warmup guard")
        ctx.ob("C07.R5", sne, "end_warmup is guarded by a once-only latch (a boolean field "
                              "initialised to False and required to be False)",
               len(latches) == 1, node=node,
               detail=f"latch candidates {[pretty(a) for a in latches]}",
               stmt="end_warmup latch")
        ctx.ob("C07.R5", sne, "end_warmup precedes start_epoch and is outside any loop",
               occ("start_epoch") and idx < occ("start_epoch")[0][4] and not in_loop(cond))
        if len(latches) == 1:
            latch = latches[0]
            sets = [(val, tuple(x for x in sc if x not in assumptions))
                    for loc, val, nd, sc in res.stores if loc == latch]
            ok = any(val == c(True) and atoms(sc) <= at for val, sc in sets)
            bad_reset = [val for val, sc in sets if val != c(True)]
            ctx.ob("C07.R5", sne, f"the latch {pretty(latch)} is set to True on every path "
                                  f"that calls end_warmup (otherwise end_warmup runs again "
                                  f"before each later posterior epoch)", ok and not bad_reset,
                   detail=f"{len(sets)} assignment(s) to the latch reachable from "
                          f"sample_next_epoch", node=node,
                   stmt=f"latch {pretty(latch)} never set on the guarded path")
        # advance_epoch of the chain managers happens after end_warmup
        adv_idx = [i for i, (t2, _, _) in enumerate(res.calls)
                   if t2[1][0] == "a" and t2[1][2] == "advance_epoch"]
        ctx.ob("C07.R5", sne, "end_warmup runs before the chains advance to the posterior "
                              "epoch", adv_idx and idx < min(adv_idx),
               detail=f"end_warmup at {idx}, advance_epoch at {adv_idx}")

    einit_f = method(repo, eng, "__init__")
    rei_f = evaluate(repo, einit_f)
    em_st = [val for loc, val, _, cond in rei_f.stores
             if loc == ("a", n("self"), "_epoch_manager")]
    ctx.ob("C07.R1", einit_f, "every engine drives its own EpochManager, created from the "
                              "epoch configs it was given (a manager shared with the builder "
                              "or another engine would share the epoch pointer and the clock)",
           len(em_st) == 1 and is_call(em_st[0], "liesel.goose.epoch.EpochManager")
           and em_st[0][2] == (n("epoch_configs"),),
           detail=short(em_st[0], 80) if em_st else "no store", stmt="engine epoch manager")
    # the kernel list is fixed once the sequence is made: kernel i owns state slot i for
    # the whole run, so nothing may reorder / grow / shrink the list (get_kernels() hands
    # out the list itself, not a copy)
    SELF_ = n("self")
    klists = {("a", SELF_, "_kernels"),
              ("a", ("a", SELF_, "_kernel_sequence"), "_kernels"),
              ("call", ("a", ("a", SELF_, "_kernel_sequence"), "get_kernels"), (), ()),
              ("call", ("a", SELF_, "get_kernels"), (), ())}
    MUTATORS = {"sort", "append", "extend", "insert", "pop", "remove", "reverse", "clear",
                "__setitem__", "__delitem__", "__iadd__"}
    kseq = repo.cls("liesel.goose.kernel_sequence.KernelSequence")
    muts_k, n_scanned = [], 0
    for ci_ in (eng, kseq):
        for mname, fis in sorted(ci_.methods.items()):
            for fi_ in fis:
                if fi_.name == "__init__" and ci_ is kseq:
                    continue
                n_scanned += 1
                rk_ = evaluate(repo, fi_)
                for t, nd, _ in rk_.calls:
                    if t[0] == "call" and t[1][0] == "a" and t[1][2] in MUTATORS \
                            and t[1][1] in klists:
                        muts_k.append((fi_, nd, pretty(t)[:80]))
                for loc, _, nd, _ in rk_.stores:
                    if loc[0] == "s" and loc[1] in klists:
                        muts_k.append((fi_, nd, "item store " + pretty(loc)[:60]))
                    if loc in klists:
                        muts_k.append((fi_, nd, "rebinds " + pretty(loc)[:60]))
    for fi_, nd, what in muts_k:
        ctx.ob("C07.R1", fi_, "the kernel list is not reordered or changed after the sequence "
                              "was created (kernel i keeps state slot i)", False, node=nd,
               detail=what, stmt="kernel list mutated: " + what)
    ctx.ob("C07.R1", eng, f"no method of Engine / KernelSequence mutates the kernel list "
                          f"({n_scanned} methods)", not muts_k, nontrivial=False)
    # ------------------------------------------------------------- R6 / R7 dispatch
    dispatch_obligations(ctx, "C07.R6", "C07.R7")

    # ------------------------------------------------------------- R8 kernel sequence
    n_ok = kernel_sequence_obligations(ctx, "C07.R8", EVENTS)
    ctx.require_min("KernelSequence lifecycle methods", n_ok, 6)
    n_ev = engine_event_obligations(ctx, "C07.R8")
    ctx.require_min("engine lifecycle events", n_ev, 4)

    # sample_all_epochs drives sample_next_epoch while epochs remain
    sae = method(repo, eng, "sample_all_epochs")
    rs = evaluate(repo, sae)
    lp = rs.loops[0] if rs.loops else None
    ok = (lp is not None and lp["cond"] is not None
          and any(x[0] == "a" and x[2] == "has_more" for x in subterms(lp["cond"]))
          and any(t[1] == ("a", n("self"), "sample_next_epoch") for t, _, _ in lp["calls"]))
    ctx.ob("C07.R2", sae, "sample_all_epochs samples one epoch at a time while the epoch "
                          "manager has more", ok)

    # ---- shared mechanisms: the neighbour's rules run as obligations of this property
    ctx.include("C16", "C07.R9", only=['C16.R4', 'C16.R1'])
    ctx.include("C12", "C07.R9", only=['C12.R3'])
    ctx.rule("R9", "shared mechanisms, run as obligations of this property: the builder hands the engine the schedule (configs), and the chunk length, it validated (C16.R4); only valid epochs enter the schedule the kernels are driven by, and a rejected one leaves it unchanged (C16.R1); the history handed to tune is that epoch's recorded chain (C12.R3).")
