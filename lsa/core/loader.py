"""
Parse /repo/liesel, build module / class / function tables and resolve names.

Nothing here imports or executes liesel; everything is derived from the syntax trees
of the current working tree.
"""

from __future__ import annotations

import ast
import hashlib
import os
from dataclasses import dataclass, field


class AnalysisError(Exception):
    """The question could not even be asked (vanished anchor, parse failure...)."""


class AnchorMissing(AnalysisError):
    pass


def _body_without_doc(fnode) -> list:
    body = list(fnode.body)
    if body and isinstance(body[0], ast.Expr) and isinstance(getattr(body[0], "value", None),
                                                             ast.Constant) \
            and isinstance(body[0].value.value, str):
        body = body[1:]
    return body


_BASE_NESTED: dict | None = None


def _baseline_nested() -> dict:
    global _BASE_NESTED
    if _BASE_NESTED is None:
        _BASE_NESTED = {}
        p = os.path.join(os.path.dirname(os.path.dirname(os.path.abspath(__file__))),
                         "baseline_nested.txt")
        if os.path.exists(p):
            for line in open(p):
                if "\t" in line:
                    k, v = line.rstrip("\n").split("\t")
                    _BASE_NESTED[k] = v.split(",")
    return _BASE_NESTED


@dataclass
class FunctionInfo:
    qualname: str  # e.g. liesel.goose.mh.mh_step or liesel.goose.rw.RWKernel.tune
    node: ast.FunctionDef | ast.Lambda
    module: "ModuleInfo"
    cls: "ClassInfo | None" = None
    parent: "FunctionInfo | None" = None  # enclosing function for nested defs

    @property
    def name(self) -> str:
        return self.qualname.rsplit(".", 1)[-1]

    @property
    def file(self) -> str:
        return self.module.relpath

    @property
    def lineno(self) -> int:
        return self.node.lineno

    def pos_params(self) -> list[str]:
        """positional(-or-keyword) parameters only: what a positional call binds"""
        a = self.node.args
        return [x.arg for x in a.posonlyargs + a.args]

    def params(self) -> list[str]:
        a = self.node.args
        names = [x.arg for x in a.posonlyargs + a.args]
        if a.vararg:
            names.append("*" + a.vararg.arg)
        names += [x.arg for x in a.kwonlyargs]
        if a.kwarg:
            names.append("**" + a.kwarg.arg)
        return names

    def decorators(self) -> list[str]:
        if isinstance(self.node, ast.Lambda):
            return []
        return [dotted(d) or dotted(getattr(d, "func", None)) or ast.unparse(d)
                for d in self.node.decorator_list]

    def nested(self, name: str) -> "FunctionInfo":
        q = f"{self.qualname}.<locals>.{name}"
        funcs = self.module.repo.functions
        fi = funcs.get(q)
        if fi is None:
            fi = self._nested_fallback(name)
        if fi is None:
            raise AnchorMissing(f"nested function {q} not found")
        return fi

    def _nested_fallback(self, name: str) -> "FunctionInfo | None":
        """The closure a rule asks for by its old name: (1) RENAMED in place -- the parent
        still defines the same number of closures in the same order as when the rules were
        written (lsa/baseline_nested.txt), so the one at the old position is it; (2) HOISTED
        -- a function of that name now lives in an enclosing function or at module level."""
        funcs = self.module.repo.functions
        pre = self.qualname + ".<locals>."
        mine = sorted((f.node.lineno, f) for k, f in funcs.items()
                      if k.startswith(pre) and "<locals>" not in k[len(pre):]
                      and "<lambda" not in k)
        base = _baseline_nested().get(self.qualname)
        if base and name in base and len(base) == len(mine):
            cand = mine[base.index(name)][1]
            if cand.name not in base:
                return cand
        p = self.parent
        while p is not None:
            cand = funcs.get(f"{p.qualname}.<locals>.{name}")
            if cand is not None:
                return cand
            p = p.parent
        cand = funcs.get(f"{self.module.name}.{name}")
        if cand is None and self.cls is not None:
            cand = funcs.get(f"{self.cls.qualname}.{name}")
        return cand


@dataclass
class ClassInfo:
    qualname: str
    node: ast.ClassDef
    module: "ModuleInfo"
    base_names: list[str] = field(default_factory=list)  # resolved qualnames or raw
    methods: dict[str, list[FunctionInfo]] = field(default_factory=dict)

    @property
    def name(self) -> str:
        return self.node.name

    @property
    def file(self) -> str:
        return self.module.relpath

    def own_method(self, name: str, kind: str | None = None) -> FunctionInfo | None:
        """kind: None (plain/first), 'getter', 'setter'."""
        for fi in self.methods.get(name, []):
            decs = fi.decorators()
            is_setter = any(d.endswith(".setter") for d in decs)
            is_getter = "property" in decs or any(
                d.endswith("cached_property") for d in decs
            )
            if kind is None and not is_setter:
                return fi
            if kind == "setter" and is_setter:
                return fi
            if kind == "getter" and is_getter:
                return fi
        return None

    def class_attr(self, name: str) -> ast.expr | None:
        for st in self.node.body:
            if isinstance(st, ast.Assign):
                for t in st.targets:
                    if isinstance(t, ast.Name) and t.id == name:
                        return st.value
            if isinstance(st, ast.AnnAssign) and isinstance(st.target, ast.Name):
                if st.target.id == name and st.value is not None:
                    return st.value
        return None

    def annotated_fields(self) -> list[str]:
        """Dataclass-style field names in declaration order (own class only)."""
        out = []
        for st in self.node.body:
            if isinstance(st, ast.AnnAssign) and isinstance(st.target, ast.Name):
                ann = ast.unparse(st.annotation)
                if ann.startswith("ClassVar"):
                    continue
                out.append(st.target.id)
        return out


@dataclass
class ModuleInfo:
    name: str  # liesel.goose.mh
    relpath: str  # liesel/goose/mh.py
    path: str
    source: str
    tree: ast.Module
    repo: "Repo"
    imports: dict[str, str] = field(default_factory=dict)  # local name -> qualname
    assigns: dict[str, ast.expr] = field(default_factory=dict)  # module-level x = e

    def resolve(self, name: str) -> str | None:
        """Resolve a (possibly dotted) local name to a global qualname."""
        head, _, rest = name.partition(".")
        if head in self.imports:
            q = self.imports[head]
            return q + ("." + rest if rest else "")
        if head in self.repo.classes_by_module.get(self.name, {}) or (
            f"{self.name}.{head}" in self.repo.functions
        ) or head in self.assigns:
            return f"{self.name}.{name}"
        return None


def dotted(e: ast.AST | None) -> str | None:
    """'jax.random.uniform' for Name/Attribute chains, else None."""
    if e is None:
        return None
    parts = []
    while isinstance(e, ast.Attribute):
        parts.append(e.attr)
        e = e.value
    if isinstance(e, ast.Name):
        parts.append(e.id)
        return ".".join(reversed(parts))
    return None


class Repo:
    """All parsed modules of the package below ``root``."""

    def __init__(self, root: str, package: str = "liesel"):
        self.root = os.path.abspath(root)
        self.package = package
        self.modules: dict[str, ModuleInfo] = {}
        self.functions: dict[str, FunctionInfo] = {}
        self.classes: dict[str, ClassInfo] = {}
        self.classes_by_module: dict[str, dict[str, ClassInfo]] = {}
        self._load()

    # ------------------------------------------------------------------ loading

    def _load(self) -> None:
        pkgdir = os.path.join(self.root, self.package)
        if not os.path.isdir(pkgdir):
            raise AnalysisError(f"package directory {pkgdir} not found")
        files = []
        for dp, dn, fn in os.walk(pkgdir):
            dn[:] = [d for d in dn if d != "__pycache__"]
            for f in fn:
                if f.endswith(".py"):
                    files.append(os.path.join(dp, f))
        files.sort()
        h = hashlib.sha256()
        for path in files:
            rel = os.path.relpath(path, self.root)
            with open(path, encoding="utf-8") as fh:
                src = fh.read()
            h.update(rel.encode())
            h.update(src.encode())
            try:
                tree = ast.parse(src, filename=rel)
            except SyntaxError as e:
                raise AnalysisError(f"cannot parse {rel}: {e}") from e
            modname = rel[:-3].replace(os.sep, ".")
            if modname.endswith(".__init__"):
                modname = modname[: -len(".__init__")]
            mi = ModuleInfo(modname, rel, path, src, tree, self)
            self.modules[modname] = mi
        self.digest = h.hexdigest()
        for mi in self.modules.values():
            self._index_module(mi)
        for ci in self.classes.values():
            self._resolve_bases(ci)
        self.merged_forwarders: list[tuple[str, str]] = []
        self._merge_forwarders()
        self.renamed: list[tuple[str, str]] = []
        self._alias_renamed()
        self.inlined_helpers: list[tuple[str, str]] = []
        self._inline_new_helpers()

    # "Extract method" undone at the syntax level: a function that is not in the baseline
    # list (the rules cannot know it), is used exactly once, as a whole statement
    # (`h(...)`, `x = h(...)`, `return h(...)`), has a plain signature and returns only at
    # its end, is pasted back into its single call site -- parameters bound to the
    # arguments, its own locals prefixed.  Rules that read one function's syntax / CFG
    # (typestate, key discipline, loop shape) then see the function as it was before the
    # extraction; the evaluator's reading-through covers the helpers this leaves alone
    # (used several times, early returns).
    def _inline_new_helpers(self) -> None:
        import copy
        path = os.path.join(os.path.dirname(os.path.dirname(os.path.abspath(__file__))),
                            "baseline_functions.txt")
        if not os.path.exists(path):
            return
        base = {l.strip() for l in open(path) if l.strip()}
        uses: dict[str, int] = {}
        for mi in self.modules.values():
            for x in ast.walk(mi.tree):
                if isinstance(x, ast.Attribute):
                    uses[x.attr] = uses.get(x.attr, 0) + 1
                elif isinstance(x, ast.Name) and isinstance(x.ctx, ast.Load):
                    uses[x.id] = uses.get(x.id, 0) + 1

        def candidate(h: FunctionInfo) -> bool:
            if h.qualname in base or "<locals>" in h.qualname or h.parent is not None \
                    or not isinstance(h.node, ast.FunctionDef) \
                    or not 1 <= uses.get(h.name, 0) <= 8:
                return False
            decs = h.decorators()
            if any(d not in ("staticmethod",) for d in decs):
                return False
            a = h.node.args
            if a.vararg or a.kwarg or a.kwonlyargs or a.posonlyargs or a.defaults:
                return False
            body = _body_without_doc(h.node)
            for i_, st in enumerate(body):
                for x in ast.walk(st):
                    if isinstance(x, (ast.Yield, ast.YieldFrom, ast.Await, ast.Global,
                                      ast.Nonlocal, ast.FunctionDef, ast.AsyncFunctionDef,
                                      ast.Lambda, ast.ClassDef)):
                        return False
                    if isinstance(x, ast.Return) and not (x is st and i_ == len(body) - 1):
                        return False
                    if isinstance(x, ast.Call) and isinstance(x.func, ast.Name) \
                            and x.func.id in ("locals", "vars", "super"):
                        return False
            return bool(body)

        def resolve(call: ast.Call, f: FunctionInfo) -> FunctionInfo | None:
            fn = call.func
            if isinstance(fn, ast.Attribute) and isinstance(fn.value, ast.Name) \
                    and fn.value.id in ("self", "cls") and f.cls is not None:
                cands = f.cls.methods.get(fn.attr, [])
                return cands[0] if len(cands) == 1 else None
            if isinstance(fn, ast.Name):
                return self.functions.get(f"{f.module.name}.{fn.id}")
            return None

        def paste(h: FunctionInfo, call: ast.Call, f: FunctionInfo):
            """-> (statements, result expression | None) or None"""
            if call.keywords or any(isinstance(a_, ast.Starred) for a_ in call.args):
                return None
            params = [x.arg for x in h.node.args.args]
            is_method = h.cls is not None and "staticmethod" not in h.decorators()
            recv = call.func.value.id if isinstance(call.func, ast.Attribute) else None
            if is_method:
                if recv is None or not params:
                    return None
                self_name, params = params[0], params[1:]
            else:
                self_name = None
            if len(params) != len(call.args):
                return None
            body = copy.deepcopy(_body_without_doc(h.node))
            stored = {x.id for st in body for x in ast.walk(st)
                      if isinstance(x, ast.Name) and isinstance(x.ctx, ast.Store)}
            for st in body:
                for x in ast.walk(st):
                    if isinstance(x, ast.comprehension):
                        stored -= {y.id for y in ast.walk(x.target) if isinstance(y, ast.Name)}
            caller_names = {x.id for x in ast.walk(f.node) if isinstance(x, ast.Name)} | {
                x.arg for x in ast.walk(f.node) if isinstance(x, ast.arg)}
            pre, mapping = [], {}
            for p_, a_ in zip(params, call.args):
                if isinstance(a_, (ast.Name, ast.Constant)) and p_ not in stored:
                    mapping[p_] = a_
                elif isinstance(a_, ast.Attribute) and p_ not in stored and all(
                        isinstance(y, (ast.Attribute, ast.Name)) for y in ast.walk(a_)
                        if not isinstance(y, ast.expr_context)):
                    mapping[p_] = a_
                else:
                    pre.append(ast.Assign(targets=[ast.Name(id=p_, ctx=ast.Store())], value=a_))
                    stored.add(p_)
            if self_name is not None:
                mapping[self_name] = ast.Name(id=recv, ctx=ast.Load())
            rename = {v_: f"_h_{h.name}_{v_}" for v_ in stored
                      if v_ in caller_names or v_ in params}

            class Sub(ast.NodeTransformer):
                def visit_Name(s_, nd):
                    if nd.id in rename:
                        return ast.copy_location(ast.Name(id=rename[nd.id], ctx=nd.ctx), nd)
                    if nd.id in mapping and isinstance(nd.ctx, ast.Load):
                        return ast.copy_location(copy.deepcopy(mapping[nd.id]), nd)
                    return nd
            # (the argument expressions belong to the CALLER's scope: only the targets of
            # the parameter bindings are renamed)
            for st in pre:
                tgt = st.targets[0]
                if tgt.id in rename:
                    tgt.id = rename[tgt.id]
            out = pre + [Sub().visit(st) for st in body]
            result = None
            if out and isinstance(out[-1], ast.Return):
                result = out[-1].value
                out = out[:-1]
            for st in out:
                ast.copy_location(st, call)
                ast.fix_missing_locations(st)
            return out, result

        pasted: dict[str, int] = {}

        def gen_candidate(h: FunctionInfo):
            """a new generator helper of the shape  PRE...; for X in IT: S...; yield E
            -> (pre statements, the for loop, the yield statement) or None"""
            if h.qualname in base or "<locals>" in h.qualname or h.parent is not None \
                    or not isinstance(h.node, ast.FunctionDef) \
                    or not 1 <= uses.get(h.name, 0) <= 8:
                return None
            if any(d not in ("staticmethod",) for d in h.decorators()):
                return None
            a = h.node.args
            if a.vararg or a.kwarg or a.kwonlyargs or a.posonlyargs or a.defaults:
                return None
            body = _body_without_doc(h.node)
            if not body or not isinstance(body[-1], ast.For) or body[-1].orelse:
                return None
            loop = body[-1]
            ys = [x for st in body for x in ast.walk(st) if isinstance(x, (ast.Yield, ast.YieldFrom))]
            last = loop.body[-1] if loop.body else None
            if len(ys) != 1 or not (isinstance(last, ast.Expr) and last.value is ys[0]
                                    and isinstance(ys[0], ast.Yield) and ys[0].value is not None):
                return None
            for st in body:
                for x in ast.walk(st):
                    if isinstance(x, (ast.Return, ast.FunctionDef, ast.Lambda, ast.ClassDef,
                                      ast.Global, ast.Nonlocal, ast.Break, ast.Continue)):
                        return None
            return body[:-1], loop, last

        def paste_gen(h: FunctionInfo, got, for_st: ast.For, f: FunctionInfo):
            call = for_st.iter
            fake = copy.copy(h)
            # reuse paste(): bind parameters / rename locals on a body without the yield
            pre, loop, ystmt = got
            import types
            shadow = ast.FunctionDef(name=h.node.name, args=h.node.args,
                                     body=list(pre) + [loop], decorator_list=[], returns=None,
                                     type_comment=None, type_params=[])
            fake.node = shadow
            res = paste(fake, call, f)
            if res is None:
                return None
            out, _ = res
            new_loop = out[-1]
            if not isinstance(new_loop, ast.For) or not isinstance(new_loop.body[-1], ast.Expr) \
                    or not isinstance(new_loop.body[-1].value, ast.Yield):
                return None
            yielded = new_loop.body[-1].value.value
            bind = ast.Assign(targets=[copy.deepcopy(for_st.target)], value=yielded)
            for t_ in ast.walk(bind.targets[0]):
                if isinstance(t_, ast.Name):
                    t_.ctx = ast.Store()
            ast.copy_location(bind, for_st)
            new_loop.body = new_loop.body[:-1] + [bind] + list(for_st.body)
            ast.fix_missing_locations(new_loop)
            return out

        def rewrite_block(stmts: list, f: FunctionInfo) -> bool:
            changed = False
            i_ = 0
            while i_ < len(stmts):
                st = stmts[i_]
                call = None
                # [e for T in gen(...)] over a new generator helper: written as the loop it
                # abbreviates, so that the generator can be pasted in (the evaluator turns
                # the accumulator loop back into the comprehension)
                val = getattr(st, "value", None) if isinstance(st, (ast.Assign, ast.Return)) else None
                if isinstance(val, ast.ListComp) and len(val.generators) == 1 \
                        and not val.generators[0].ifs and isinstance(val.generators[0].iter, ast.Call):
                    hg0 = resolve(val.generators[0].iter, f)
                    if hg0 is not None and hg0 is not f and gen_candidate(hg0) is not None:
                        acc = f"_lsa_acc{st.lineno}"
                        init = ast.Assign(targets=[ast.Name(id=acc, ctx=ast.Store())],
                                          value=ast.List(elts=[], ctx=ast.Load()))
                        app = ast.Expr(value=ast.Call(
                            func=ast.Attribute(value=ast.Name(id=acc, ctx=ast.Load()),
                                               attr="append", ctx=ast.Load()),
                            args=[val.elt], keywords=[]))
                        loop_ = ast.For(target=val.generators[0].target,
                                        iter=val.generators[0].iter, body=[app], orelse=[])
                        fin = copy.copy(st)
                        fin.value = ast.Name(id=acc, ctx=ast.Load())
                        for x_ in (init, loop_, fin):
                            ast.copy_location(x_, st)
                            ast.fix_missing_locations(x_)
                        stmts[i_:i_ + 1] = [init, loop_, fin]
                        changed = True
                        continue
                if isinstance(st, ast.For) and not st.orelse and isinstance(st.iter, ast.Call):
                    hg = resolve(st.iter, f)
                    got_g = gen_candidate(hg) if hg is not None and hg is not f else None
                    if got_g is not None:
                        rep = paste_gen(hg, got_g, st, f)
                        if rep is not None:
                            stmts[i_:i_ + 1] = rep
                            self.inlined_helpers.append((f.qualname, hg.qualname))
                            pasted[hg.qualname] = pasted.get(hg.qualname, 0) + 1
                            if pasted[hg.qualname] >= uses.get(hg.name, 0):
                                for k_ in [k_ for k_, v_ in self.functions.items() if v_ is hg]:
                                    del self.functions[k_]
                                if hg.cls is not None:
                                    hg.cls.methods.pop(hg.name, None)
                            changed = True
                            i_ += len(rep)
                            continue
                if isinstance(st, ast.Expr) and isinstance(st.value, ast.Call):
                    call = st.value
                elif isinstance(st, (ast.Assign, ast.Return, ast.AnnAssign)) and isinstance(
                        getattr(st, "value", None), ast.Call):
                    call = st.value
                h = resolve(call, f) if call is not None else None
                if h is not None and h is not f and candidate(h):
                    got = paste(h, call, f)
                    if got is not None:
                        body, result = got
                        tail = []
                        none_ = ast.Constant(value=None)
                        if isinstance(st, ast.Expr):
                            tail = []
                        elif isinstance(st, ast.Return):
                            tail = [ast.Return(value=result if result is not None else none_)]
                        else:
                            new_st = copy.copy(st)
                            new_st.value = result if result is not None else none_
                            tail = [new_st]
                        for t_ in tail:
                            ast.copy_location(t_, st)
                            ast.fix_missing_locations(t_)
                        stmts[i_:i_ + 1] = body + tail
                        self.inlined_helpers.append((f.qualname, h.qualname))
                        pasted[h.qualname] = pasted.get(h.qualname, 0) + 1
                        if pasted[h.qualname] >= uses.get(h.name, 0):
                            # every use was a whole statement and has been pasted: the
                            # helper itself is no longer a function of its own
                            for k_ in [k_ for k_, v_ in self.functions.items() if v_ is h]:
                                del self.functions[k_]
                            if h.cls is not None:
                                h.cls.methods.pop(h.name, None)
                        changed = True
                        i_ += len(body) + len(tail)
                        continue
                for fld in ("body", "orelse", "finalbody"):
                    sub_ = getattr(st, fld, None)
                    if isinstance(sub_, list) and sub_ and isinstance(sub_[0], ast.stmt) \
                            and not isinstance(st, (ast.FunctionDef, ast.ClassDef)):
                        changed |= rewrite_block(sub_, f)
                for hd in getattr(st, "handlers", []) or []:
                    changed |= rewrite_block(hd.body, f)
                i_ += 1
            return changed

        for _round in range(3):
            any_change = False
            for f in list(self.functions.values()):
                if isinstance(f.node, ast.FunctionDef) and f.parent is None:
                    any_change |= rewrite_block(f.node.body, f)
            if not any_change:
                break

    # A method / function the rules know by name is gone, and in the same class / module
    # exactly one function appeared that the rules do not know: it was RENAMED.  It is
    # registered under the old name as well, so the rules keep finding it (its call sites
    # use the new name and are read through like any new helper).
    def _alias_renamed(self) -> None:
        path = os.path.join(os.path.dirname(os.path.dirname(os.path.abspath(__file__))),
                            "baseline_functions.txt")
        if not os.path.exists(path):
            return
        base = {l.strip() for l in open(path) if l.strip()}
        cur = {f.qualname for f in self.functions.values() if "<locals>" not in f.qualname
               and "<lambda" not in f.qualname}
        scopes: dict[str, tuple[list, list]] = {}
        for q in base - cur:
            scopes.setdefault(q.rpartition(".")[0], ([], []))[0].append(q)
        for q in cur - base:
            scopes.setdefault(q.rpartition(".")[0], ([], []))[1].append(q)
        for scope, (gone, new) in scopes.items():
            if len(gone) != 1 or len(new) != 1:
                continue
            if scope not in self.classes and scope not in self.modules:
                continue
            fis = [(k, f) for k, f in self.functions.items() if f.qualname == new[0]]
            old_name = gone[0].rpartition(".")[2]
            for k, f in fis:
                suffix = k[len(f.qualname):]          # '', '#setter', ...
                self.functions.setdefault(gone[0] + suffix, f)
            if scope in self.classes:
                ci = self.classes[scope]
                ci.methods.setdefault(old_name, list(ci.methods.get(new[0].rpartition(".")[2], [])))
            self.renamed.append((gone[0], new[0]))

    # A function whose whole body is `return <private helper>(<its own parameters>)` and
    # whose helper is used nowhere else is the SAME function written in two pieces (the
    # usual "public wrapper + _impl" refactor).  The two are merged before any rule looks:
    # the wrapper keeps its name, signature and decorators and gets the helper's body; the
    # helper's closures move with it.  Every rule -- term evaluation, CFG, syntax -- then
    # sees what it would have seen before the split.
    def _merge_forwarders(self) -> None:
        import copy
        # where every private identifier is defined / used: name -> [(class node | None, kind)]
        occ: dict[str, list] = {}

        def scan(node, scope):
            for ch in ast.iter_child_nodes(node):
                if isinstance(ch, ast.ClassDef):
                    scan(ch, ch)
                    continue
                if isinstance(ch, (ast.FunctionDef, ast.AsyncFunctionDef)) and ch.name.startswith("_"):
                    occ.setdefault(ch.name, []).append((scope, "def"))
                elif isinstance(ch, ast.Attribute) and ch.attr.startswith("_"):
                    occ.setdefault(ch.attr, []).append((scope, "use"))
                elif isinstance(ch, ast.Name) and ch.id.startswith("_"):
                    occ.setdefault(ch.id, []).append((scope, "use"))
                elif isinstance(ch, ast.alias) and ch.name.startswith("_"):
                    occ.setdefault(ch.name, []).append(("import", "import"))
                scan(ch, scope)
        for mi in self.modules.values():
            scan(mi.tree, mi)          # scope: the class node, else the module

        def used_once(name, impl):
            scope = impl.cls.node if impl.cls is not None else impl.module
            mine = [k for s_, k in occ.get(name, []) if s_ is scope]
            if sorted(mine) != ["def", "use"]:
                return False
            # the same private name elsewhere must be the other scope's own business
            others = {}
            for s_, k in occ.get(name, []):
                if s_ is not scope:
                    others.setdefault(id(s_) if not isinstance(s_, str) else s_, []).append(k)
            return "import" not in others and all("def" in ks for ks in others.values())
        for key, w in list(self.functions.items()):
            if w.parent is not None or not isinstance(w.node, ast.FunctionDef) or "#" in key:
                continue
            body = list(w.node.body)
            if body and isinstance(body[0], ast.Expr) and isinstance(
                    getattr(body[0], "value", None), ast.Constant) and isinstance(
                    body[0].value.value, str):
                doc, body = body[:1], body[1:]
            else:
                doc = []
            if len(body) != 1 or not isinstance(body[0], (ast.Return, ast.Expr)) \
                    or not isinstance(body[0].value, ast.Call):
                continue
            call = body[0].value
            a = w.node.args
            if a.vararg or a.kwarg or a.kwonlyargs or call.keywords:
                continue
            own = [x.arg for x in a.posonlyargs + a.args]
            f = call.func
            impl = None
            if isinstance(f, ast.Attribute) and isinstance(f.value, ast.Name) and w.cls is not None \
                    and own and f.value.id == own[0] and own[0] in ("self", "cls"):
                cands = w.cls.methods.get(f.attr, [])
                if len(cands) == 1 and cands[0].cls is w.cls:
                    impl, passed, name = cands[0], own[1:], f.attr
            elif isinstance(f, ast.Name) and w.cls is None:
                cand = self.functions.get(f"{w.module.name}.{f.id}")
                if cand is not None and cand.cls is None and cand.parent is None:
                    impl, passed, name = cand, own, f.id
            if impl is None or impl is w or not isinstance(impl.node, ast.FunctionDef) \
                    or not name.startswith("_") or name.startswith("__"):
                continue
            if not all(isinstance(x, ast.Name) for x in call.args) \
                    or [x.id for x in call.args] != passed:
                continue
            ia = impl.node.args
            iown = [x.arg for x in ia.posonlyargs + ia.args]
            if impl.cls is not None:
                iown = iown[1:]
            if iown != passed or ia.vararg or ia.kwarg or ia.kwonlyargs or impl.node.decorator_list:
                continue
            if isinstance(body[0], ast.Expr) and any(
                    isinstance(x, ast.Return) and x.value is not None
                    and not (isinstance(x.value, ast.Constant) and x.value.value is None)
                    for x in ast.walk(impl.node)):
                continue
            # the helper is defined once and used once (by this wrapper)
            if not used_once(name, impl):
                continue
            ibody = list(impl.node.body)
            if ibody and isinstance(ibody[0], ast.Expr) and isinstance(
                    getattr(ibody[0], "value", None), ast.Constant) and isinstance(
                    ibody[0].value.value, str):
                ibody = ibody[1:] or [ast.Pass()]
            merged = copy.copy(w.node)
            merged.body = doc + ibody
            w.node = merged
            ikey = next(k for k, v in self.functions.items() if v is impl)
            del self.functions[ikey]
            if impl.cls is not None:
                impl.cls.methods.pop(name, None)
            pre = impl.qualname + ".<locals>."
            for k in [k for k in self.functions if k.startswith(pre)]:
                fi = self.functions.pop(k)
                fi.qualname = w.qualname + k[len(impl.qualname):]
                if fi.parent is impl:
                    fi.parent = w
                self.functions[fi.qualname] = fi
            self.merged_forwarders.append((w.qualname, impl.qualname))

    def _index_module(self, mi: ModuleInfo) -> None:
        is_pkg = mi.relpath.endswith("__init__.py")
        pkg = mi.name if is_pkg else mi.name.rsplit(".", 1)[0]
        self.classes_by_module[mi.name] = {}

        def handle_import(st):
            if isinstance(st, ast.Import):
                for a in st.names:
                    if a.asname:
                        mi.imports[a.asname] = a.name
                    else:
                        mi.imports[a.name.split(".")[0]] = a.name.split(".")[0]
            elif isinstance(st, ast.ImportFrom):
                base = st.module or ""
                if st.level:
                    parts = pkg.split(".")
                    up = st.level - 1
                    parts = parts[: len(parts) - up] if up else parts
                    base = ".".join(parts + ([base] if base else []))
                for a in st.names:
                    mi.imports[a.asname or a.name] = f"{base}.{a.name}"

        for st in ast.walk(mi.tree):
            if isinstance(st, (ast.Import, ast.ImportFrom)):
                handle_import(st)
        for st in mi.tree.body:
            if isinstance(st, ast.Assign) and len(st.targets) == 1:
                if isinstance(st.targets[0], ast.Name):
                    mi.assigns[st.targets[0].id] = st.value
            elif isinstance(st, ast.AnnAssign) and isinstance(st.target, ast.Name):
                if st.value is not None:
                    mi.assigns[st.target.id] = st.value

        def index_body(body, prefix, cls, parent):
            for st in body:
                if isinstance(st, (ast.FunctionDef, ast.AsyncFunctionDef)):
                    q = f"{prefix}.{st.name}"
                    fi = FunctionInfo(q, st, mi, cls, parent)
                    # keep getter and setter apart
                    decs = fi.decorators()
                    key = q
                    if any(d.endswith(".setter") for d in decs):
                        key = q + "#setter"
                    elif any(d.endswith(".deleter") for d in decs):
                        key = q + "#deleter"
                    self.functions[key] = fi
                    if cls is not None and parent is None:
                        cls.methods.setdefault(st.name, []).append(fi)
                    index_nested(st, f"{q}.<locals>", fi)
                elif isinstance(st, ast.ClassDef):
                    q = f"{prefix}.{st.name}"
                    ci = ClassInfo(q, st, mi)
                    ci.base_names = [dotted(b) or dotted(getattr(b, "value", None))
                                     or ast.unparse(b) for b in st.bases]
                    self.classes[q] = ci
                    if prefix == mi.name:
                        self.classes_by_module[mi.name][st.name] = ci
                    index_body(st.body, q, ci, None)
                elif isinstance(st, (ast.If, ast.Try, ast.With)):
                    for sub in ast.iter_child_nodes(st):
                        pass
                    for fieldname in ("body", "orelse", "finalbody"):
                        index_body(getattr(st, fieldname, []) or [], prefix, cls, parent)
                    for h in getattr(st, "handlers", []) or []:
                        index_body(h.body, prefix, cls, parent)

        def index_nested(fnode, prefix, parent):
            # functions nested anywhere inside fnode's body (not in nested defs)
            stack = list(fnode.body)
            while stack:
                st = stack.pop(0)
                if isinstance(st, (ast.FunctionDef, ast.AsyncFunctionDef)):
                    q = f"{prefix}.{st.name}"
                    fi = FunctionInfo(q, st, mi, parent.cls, parent)
                    self.functions.setdefault(q, fi)
                    index_nested(st, f"{q}.<locals>", fi)
                elif isinstance(st, ast.ClassDef):
                    continue
                else:
                    for fieldname in ("body", "orelse", "finalbody"):
                        stack.extend(getattr(st, fieldname, []) or [])
                    for h in getattr(st, "handlers", []) or []:
                        stack.extend(h.body)
                    for c in getattr(st, "cases", []) or []:
                        stack.extend(c.body)

        index_body(mi.tree.body, mi.name, None, None)

    def _resolve_bases(self, ci: ClassInfo) -> None:
        out = []
        for b in ci.base_names:
            q = ci.module.resolve(b) if b else None
            q = self._follow(q) if q else None
            out.append(q if q in self.classes else (q or b))
        ci.base_names = out

    def _follow(self, q: str, depth: int = 0) -> str:
        """Follow re-exports (package __init__ imports) to the defining module."""
        if q in self.classes or q in self.functions or depth > 6:
            return q
        mod, _, name = q.rpartition(".")
        mi = self.modules.get(mod)
        if mi and name in mi.imports:
            return self._follow(mi.imports[name], depth + 1)
        if mi and name in mi.assigns:
            tgt = dotted(mi.assigns[name])
            if tgt:
                r = mi.resolve(tgt)
                if r and r != q:
                    return self._follow(r, depth + 1)
        return q

    # ------------------------------------------------------------------ queries

    def module(self, name: str) -> ModuleInfo:
        try:
            return self.modules[name]
        except KeyError:
            raise AnchorMissing(f"module {name} not found") from None

    def func(self, qualname: str) -> FunctionInfo:
        fi = self.functions.get(qualname)
        if fi is None:
            raise AnchorMissing(f"function {qualname} not found")
        return fi

    def cls(self, qualname: str) -> ClassInfo:
        ci = self.classes.get(qualname)
        if ci is None:
            raise AnchorMissing(f"class {qualname} not found")
        return ci

    def mro(self, ci: ClassInfo) -> list[ClassInfo]:
        """Depth-first, left-to-right, duplicates removed keeping the last
        occurrence (good enough for the diamond-free hierarchies of liesel and
        identical to C3 for them)."""
        order: list[ClassInfo] = []

        def visit(c: ClassInfo):
            order.append(c)
            for b in c.base_names:
                bc = self.classes.get(b)
                if bc is not None:
                    visit(bc)

        visit(ci)
        seen: set[str] = set()
        out: list[ClassInfo] = []
        for c in reversed(order):
            if c.qualname not in seen:
                seen.add(c.qualname)
                out.append(c)
        out.reverse()
        # C3 fix-up: a class must come before its bases
        changed = True
        while changed:
            changed = False
            for i, c in enumerate(out):
                for b in c.base_names:
                    for j in range(i):
                        if out[j].qualname == b:
                            out.insert(i + 1, out.pop(j))
                            changed = True
                            break
                    if changed:
                        break
                if changed:
                    break
        return out

    def lookup_method(self, ci: ClassInfo, name: str, kind: str | None = None
                      ) -> FunctionInfo | None:
        for c in self.mro(ci):
            fi = c.own_method(name, kind)
            if fi is not None:
                return fi
        return None

    def subclasses(self, ci: ClassInfo, strict: bool = True) -> list[ClassInfo]:
        out = []
        for c in self.classes.values():
            if c is ci and strict:
                continue
            if any(m.qualname == ci.qualname for m in self.mro(c)):
                out.append(c)
        return sorted(out, key=lambda c: c.qualname)

    def resolve_in(self, mi: ModuleInfo, name: str) -> str | None:
        q = mi.resolve(name)
        return self._follow(q) if q else None

    def all_functions(self):
        return list(self.functions.values())

    @property
    def property_names(self) -> set[str]:
        """Names of all attributes that are properties (have a getter) in some class."""
        if not hasattr(self, "_property_names"):
            names = set()
            for fi in self.functions.values():
                if fi.cls is not None and not isinstance(fi.node, ast.Lambda):
                    decs = fi.decorators()
                    if "property" in decs or any(d.endswith("cached_property") for d in decs):
                        names.add(fi.name)
            self._property_names = names
        return self._property_names
