"""
Deterministic equivalence probe for liesel.goose.mh.mh_step and its callers
(RWKernel, MHKernel, IWLSKernel).  Prints one line per observation and a final
SHA-256 digest of all lines.  Run from the worktree root with
PYTHONPATH=<worktree> so that the worktree's liesel is imported.
"""

import hashlib
import itertools
import os
import warnings

os.environ.setdefault("JAX_PLATFORMS", "cpu")
warnings.filterwarnings("ignore")

import jax
import jax.numpy as jnp
import numpy as np

import liesel.goose as gs
from liesel.goose import mh as mh_mod
from liesel.goose.epoch import EpochConfig, EpochType
from liesel.goose.mh import mh_step

LINES: list[str] = []


def emit(*parts):
    line = " | ".join(str(p) for p in parts)
    LINES.append(line)


def leaf_repr(x):
    """Exact description of a leaf: python type or dtype/weak_type/shape/bytes."""
    if isinstance(x, jax.Array):
        a = np.asarray(x)
        return f"jax:{a.dtype}:{bool(getattr(x, 'weak_type', False))}:{a.shape}:{a.tobytes().hex()}"
    if isinstance(x, np.ndarray | np.generic):
        a = np.asarray(x)
        return f"np:{a.dtype}:{a.shape}:{a.tobytes().hex()}"
    return f"py:{type(x).__name__}:{x!r}"


def tree_repr(tree):
    leaves, treedef = jax.tree_util.tree_flatten(tree)
    return f"{treedef} :: " + ";".join(leaf_repr(x) for x in leaves)


# ---------------------------------------------------------------------------
# 1. mh_step on a stub model whose log-prob is a free field of the state
# ---------------------------------------------------------------------------

TRACE: list[str] = []


class StubModel:
    """log_prob returns state['lp']; update_state overwrites with the proposal."""

    def extract_position(self, position_keys, model_state):
        return {k: model_state[k] for k in position_keys}

    def update_state(self, position, model_state):
        TRACE.append("update_state")
        new = dict(model_state)
        new.update(position)
        return new

    def log_prob(self, model_state):
        TRACE.append("log_prob")
        return model_state["lp"]


ZERO_SEEDS = [14620119, 20099561]  # uniform(PRNGKey(s)) == 0.0 exactly
for s in ZERO_SEEDS:
    assert float(jax.random.uniform(jax.random.PRNGKey(s))) == 0.0, s
KEYS = [jax.random.PRNGKey(s) for s in ZERO_SEEDS + [0, 1, 7, 42]]

LPS = [0.0, -1.5, 3.25, -80.0, 100.0, -np.inf, np.inf, np.nan]
CORRS = [0.0, 0.7, -0.3, np.nan, np.inf, -np.inf]

stub = StubModel()


def state_of(lp, x):
    return {
        "lp": jnp.asarray(lp, dtype=jnp.float32),
        "x": jnp.asarray(x, dtype=jnp.float32),
        "aux": jnp.arange(3, dtype=jnp.int32),
    }


def run_stub(fn, label, keys):
    for (ki, key), cur, prop, corr in itertools.product(
        enumerate(keys), LPS, LPS, CORRS
    ):
        state = state_of(cur, [1.0, 2.0])
        proposal = {
            "lp": jnp.asarray(prop, dtype=jnp.float32),
            "x": jnp.asarray([-3.0, 4.5], dtype=jnp.float32),
        }
        del TRACE[:]
        info, new_state = fn(key, proposal, state, corr)
        emit(label, ki, cur, prop, corr, tree_repr(info), tree_repr(new_state), ",".join(TRACE))
        # the property itself, as a sanity check on both sides
        acc = float(info.acceptance_prob)
        assert 0.0 <= acc <= 1.0
        moved = bool(info.position_moved)
        ref = proposal if moved else state
        assert np.array_equal(np.asarray(new_state["x"]), np.asarray(ref["x"]))
        assert np.asarray(new_state["lp"]).tobytes() == np.asarray(ref["lp"]).tobytes()


run_stub(lambda k, p, s, c: mh_step(k, stub, p, s, c), "eager", [KEYS[0], KEYS[2]])
jitted = jax.jit(lambda k, p, s, c: mh_step(k, stub, p, s, c))
run_stub(jitted, "jit", KEYS)

# default log_correction, python / numpy / jax typed corrections
for ki, key in enumerate(KEYS):
    for cur, prop in itertools.product(LPS, LPS):
        state = state_of(cur, [0.5])
        proposal = {"lp": jnp.asarray(prop, dtype=jnp.float32)}
        del TRACE[:]
        out = mh_step(key, stub, proposal, state)
        emit("default-corr", ki, cur, prop, tree_repr(out), ",".join(TRACE))
    for corr in (0, 1, np.float32(0.25), jnp.float32(-0.25), np.float64(0.1), True):
        state = state_of(-1.0, [0.5])
        proposal = {"lp": jnp.asarray(-1.2, dtype=jnp.float32)}
        out = mh_step(key, stub, proposal, state, corr)
        emit("typed-corr", ki, repr(corr), tree_repr(out))
        out = mh_step(key, stub, proposal, state, log_correction=corr)
        emit("typed-corr-kw", ki, repr(corr), tree_repr(out))

# python-float leaves in the state and python float log-probs
for ki, key in enumerate(KEYS):
    for cur, prop in itertools.product([0.0, -2.0, float("-inf"), float("nan")], repeat=2):
        state = {"lp": cur, "x": 1.0}
        proposal = {"lp": prop, "x": 2.0}
        out = mh_step(key, stub, proposal, state, 0.1)
        emit("pyfloat", ki, cur, prop, tree_repr(out))

# vmapped over keys and log-probs (batched predicate -> select)
bkeys = jnp.stack(KEYS)
for cur, corr in itertools.product(LPS, CORRS):
    props = jnp.asarray(LPS[: len(KEYS)], dtype=jnp.float32)

    def one(key, prop):
        state = state_of(cur, [1.0, 2.0])
        proposal = {"lp": prop, "x": jnp.asarray([-3.0, 4.5], dtype=jnp.float32)}
        return mh_step(key, stub, proposal, state, corr)

    emit("vmap", cur, corr, tree_repr(jax.vmap(one)(bkeys, props)))


# jaxpr-independent: gradient through acceptance prob
def acc_of(prop):
    state = state_of(-1.0, [1.0])
    info, _ = mh_step(KEYS[2], stub, {"lp": prop}, state, 0.2)
    return info.acceptance_prob


for v in (-3.0, -1.0, -1.2, 5.0):
    emit("grad", v, leaf_repr(jax.grad(acc_of)(jnp.float32(v))))


# exceptions
def exc(label, thunk):
    try:
        r = thunk()
        emit("exc", label, "no exception", tree_repr(r))
    except Exception as e:  # noqa: BLE001
        emit("exc", label, type(e).__name__, str(e).splitlines()[0][:400])


class VecModel(StubModel):
    def log_prob(self, model_state):
        return jnp.atleast_1d(model_state["lp"])


class BadUpdate(StubModel):
    def update_state(self, position, model_state):
        return {"lp": model_state["lp"]}


class RaisingModel(StubModel):
    def log_prob(self, model_state):
        raise RuntimeError("boom in log_prob")


st = state_of(0.0, [1.0])
pr = {"lp": jnp.float32(-1.0)}
exc("vector-logprob", lambda: mh_step(KEYS[2], VecModel(), pr, st))
exc("structure-mismatch", lambda: mh_step(KEYS[2], BadUpdate(), pr, st))
exc("raising-model", lambda: mh_step(KEYS[2], RaisingModel(), pr, st))
exc("bad-key", lambda: mh_step(None, stub, pr, st))
exc("string-correction", lambda: mh_step(KEYS[2], stub, pr, st, "a"))
exc("too-many-args", lambda: mh_step(KEYS[2], stub, pr, st, 0.0, 1))
exc("positional-5", lambda: mh_step(KEYS[2], stub, pr, st, 0.5))

# exotic log-prob / correction dtypes (weak-type promotion in the NaN guard)
for dt in (jnp.int32, jnp.int8, jnp.uint8, jnp.bool_, jnp.float16, jnp.bfloat16, jnp.complex64, jnp.float32):
    for corr in (0.0, 1, jnp.float32(0.5), jnp.int32(1), jnp.float16(0.5), np.float32(jnp.nan)):
        s_ = {"lp": jnp.asarray(1, dtype=dt)}
        p_ = {"lp": jnp.asarray(0, dtype=dt)}
        exc(f"dtype {dt.__name__} {corr!r}", lambda: mh_step(KEYS[2], stub, p_, s_, corr))
        exc(f"dtype-jit {dt.__name__} {corr!r}", lambda: jax.jit(lambda k, p, s, c: mh_step(k, stub, p, s, c))(KEYS[0], p_, s_, corr))

emit("error_book", sorted(mh_mod.mh_error_book.items()), type(mh_mod.mh_error_book).__name__)
emit("mh_step.signature", __import__("inspect").signature(mh_step))
for K in (gs.RWKernel, gs.MHKernel, gs.IWLSKernel):
    emit("kernel error_book", K.__name__, list(K.error_book.items()), K.error_book is mh_mod.mh_error_book)

# ---------------------------------------------------------------------------
# 2. the kernels that call mh_step
# ---------------------------------------------------------------------------

rng = np.random.default_rng(1337)
n = 30
X = np.column_stack([np.ones(n), rng.uniform(size=[n, 1])]).astype(np.float32)
y = rng.normal(X @ np.ones(2), 0.1, size=n).astype(np.float32)
lm_state = {
    "y": jnp.asarray(y),
    "X": jnp.asarray(X),
    "beta": jnp.ones(2, dtype=jnp.float32),
    "log_sigma": jnp.asarray(np.log(0.1), dtype=jnp.float32),
}


def lm_log_prob(ms):
    mu = ms["X"] @ ms["beta"]
    sigma = jnp.exp(ms["log_sigma"])
    return jnp.sum(jax.scipy.stats.norm.logpdf(ms["y"], mu, sigma))


def nan_log_prob(ms):
    # NaN whenever beta[0] moves above its start value -> exercises error code 90
    lp = lm_log_prob(ms)
    return jnp.where(ms["beta"][0] > 1.0, jnp.nan, lp)


def neginf_log_prob(ms):
    lp = lm_log_prob(ms)
    return jnp.where(ms["beta"][0] > 1.0, -jnp.inf, lp)


def proposal_fn(key, model_state, step_size):
    k0, k1 = jax.random.split(key)
    beta = model_state["beta"] + step_size * jax.random.normal(k0, model_state["beta"].shape)
    ls = model_state["log_sigma"] + step_size * jax.random.normal(k1, model_state["log_sigma"].shape)
    return gs.MHProposal({"beta": beta, "log_sigma": ls}, 0.0)


def proposal_asym_fn(key, model_state, step_size):
    k0, k1 = jax.random.split(key)
    mean_prop = model_state["beta"] + step_size
    beta = mean_prop + step_size * jax.random.normal(k0, model_state["beta"].shape)
    log_d_prop = jax.scipy.stats.norm.logpdf(beta, loc=mean_prop, scale=step_size).sum()
    log_d_old = jax.scipy.stats.norm.logpdf(
        model_state["beta"], loc=beta + step_size, scale=step_size
    ).sum()
    ls = model_state["log_sigma"] + step_size * jax.random.normal(k1, model_state["log_sigma"].shape)
    return gs.MHProposal({"beta": beta, "log_sigma": ls}, log_d_old - log_d_prop)


def nan_corr_fn(key, model_state, step_size):
    p = proposal_fn(key, model_state, step_size)
    return gs.MHProposal(p.position, jnp.nan)


class TruthyFlag:
    """A da_tune_step_size flag object that records how often its truth is asked."""

    def __init__(self, value):
        self.value = value
        self.asked = 0

    def __bool__(self):
        self.asked += 1
        return self.value


def kernels():
    pk = ["beta", "log_sigma"]
    return {
        "rw": lambda: gs.RWKernel(pk, initial_step_size=0.05),
        "rw-big": lambda: gs.RWKernel(pk, initial_step_size=3.0),
        "mh": lambda: gs.MHKernel(pk, proposal_fn, initial_step_size=0.05),
        "mh-da": lambda: gs.MHKernel(pk, proposal_fn, initial_step_size=0.05, da_tune_step_size=True),
        "mh-asym-da": lambda: gs.MHKernel(
            pk, proposal_asym_fn, initial_step_size=0.05, da_tune_step_size=True, da_target_accept=0.1
        ),
        "mh-nancorr": lambda: gs.MHKernel(pk, nan_corr_fn, initial_step_size=0.05, da_tune_step_size=True),
        "mh-flag-on": lambda: gs.MHKernel(pk, proposal_fn, initial_step_size=0.05, da_tune_step_size=TruthyFlag(True)),
        "mh-flag-off": lambda: gs.MHKernel(pk, proposal_fn, initial_step_size=0.05, da_tune_step_size=TruthyFlag(False)),
        "iwls": lambda: gs.IWLSKernel(pk, initial_step_size=0.5),
        "iwls-beta": lambda: gs.IWLSKernel(["beta"], initial_step_size=0.9),
    }


EPOCHS = {
    "slow": EpochConfig(EpochType.SLOW_ADAPTATION, 50, 1, None),
    "post": EpochConfig(EpochType.POSTERIOR, 50, 1, None),
}
SPECIAL = {"rw-big", "mh-da", "mh-nancorr", "mh-flag-on"}

for (mname, lp_fn), (kname, mk) in itertools.product(
    {"lm": lm_log_prob, "nan": nan_log_prob, "neginf": neginf_log_prob}.items(),
    kernels().items(),
):
    if mname != "lm" and kname not in SPECIAL:
        continue
    for ename, econf in EPOCHS.items():
        kernel = mk()
        kernel.set_model(gs.DictInterface(lp_fn))
        epoch = econf.to_state(1, 10)
        epoch.advance_time(3)
        ks = kernel.init_state(KEYS[3], lm_state)
        ks = kernel.start_epoch(KEYS[3], ks, lm_state, epoch)
        trans = jax.jit(kernel.transition)
        ms = lm_state
        for ki, key in enumerate(KEYS):
            out = trans(key, ks, ms, epoch)
            emit("kernel", mname, kname, ename, ki, tree_repr(out))
            ks, ms = out.kernel_state, out.model_state
            epoch.advance_time(1)
        # un-jitted once as well
        out = kernel.transition(KEYS[4], ks, ms, epoch)
        emit("kernel-eager", mname, kname, ename, tree_repr(out))
        flag = getattr(kernel, "da_tune_step_size", None)
        if isinstance(flag, TruthyFlag):
            emit("flag-asked", mname, kname, ename, flag.asked)
        ks = kernel.end_epoch(KEYS[3], ks, ms, epoch)
        emit("kernel-end", mname, kname, ename, tree_repr(ks))

# ---------------------------------------------------------------------------
# 3. short engine runs
# ---------------------------------------------------------------------------

import logging

logging.disable(logging.CRITICAL)

for mname, lp_fn in {"lm": lm_log_prob, "nan": nan_log_prob}.items():
    for kname in ("rw", "mh-da", "mh-asym-da", "iwls"):
        if kname == "iwls" and mname != "lm":
            continue
        builder = gs.EngineBuilder(seed=11, num_chains=3)
        builder.add_kernel(kernels()[kname]())
        builder.set_model(gs.DictInterface(lp_fn))
        builder.set_initial_values(lm_state)
        builder.set_duration(warmup_duration=300, posterior_duration=80, term_duration=50)
        builder.show_progress = False
        engine = builder.build()
        engine.sample_all_epochs()
        results = engine.get_results()
        samples = results.get_posterior_samples()
        infos = results.get_posterior_transition_infos()
        emit("engine", mname, kname, tree_repr(samples))
        emit("engine-infos", mname, kname, tree_repr(infos))
        log = results.get_error_log(False).unwrap()
        for ident, kl in log.items():
            emit("engine-errors", mname, kname, ident, kl.kernel_cls, leaf_repr(kl.transition), leaf_repr(kl.error_codes))

digest = hashlib.sha256("\n".join(LINES).encode()).hexdigest()
print("\n".join(LINES))
print("lines:", len(LINES))
print("sha256:", digest)
