"""
Deterministic equivalence program for the mass-matrix adaptation code
(liesel/goose/mm.py, nuts.py, hmc.py, kernel.py, engine.py).

Prints a digest of every result.  Run it from the worktree root with
PYTHONPATH pointing at the worktree; the output on HEAD and with a patch
applied must be identical.
"""

import hashlib
import logging
import warnings

import jax
import jax.numpy as jnp
import numpy as np

import liesel.goose as gs
from liesel.goose import mm
from liesel.goose.epoch import EpochConfig, EpochType
from liesel.goose.hmc import HMCKernel, HMCKernelState
from liesel.goose.nuts import NUTSKernel, NUTSKernelState

warnings.filterwarnings("ignore")


class _PrintHandler(logging.Handler):
    """Echo every liesel log record (INFO and above) to stdout."""

    def emit(self, record):
        print(f"  LOG {record.levelname} {record.name}: {record.getMessage()}")


_logger = logging.getLogger("liesel")
for _h in list(_logger.handlers):
    _logger.removeHandler(_h)
_logger.addHandler(_PrintHandler())
_logger.setLevel(logging.INFO)


def digest(tree) -> str:
    """Structure + dtype + shape + raw bytes of every leaf."""
    leaves, treedef = jax.tree_util.tree_flatten(tree)
    h = hashlib.sha256()
    h.update(str(treedef).encode())
    for leaf in leaves:
        arr = np.asarray(leaf)
        h.update(str(arr.dtype).encode())
        h.update(str(arr.shape).encode())
        h.update(np.ascontiguousarray(arr).tobytes())
    return h.hexdigest()[:20]


def show(label, tree):
    leaves = jax.tree_util.tree_leaves(tree)
    head = np.asarray(leaves[0]).ravel()[:4] if leaves else []
    print(f"{label}: {digest(tree)} first={np.array2string(np.asarray(head))}")


def show_exc(label, fn):
    try:
        out = fn()
    except Exception as exc:  # noqa: BLE001
        print(f"{label}: EXC {type(exc).__name__}: {str(exc)[:120]!r}")
    else:
        show(label, out)


# ---------------------------------------------------------------------------
# 1. mm.py directly
# ---------------------------------------------------------------------------

rng = np.random.default_rng(2024)


def make_history(spec, n=25, scale=None):
    """spec: list of (key, shape) in insertion order."""
    hist = {}
    for j, (key, shape) in enumerate(spec):
        sd = (j + 1.0) * 0.7 if scale is None else scale[j]
        hist[key] = jnp.asarray(
            rng.normal(loc=j, scale=sd, size=(n,) + tuple(shape)), dtype=jnp.float32
        )
    return hist


specs = {
    "alpha_order": [("a", (2,)), ("b", ()), ("c", (3,))],
    "reverse_order": [("c", (3,)), ("b", ()), ("a", (2,))],
    "mixed_order": [("zeta", ()), ("alpha", (2, 2)), ("mu", (3,))],
    "single_scalar": [("only", ())],
    "single_vector": [("only", (4,))],
    "single_len1": [("only", (1,))],
    "upper_lower": [("b", (2,)), ("B", ()), ("_x", (1,)), ("a", ())],
}

print("== mm ==")
for name, spec in specs.items():
    hist = make_history(spec)
    show(f"mm.diag[{name}]", mm.tune_inv_mm_diag(hist))
    show(f"mm.full[{name}]", mm.tune_inv_mm_full(hist))
    show(f"mm.diag.jit[{name}]", jax.jit(mm.tune_inv_mm_diag)(hist))
    show(f"mm.full.jit[{name}]", jax.jit(mm.tune_inv_mm_full)(hist))
    print(
        f"mm.jaxpr[{name}]:",
        hashlib.sha256(
            (
                str(jax.make_jaxpr(mm.tune_inv_mm_diag)(hist))
                + str(jax.make_jaxpr(mm.tune_inv_mm_full)(hist))
            ).encode()
        ).hexdigest()[:20],
    )

# alignment: permuting the insertion order must not change anything
h1 = make_history(specs["mixed_order"])
h2 = {k: h1[k] for k in ["mu", "zeta", "alpha"]}
print(
    "mm.order_invariant:",
    bool(jnp.array_equal(mm.tune_inv_mm_diag(h1), mm.tune_inv_mm_diag(h2))),
    bool(jnp.array_equal(mm.tune_inv_mm_full(h1), mm.tune_inv_mm_full(h2))),
)

# degenerate histories
show_exc("mm.diag[one_sample]", lambda: mm.tune_inv_mm_diag(make_history([("a", (2,))], n=1)))
show_exc("mm.full[one_sample]", lambda: mm.tune_inv_mm_full(make_history([("a", (2,))], n=1)))
show_exc("mm.diag[empty]", lambda: mm.tune_inv_mm_diag({}))
show_exc("mm.full[empty]", lambda: mm.tune_inv_mm_full({}))
show_exc("mm.full[two_samples]", lambda: mm.tune_inv_mm_full(make_history([("b", ()), ("a", (2,))], n=2)))


# ---------------------------------------------------------------------------
# 2. kernels: _tune_slow / _tune_fast / tune directly
# ---------------------------------------------------------------------------

print("== kernel tuning ==")

KERNELS = {"nuts": (NUTSKernel, NUTSKernelState), "hmc": (HMCKernel, HMCKernelState)}


def epoch_state(epoch_type, time=37):
    return EpochConfig(epoch_type, 50, 1, None).to_state(3, time)


full_spec = [("zeta", ()), ("alpha", (2, 2)), ("mu", (3,)), ("other", (2,))]
full_history = make_history(full_spec, n=40)
dim = {"zeta": 1, "alpha": 4, "mu": 3, "other": 2}

key_orders = [
    ("zeta", "alpha", "mu"),
    ("mu", "zeta", "alpha"),
    ("alpha", "mu", "zeta"),
    ("zeta",),
    ("mu", "other"),
    ("other", "mu"),
]


def state_leaves(ks):
    return {
        "step_size": ks.step_size,
        "imm": ks.inverse_mass_matrix,
        "error_sum": ks.error_sum,
        "log_avg": ks.log_avg_step_size,
        "mu": ks.mu,
    }


class Recorder:
    """Mixin recording what _tune_fast receives (trace-time side effect)."""

    log: list

    def _tune_fast(self, prng_key, kernel_state, model_state, epoch, history=None):
        self.log.append(None if history is None else tuple(history.keys()))
        return super()._tune_fast(prng_key, kernel_state, model_state, epoch, history)


for kname, (Kernel, State) in KERNELS.items():
    RecKernel = type("Rec" + Kernel.__name__, (Recorder, Kernel), {})
    for keys in key_orders:
        d = sum(dim[k] for k in keys)
        for mm_diag in (True, False, 1, 0, "yes", ""):
            kernel = RecKernel(list(keys), mm_diag=mm_diag)
            kernel.log = []
            if mm_diag:
                imm0 = jnp.linspace(0.5, 2.0, d, dtype=jnp.float32)
            else:
                imm0 = jnp.diag(jnp.linspace(0.5, 2.0, d, dtype=jnp.float32)) + 0.01
            tag = f"{kname}{list(keys)}diag={mm_diag!r}"
            key = jax.random.PRNGKey(1)

            for hist_name, hist in (("hist", full_history), ("none", None)):
                # direct call of _tune_slow
                ks = State(jnp.float32(0.3), imm0)
                out = kernel._tune_slow(key, ks, {}, epoch_state(EpochType.SLOW_ADAPTATION), hist)
                print(" ", tag, hist_name, "same_state_object:", out.kernel_state is ks)
                show(f"{tag} {hist_name} slow.direct", (state_leaves(out.kernel_state), out.info))

                # via tune() in every epoch type (lax.cond)
                for et in (
                    EpochType.SLOW_ADAPTATION,
                    EpochType.FAST_ADAPTATION,
                    EpochType.BURNIN,
                ):
                    ks = State(jnp.float32(0.3), imm0)
                    out = kernel.tune(key, ks, {}, epoch_state(et), hist)
                    show(f"{tag} {hist_name} tune[{et.name}]", (state_leaves(out.kernel_state), out.info))

                # jitted and its jaxpr
                def jitted(ks, ep, h):
                    o = kernel.tune(key, ks, {}, ep, h)
                    return state_leaves(o.kernel_state), o.info

                ks = State(jnp.float32(0.3), imm0)
                show(
                    f"{tag} {hist_name} tune.jit",
                    jax.jit(jitted)(ks, epoch_state(EpochType.SLOW_ADAPTATION), hist),
                )
                ks = State(jnp.float32(0.3), imm0)
                jp = str(jax.make_jaxpr(jitted)(ks, epoch_state(EpochType.SLOW_ADAPTATION), hist))
                print(" ", tag, hist_name, "jaxpr:", hashlib.sha256(jp.encode()).hexdigest()[:20])

            print(" ", tag, "tune_fast_received:", kernel.log)

    # missing key in the history
    kernel = Kernel(["zeta", "absent"])
    ks = State(jnp.float32(0.3), jnp.ones(2))
    show_exc(
        f"{kname} missing key",
        lambda: kernel._tune_slow(
            jax.random.PRNGKey(0), ks, {}, epoch_state(EpochType.SLOW_ADAPTATION), full_history
        ).kernel_state.inverse_mass_matrix,
    )
    # empty position keys
    kernel = Kernel([])
    ks = State(jnp.float32(0.3), jnp.ones(0))
    show_exc(
        f"{kname} no keys",
        lambda: kernel._tune_slow(
            jax.random.PRNGKey(0), ks, {}, epoch_state(EpochType.SLOW_ADAPTATION), full_history
        ).kernel_state.inverse_mass_matrix,
    )
    # traced mm_diag cannot be used as a Python bool
    def traced_flag(flag):
        kernel = Kernel(["zeta"], mm_diag=flag)
        ks = State(jnp.float32(0.3), jnp.ones(1))
        return kernel._tune_slow(
            jax.random.PRNGKey(0), ks, {}, epoch_state(EpochType.SLOW_ADAPTATION), full_history
        ).kernel_state.inverse_mass_matrix

    show_exc(f"{kname} traced mm_diag", lambda: jax.jit(traced_flag)(jnp.array(True)))
    show_exc(f"{kname} array mm_diag", lambda: traced_flag(jnp.array(False)))
    show_exc(f"{kname} unhashable mm_diag", lambda: traced_flag([1]))
    show_exc(f"{kname} empty-list mm_diag", lambda: traced_flag([]))
    show_exc(f"{kname} None mm_diag", lambda: traced_flag(None))


# ---------------------------------------------------------------------------
# 3. init_state
# ---------------------------------------------------------------------------

print("== init_state ==")


def log_prob(state):
    lp = -0.5 * jnp.sum((state["mu"] / jnp.array([0.5, 2.0, 5.0])) ** 2)
    lp += -0.5 * jnp.sum((state["alpha"] / 0.1) ** 2)
    lp += -0.5 * (state["zeta"] / 3.0) ** 2
    lp += -0.5 * jnp.sum((state["other"] - 1.0) ** 2)
    return lp


init = {
    "zeta": jnp.array(0.3, dtype=jnp.float32),
    "alpha": jnp.full((2, 2), 0.05, dtype=jnp.float32),
    "mu": jnp.array([0.1, -0.2, 0.3], dtype=jnp.float32),
    "other": jnp.array([1.0, 1.5], dtype=jnp.float32),
}

for kname, (Kernel, State) in KERNELS.items():
    for keys in (("zeta", "alpha", "mu"), ("mu", "zeta"), ("zeta",)):
        d = sum(dim[k] for k in keys)
        for mm_diag in (True, False):
            for step in (None, 0.05):
                for imm in (None, "given"):
                    given = None
                    if imm is not None:
                        given = (
                            jnp.linspace(1.0, 3.0, d)
                            if mm_diag
                            else jnp.diag(jnp.linspace(1.0, 3.0, d))
                        )
                    kernel = Kernel(
                        list(keys),
                        initial_step_size=step,
                        initial_inverse_mass_matrix=given,
                        mm_diag=mm_diag,
                    )
                    kernel.set_model(gs.DictInterface(log_prob))
                    ks = kernel.init_state(jax.random.PRNGKey(7), init)
                    show(
                        f"init {kname}{list(keys)} diag={mm_diag} step={step} imm={imm}",
                        state_leaves(ks),
                    )
                    if given is not None:
                        print("  imm identity kept:", ks.inverse_mass_matrix is given)


# ---------------------------------------------------------------------------
# 4. whole engine
# ---------------------------------------------------------------------------

print("== engine ==")


def epochs(n_slow):
    eps = [EpochConfig(EpochType.INITIAL_VALUES, 1, 1, None)]
    eps.append(EpochConfig(EpochType.FAST_ADAPTATION, 15, 1, None))
    for i in range(n_slow):
        eps.append(EpochConfig(EpochType.SLOW_ADAPTATION, 20 + 5 * i, 1, None))
    eps.append(EpochConfig(EpochType.FAST_ADAPTATION, 10, 1, None))
    eps.append(EpochConfig(EpochType.BURNIN, 5, 1, None))
    eps.append(EpochConfig(EpochType.POSTERIOR, 10, 1, None))
    return eps


def run_engine(label, kernels, n_slow, num_chains, position_keys=None):
    builder = gs.EngineBuilder(seed=11, num_chains=num_chains)
    for k in kernels:
        builder.add_kernel(k)
    builder.set_model(gs.DictInterface(log_prob))
    builder.set_initial_values(init)
    builder.set_epochs(epochs(n_slow))
    builder.store_kernel_states = True
    builder.show_progress = "dense" in label or "hmc only" in label  # bar: stderr
    if position_keys is not None:
        builder.positions_included = position_keys
    engine = builder.build()
    engine.sample_all_epochs()
    res = engine.get_results()

    show(f"{label} samples", res.get_samples())
    show(f"{label} positions(all epochs)", res.positions.combine_all().unwrap())
    show(f"{label} kernel_states", res.kernel_states.unwrap().combine_all().unwrap())
    show(f"{label} tuning_infos", res.tuning_infos.unwrap().get().unwrap())
    show(f"{label} transition_infos", res.transition_infos.combine_all().unwrap())
    show(f"{label} final kernel states", engine._kernel_states)
    show(f"{label} tuning times", res.get_tuning_times().unwrap())

    # property check: state after each slow epoch equals the statistic of that
    # epoch's own history
    return engine, res


configs = [
    (
        "nuts+hmc diag",
        lambda: [
            NUTSKernel(["zeta", "alpha", "mu"], mm_diag=True),
            HMCKernel(["other"], mm_diag=True, num_integration_steps=4),
        ],
        2,
        2,
    ),
    (
        "nuts dense nonalpha + hmc dense",
        lambda: [
            NUTSKernel(["mu", "alpha"], mm_diag=False, max_treedepth=5),
            HMCKernel(["zeta", "other"], mm_diag=False, num_integration_steps=3),
        ],
        3,
        1,
    ),
    (
        "hmc only, single slow",
        lambda: [HMCKernel(["other", "mu", "zeta", "alpha"], num_integration_steps=3)],
        1,
        3,
    ),
    (
        "no slow epoch",
        lambda: [NUTSKernel(["zeta", "other"], max_treedepth=4), gs.RWKernel(["mu", "alpha"])],
        0,
        2,
    ),
    (
        "no history needed",
        lambda: [gs.RWKernel(["mu", "alpha"]), gs.RWKernel(["zeta", "other"])],
        2,
        2,
    ),
]

for label, mk, n_slow, chains in configs:
    engine, res = run_engine(label, mk(), n_slow, chains)
    print(" ", label, "history_required:", engine._history_required_for_tuning)

# engine whose chain is empty when tuning is triggered is not reachable through
# the public API (epochs have duration >= 1); nothing to exercise there.

print("done")
