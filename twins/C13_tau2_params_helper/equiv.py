"""
Equivalence probe for the tau2 Gibbs kernel in liesel/model/distreg.py.

Run with the worktree on PYTHONPATH, on HEAD and with the patch applied; the output
must be byte-identical.
"""

import hashlib
import logging

import jax
import jax.numpy as jnp
import numpy as np
import tensorflow_probability.substrates.jax.bijectors as tfb
import tensorflow_probability.substrates.jax.distributions as tfd

import liesel.goose as gs
import liesel.model as lsl
from liesel.model import distreg as dr

logging.disable(logging.CRITICAL)


def digest(x) -> str:
    a = np.asarray(x)
    h = hashlib.sha256()
    h.update(str(a.dtype).encode())
    h.update(str(a.shape).encode())
    h.update(np.ascontiguousarray(a).tobytes())
    return h.hexdigest()[:16]


def diff_penalty(p: int, order: int) -> np.ndarray:
    D = np.diff(np.eye(p), n=order, axis=0)
    return (D.T @ D).astype(np.float32)


rng = np.random.default_rng(13)
n, p = 40, 6
X = rng.uniform(-1.0, 1.0, size=(n, p)).astype(np.float32)
y = rng.normal(size=n).astype(np.float32)

penalties = {
    "full_rank": np.eye(p, dtype=np.float32),
    "rw1_deficient_1": diff_penalty(p, 1),
    "rw2_deficient_2": diff_penalty(p, 2),
    "zero_rank_0": np.zeros((p, p), dtype=np.float32),
    "dense_spd": (lambda A: (A @ A.T + np.eye(p)).astype(np.float32))(
        rng.normal(size=(p, p))
    ),
}
hyper = [(0.5, 0.001), (1.0, 0.005), (2.5, 3.0), (0.01, 0.01)]
betas = [
    np.zeros(p, np.float32),
    np.ones(p, np.float32),
    rng.normal(size=p).astype(np.float32),
    (100.0 * rng.normal(size=p)).astype(np.float32),
]

epoch = gs.EpochConfig(
    gs.EpochType.POSTERIOR, duration=1, thinning=1, optional=None
).to_state(nth_epoch=0, time_before_epoch=0)

keys = jax.random.split(jax.random.PRNGKey(2024), 64)

for kname, K in penalties.items():
    for a, b in hyper:
        model = (
            dr.DistRegBuilder()
            .add_response(y, tfd.Normal)
            .add_predictor("loc", tfb.Identity)
            .add_predictor("scale", tfb.Exp)
            .add_np_smooth(X, K=K, a=a, b=b, predictor="loc", name="f")
            .add_p_smooth(np.ones((n, 1), np.float32), 0.0, 10.0, "scale", name="s0")
            .build_model()
        )
        group = model.groups()["f"]
        kernel = dr.tau2_gibbs_kernel(group)
        print(kname, a, b, "keys", kernel.position_keys, type(kernel).__name__)
        print("  rank", int(group["rank"].value))
        kernel.set_model(gs.LieselInterface(model))

        for i, beta in enumerate(betas):
            model.vars["f_beta"].value = beta
            state = model.state

            eager = [kernel._transition_fn(k, state) for k in keys[:8]]
            assert all(list(d) == ["f_tau2"] for d in eager)
            eager = jnp.stack([d["f_tau2"] for d in eager])
            vm = jax.jit(jax.vmap(lambda k: kernel._transition_fn(k, state)))(keys)
            print("  beta", i, "eager", digest(eager), eager.dtype, eager.shape)
            print("  beta", i, "jit  ", digest(vm["f_tau2"]), sorted(vm))

            out = kernel.transition(keys[0], {}, state, epoch)
            print(
                "  beta",
                i,
                "transition",
                digest(out.model_state["f_tau2_value"].value),
                digest(out.model_state["_model_log_prob"].value),
                out.info.error_code,
                out.kernel_state,
            )

# error behaviour: which member is looked up first / reported missing
tau2 = lsl.Var(1.0, name="t")
members = dict(
    a=lsl.Var(1.0, name="a_"),
    rank=lsl.Var(2, name="rank_"),
    b=lsl.Var(1.0, name="b_"),
    beta=lsl.Var(np.ones(2, np.float32), name="beta_"),
    K=lsl.Var(np.eye(2, dtype=np.float32), name="K_"),
)
for missing in [None, "a", "rank", "b", "beta", "K", "tau2"]:
    kw = {k: v for k, v in members.items() if k != missing}
    if missing != "tau2":
        kw["tau2"] = tau2
    g = lsl.Group("g_" + str(missing), **kw)
    try:
        k = dr.tau2_gibbs_kernel(g)
        st = {v.value_node.name: v.value_node.state for v in kw.values()}
        r = k._transition_fn(jax.random.PRNGKey(1), st)
        print("missing", missing, "->", sorted(r), digest(r["t"]))
    except Exception as e:  # noqa
        print("missing", missing, "->", type(e).__name__, e.args)

# member present in the group but not in the model state
g = lsl.Group("g_full", tau2=tau2, **members)
k = dr.tau2_gibbs_kernel(g)
full = {v.value_node.name: v.value_node.state for v in members.values()}
for drop in list(full):
    st = {kk: vv for kk, vv in full.items() if kk != drop}
    try:
        k._transition_fn(jax.random.PRNGKey(1), st)
        print("state without", drop, "-> ok")
    except Exception as e:  # noqa
        print("state without", drop, "->", type(e).__name__, e.args)
names = list(full)
for i in range(len(names)):
    for j in range(i + 1, len(names)):
        st = {kk: vv for kk, vv in full.items() if kk not in (names[i], names[j])}
        try:
            k._transition_fn(jax.random.PRNGKey(1), st)
        except Exception as e:  # noqa
            print("state without", names[i], names[j], "->", type(e).__name__, e.args)
try:
    k._transition_fn(jax.random.PRNGKey(1), {})
except Exception as e:  # noqa
    print("empty state ->", type(e).__name__, e.args)

# the caller: dist_reg_mcmc builds one tau2 kernel per non-parametric smooth
model = (
    dr.DistRegBuilder()
    .add_response(y, tfd.Normal)
    .add_predictor("loc", tfb.Identity)
    .add_predictor("scale", tfb.Exp)
    .add_np_smooth(X, K=penalties["rw2_deficient_2"], a=1.0, b=0.005, predictor="loc")
    .add_np_smooth(X, K=penalties["full_rank"], a=0.5, b=0.001, predictor="scale")
    .build_model()
)
builder = dr.dist_reg_mcmc(model, seed=7, num_chains=2)
print([(type(k).__name__, k.position_keys) for k in builder.kernels])
builder.set_duration(warmup_duration=300, posterior_duration=60)
engine = builder.build()
engine.sample_all_epochs()
samples = engine.get_results().get_posterior_samples()
for name in sorted(samples):
    print("mcmc", name, samples[name].shape, digest(samples[name]))
