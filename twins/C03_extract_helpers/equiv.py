"""
Deterministic exerciser for the state-passing model interfaces.

Run from the root of the source tree to be examined, with that tree on PYTHONPATH:

    PYTHONPATH=$PWD python _twin/<name>/equiv.py

It prints one line per observation plus a final sha256 over all lines. The output is
meant to be compared between two versions of the library.
"""

import copy
import dataclasses
import hashlib
import warnings
from typing import NamedTuple

import jax
import jax.numpy as jnp
import numpy as np
import tensorflow_probability.substrates.jax.distributions as tfd

import liesel.goose as gs
import liesel.model as lsl
from liesel.goose.types import Position
from liesel.model.goose import GooseModel, finite_discrete_gibbs_kernel
from liesel.model.nodes import NodeState

LINES: list[str] = []


def emit(tag: str, text: str) -> None:
    line = f"{tag}: {text}"
    LINES.append(line)
    print(line)


def leaf_digest(x) -> str:
    if x is None:
        return "None"
    if isinstance(x, (bool, str)):
        return repr(x)
    try:
        arr = np.asarray(x)
    except Exception:  # pragma: no cover
        return f"<{type(x).__name__}>"
    if arr.dtype == object:
        return f"<object {type(x).__name__}>"
    h = hashlib.sha256(arr.tobytes()).hexdigest()[:16]
    return f"{arr.dtype}{list(arr.shape)}:{h}"


def tree_digest(tree) -> str:
    leaves, treedef = jax.tree_util.tree_flatten(tree, is_leaf=lambda x: x is None)
    h = hashlib.sha256()
    h.update(str(treedef).encode())
    for leaf in leaves:
        h.update(leaf_digest(leaf).encode())
    return h.hexdigest()[:24]


def state_digest(state) -> str:
    """Order-sensitive digest of a liesel model state."""
    h = hashlib.sha256()
    for name, ns in state.items():
        h.update(name.encode())
        h.update(type(ns).__name__.encode())
        h.update(leaf_digest(ns.outdated).encode())
        h.update(tree_digest(ns.value).encode())
        h.update(tree_digest(ns.extra).encode())
    return f"n={len(state)} {h.hexdigest()[:24]}"


def attempt(tag: str, fn):
    try:
        out = fn()
    except Exception as e:  # noqa: BLE001
        ctx = type(e.__context__).__name__ if e.__context__ is not None else "-"
        emit(tag, f"EXC {type(e).__name__}({e!s}) ctx={ctx}")
        return None
    return out


# --------------------------------------------------------------------------------------
# models
# --------------------------------------------------------------------------------------


def make_model(auto_update: bool = True):
    key = jax.random.PRNGKey(1337)
    x = lsl.obs(jax.random.normal(key, shape=(7,)), name="x")
    b0 = lsl.param(0.25, lsl.Dist(tfd.Normal, loc=0.0, scale=10.0), name="b0")
    b1 = lsl.param(-0.5, lsl.Dist(tfd.Normal, loc=0.0, scale=10.0), name="b1")
    sigma = lsl.param(1.5, lsl.Dist(tfd.InverseGamma, 2.0, 1.0), name="sigma")
    mu = lsl.Var(lsl.Calc(lambda a, b, x: a + b * x, b0, b1, x), name="mu")
    yval = jnp.linspace(-1.0, 2.0, 7)
    y = lsl.obs(yval, lsl.Dist(tfd.Normal, loc=mu, scale=sigma), name="y")
    gb = lsl.GraphBuilder().add(y)
    gb.transform(sigma, tfp_bijector_placeholder())
    model = gb.build_model()
    model.auto_update = auto_update
    return model


def tfp_bijector_placeholder():
    import tensorflow_probability.substrates.jax.bijectors as tfb

    return tfb.Exp


def make_discrete_model():
    values = [0.0, 1.0, 2.0]
    grid = lsl.Var(values, name="value_grid")
    prior = lsl.Dist(tfd.FiniteDiscrete, outcomes=grid, probs=[0.1, 0.2, 0.7])
    cat = lsl.Var(values[0], distribution=prior, name="cat")
    y = lsl.obs(
        jnp.array([0.9, 1.2, 1.1]),
        lsl.Dist(tfd.Normal, loc=cat, scale=1.0),
        name="y",
    )
    return lsl.GraphBuilder().add(y).build_model()


def make_bernoulli_model():
    prior = lsl.Dist(tfd.Bernoulli, probs=lsl.Value(0.7))
    d = lsl.Var(1, distribution=prior, name="dummy")
    return lsl.GraphBuilder().add(d).build_model()


# --------------------------------------------------------------------------------------
# liesel interface
# --------------------------------------------------------------------------------------


def exercise_liesel_interface(tag: str, make_iface, auto_update: bool):
    model = make_model(auto_update)
    before = state_digest(model.state)
    emit(tag, f"model {model!r} state0 {before}")
    emit(tag, f"state keys {list(model.state)}")

    iface = make_iface(model)
    emit(tag, f"orig state after ctor {state_digest(model.state) == before}")
    emit(tag, f"private copy distinct {iface._model is not model}")
    emit(tag, f"private copy state {state_digest(iface._model.state)}")
    emit(tag, f"private copy auto_update {iface._model.auto_update}")
    emit(tag, f"instance attrs {sorted(vars(iface))}")

    s0 = model.state
    s0_copy = dict(s0)

    # positions keyed by node name, by var name, mixed, empty
    sig_name = [n for n in model.vars if n.startswith("sigma")]
    emit(tag, f"vars {sorted(model.vars)}")
    tname = [n for n in model.vars if "transformed" in n][0]
    tnode = model.vars[tname].value_node.name

    positions = {
        "node": Position({"b0_value": jnp.array(1.0), "b1_value": jnp.array(2.0)}),
        "var": Position({"b0": jnp.array(1.0), "b1": jnp.array(2.0)}),
        "mixed": Position({"b1": jnp.array(-3.0), tnode: jnp.array(0.3)}),
        "tvar": Position({tname: jnp.array(-0.7)}),
        "empty": Position({}),
        "data": Position({"x": jnp.arange(7.0)}),
        "pyfloat": Position({"b0": 4.0}),
    }

    results = {}
    for pname, pos in positions.items():
        s1 = attempt(f"{tag}.upd.{pname}", lambda: iface.update_state(pos, s0))
        if s1 is None:
            continue
        results[pname] = s1
        emit(f"{tag}.upd.{pname}", state_digest(s1))
        emit(f"{tag}.upd.{pname}", f"keys same order {list(s1) == list(s0)}")
        emit(f"{tag}.upd.{pname}", f"logp {leaf_digest(iface.log_prob(s1))}")
        back = iface.extract_position(list(pos), s1)
        emit(
            f"{tag}.upd.{pname}",
            f"roundtrip {type(back).__name__} {list(back)} {tree_digest(dict(back))}"
            f" eq={all(bool(jnp.all(back[k] == pos[k])) for k in pos)}",
        )
        emit(f"{tag}.upd.{pname}", f"input untouched {state_digest(s0)}")
        emit(
            f"{tag}.upd.{pname}",
            f"input identity {all(s0[k] is s0_copy[k] for k in s0_copy)}",
        )
        emit(f"{tag}.upd.{pname}", f"orig model {state_digest(model.state) == before}")

        # direct assignment on an independent model
        ref = make_model(auto_update)
        for k, v in pos.items():
            if k in ref.nodes:
                ref.nodes[k].value = v
            else:
                ref.vars[k].value = v
        ref.update()
        emit(f"{tag}.upd.{pname}", f"direct {state_digest(ref.state)}")
        emit(f"{tag}.upd.{pname}", f"direct logp {leaf_digest(ref.log_prob)}")

    # history: chains of calls, then the same call again
    a = iface.update_state(positions["node"], s0)
    b = iface.update_state(positions["mixed"], a)
    c = iface.update_state(positions["node"], s0)
    d = iface.update_state(positions["tvar"], b)
    e = iface.update_state(positions["empty"], d)
    emit(f"{tag}.hist", f"a {state_digest(a)}")
    emit(f"{tag}.hist", f"b {state_digest(b)}")
    emit(f"{tag}.hist", f"c {state_digest(c)} same_as_a={state_digest(a) == state_digest(c)}")
    emit(f"{tag}.hist", f"d {state_digest(d)}")
    emit(f"{tag}.hist", f"e {state_digest(e)}")
    emit(f"{tag}.hist", f"private copy now {state_digest(iface._model.state)}")
    emit(f"{tag}.hist", f"orig model {state_digest(model.state) == before}")

    # outdated input state
    stale = dict(s0)
    stale["mu_value"] = NodeState(s0["mu_value"].value, True)
    stale_out = attempt(
        f"{tag}.stale", lambda: iface.update_state(positions["empty"], stale)
    )
    if stale_out is not None:
        emit(f"{tag}.stale", state_digest(stale_out))
    stale_out = attempt(
        f"{tag}.stale2", lambda: iface.update_state(positions["node"], stale)
    )
    if stale_out is not None:
        emit(f"{tag}.stale2", state_digest(stale_out))

    # partial state (subset of nodes)
    partial = {k: s0[k] for k in list(s0)[:3]}
    out = attempt(
        f"{tag}.partial", lambda: iface.update_state(positions["empty"], partial)
    )
    if out is not None:
        emit(f"{tag}.partial", state_digest(out))
    # state with a foreign key
    foreign = dict(s0)
    foreign["nope"] = NodeState(1.0, False)
    attempt(f"{tag}.foreign", lambda: iface.update_state(positions["empty"], foreign))
    emit(f"{tag}.foreign", f"private copy now {state_digest(iface._model.state)}")

    # error paths of update_state
    attempt(f"{tag}.err.unknown", lambda: iface.update_state({"nope": 1.0}, s0))
    emit(f"{tag}.err.unknown", f"private copy now {state_digest(iface._model.state)}")
    attempt(f"{tag}.err.calc", lambda: iface.update_state({"mu_value": 1.0}, s0))
    attempt(f"{tag}.err.calcvar", lambda: iface.update_state({"mu": 1.0}, s0))
    attempt(
        f"{tag}.err.partial_then_unknown",
        lambda: iface.update_state({"b0": 9.0, "nope": 1.0}, s0),
    )
    emit(f"{tag}.err", f"private copy now {state_digest(iface._model.state)}")
    attempt(f"{tag}.err.intkey", lambda: iface.update_state({3: 1.0}, s0))
    attempt(f"{tag}.err.unhashable", lambda: iface.update_state({(1, []): 1.0}, s0))
    after_err = iface.update_state(positions["node"], s0)
    emit(f"{tag}.err", f"after errors {state_digest(after_err) == state_digest(a)}")

    # extract_position
    for keys in (
        ["b0_value"],
        ["b0"],
        ["b0", "b0_value", "b0"],
        [tname, tnode],
        ["mu", "mu_value", "y", "x"],
        [],
        ("b1", "b0"),
        iter(["b1_value"]),
    ):
        label = repr(keys) if not hasattr(keys, "__next__") else "iter"
        out = attempt(
            f"{tag}.ext.{label}", lambda: iface.extract_position(keys, a)  # noqa: B023
        )
        if out is not None:
            emit(
                f"{tag}.ext.{label}",
                f"{type(out).__name__} {list(out)} {tree_digest(dict(out))}",
            )
    attempt(f"{tag}.ext.err.unknown", lambda: iface.extract_position(["nope"], a))
    attempt(
        f"{tag}.ext.err.partial", lambda: iface.extract_position(["b0"], partial | {})
    )
    attempt(
        f"{tag}.ext.err.missing_node",
        lambda: iface.extract_position(["b1"], {k: a[k] for k in a if k != "b1_value"}),
    )
    attempt(f"{tag}.ext.err.unhashable", lambda: iface.extract_position([[1]], a))
    attempt(f"{tag}.ext.err.none", lambda: iface.extract_position([None], a))
    attempt(
        f"{tag}.ext.err.novalue",
        lambda: iface.extract_position(["b0_value"], {"b0_value": 1.0}),
    )

    # log_prob
    emit(f"{tag}.lp", leaf_digest(iface.log_prob(s0)))
    emit(f"{tag}.lp", f"eq model {bool(iface.log_prob(s0) == model.log_prob)}")
    attempt(f"{tag}.lp.err", lambda: iface.log_prob({}))

    # jit / vmap
    def f(pos, st):
        new = iface.update_state(pos, st)
        return new, iface.log_prob(new), iface.extract_position(list(pos), new)

    for pname in ("node", "var", "mixed", "tvar", "empty", "data"):
        pos = positions[pname]
        eager = f(pos, s0)
        jitted = jax.jit(f)(pos, s0)
        emit(f"{tag}.jit.{pname}", f"eager {tree_digest(eager)}")
        emit(f"{tag}.jit.{pname}", f"jit   {tree_digest(jitted)}")
        emit(f"{tag}.jit.{pname}", f"orig model {state_digest(model.state) == before}")
        eager2 = f(pos, s0)
        emit(f"{tag}.jit.{pname}", f"eager again {tree_digest(eager2)}")

    grid = jnp.linspace(-2.0, 2.0, 5)

    def g(v):
        new = iface.update_state({"b0": v, tname: v / 3}, s0)
        return iface.log_prob(new), new["mu_value"].value

    emit(f"{tag}.vmap", tree_digest(jax.vmap(g)(grid)))
    emit(f"{tag}.vmap", "loop " + tree_digest([g(v) for v in grid]))
    emit(f"{tag}.vmap", "jit " + tree_digest(jax.jit(jax.vmap(g))(grid)))
    after_trace = iface.update_state(positions["node"], s0)
    emit(f"{tag}.vmap", f"after trace {state_digest(after_trace) == state_digest(a)}")
    emit(f"{tag}.grad", leaf_digest(jax.grad(lambda v: g(v)[0])(0.3)))
    emit(f"{tag}.final", f"orig model {state_digest(model.state) == before}")
    emit(f"{tag}.final", f"input untouched {state_digest(s0)}")

    # copies of the interface
    cp = copy.deepcopy(iface)
    emit(f"{tag}.deepcopy", state_digest(cp.update_state(positions["var"], s0)))
    emit(f"{tag}.deepcopy", f"attrs {sorted(vars(cp))}")


# --------------------------------------------------------------------------------------
# model level
# --------------------------------------------------------------------------------------


def exercise_model():
    tag = "model"
    for auto_update in (True, False):
        model = make_model(auto_update)
        before = model.state
        emit(tag, f"au={auto_update} state {state_digest(before)}")
        emit(tag, f"state type {type(before).__name__} keys==nodes "
                  f"{list(before) == list(model.nodes)}")
        emit(tag, f"fresh dict each time {model.state is not model.state}")
        cp = model._copy_computational_model()
        emit(tag, f"copy {cp!r} type {type(cp).__name__}")
        emit(tag, f"copy state {state_digest(cp.state)}")
        emit(tag, f"copy auto_update {cp.auto_update}")
        emit(tag, f"orig after copy {state_digest(model.state)}")
        emit(
            tag,
            "orig values identical objects "
            f"{all(model.state[k].value is before[k].value for k in before if before[k].value is not None)}",
        )
        emit(tag, f"copy nodes distinct {all(cp.nodes[k] is not model.nodes[k] for k in cp.nodes)}")
        emit(tag, f"copy nodes model {all(n.model is cp for n in cp.nodes.values())}")
        emit(tag, f"copy order {list(cp.nodes) == list(model.nodes)} "
                  f"{[n.name for n in cp._sorted_nodes] == [n.name for n in model._sorted_nodes]}")
        # second copy of the copy
        cp2 = cp._copy_computational_model()
        emit(tag, f"copy2 state {state_digest(cp2.state)}")
        emit(tag, f"copy after copy2 {state_digest(cp.state)}")

        # state setter
        cp.state = before
        emit(tag, f"copy restored {state_digest(cp.state)}")
        cp.state = {}
        emit(tag, f"copy after empty set {state_digest(cp.state)}")
        attempt(f"{tag}.setter.err", lambda: setattr(cp, "state", {"nope": NodeState(1, False)}))
        attempt(f"{tag}.setter.err2", lambda: setattr(cp, "state", {"b0_value": (1.0,)}))
        attempt(f"{tag}.setter.err3", lambda: setattr(cp, "state", None))
        partial_set = {
            "b0_value": NodeState(jnp.array(5.0), False),
            "nope": NodeState(1, False),
            "b1_value": NodeState(jnp.array(6.0), False),
        }
        attempt(f"{tag}.setter.err4", lambda: setattr(cp, "state", partial_set))
        emit(tag, f"copy after failed set {state_digest(cp.state)}")

        # update with / without names
        m = make_model(False)
        m.vars["b0"].value = 3.0
        emit(tag, f"dirty {state_digest(m.state)}")
        emit(tag, f"update returns self {m.update('mu_value') is m}")
        emit(tag, f"after update(mu_value) {state_digest(m.state)}")
        m.update("_model_log_lik", "mu_value")
        emit(tag, f"after update(loglik) {state_digest(m.state)}")
        emit(tag, f"update returns self {m.update() is m}")
        emit(tag, f"after update() {state_digest(m.state)}")
        m.vars["b1"].value = 1.0
        attempt(f"{tag}.update.err", lambda: m.update("nope"))
        attempt(f"{tag}.update.err2", lambda: m.update("mu_value", "nope"))
        emit(tag, f"after failed update {state_digest(m.state)}")
        attempt(f"{tag}.update.err3", lambda: m.update(""))
        attempt(f"{tag}.update.err4", lambda: m.update(None))
        m.update("b0_value")
        emit(tag, f"after update(b0_value) {state_digest(m.state)}")
        m.update()
        emit(tag, f"final {state_digest(m.state)} {leaf_digest(m.log_prob)}")

    # a popped (invalid, empty) model
    m = make_model()
    m.pop_nodes_and_vars()
    emit(tag, f"empty model state {m.state!r} update {m.update() is m}")
    attempt(f"{tag}.empty.copy", lambda: emit(tag, f"empty copy {m._copy_computational_model()!r}"))


# --------------------------------------------------------------------------------------
# plain interfaces
# --------------------------------------------------------------------------------------


@dataclasses.dataclass
class DState:
    x: jnp.ndarray
    loc: jnp.ndarray
    scale: jnp.ndarray


class NState(NamedTuple):
    x: jnp.ndarray
    loc: jnp.ndarray
    scale: jnp.ndarray


def exercise_plain_interfaces():
    def lp_dict(s):
        return tfd.Normal(s["loc"], s["scale"]).log_prob(s["x"])

    def lp_attr(s):
        return tfd.Normal(s.loc, s.scale).log_prob(s.x)

    vals = dict(x=jnp.array(0.5), loc=jnp.array(0.0), scale=jnp.array(2.0))
    pos = Position({"x": jnp.array(1.0), "scale": jnp.array(3.0)})

    # dict
    tag = "dict"
    di = gs.DictInterface(lp_dict)
    s0 = dict(vals)
    s1 = di.update_state(pos, s0)
    emit(tag, f"{type(s1).__name__} {list(s1)} {tree_digest(s1)} input {tree_digest(s0)}")
    emit(tag, f"new object {s1 is not s0}")
    back = di.extract_position(list(pos), s1)
    emit(tag, f"back {type(back).__name__} {list(back)} {tree_digest(dict(back))}")
    emit(tag, f"lp {leaf_digest(di.log_prob(s1))} {leaf_digest(di.log_prob(s0))}")
    s2 = di.update_state({"new": 1.0}, s0)
    emit(tag, f"new key {list(s2)} {tree_digest(s2)}")
    emit(tag, f"empty {tree_digest(di.update_state({}, s0))} {di.extract_position([], s0)!r}")
    attempt(f"{tag}.err", lambda: di.extract_position(["nope"], s0))
    attempt(f"{tag}.err2", lambda: di.update_state(None, s0))
    emit(tag, f"jit {tree_digest(jax.jit(di.update_state)(pos, s0))}")
    emit(tag, f"attrs {sorted(vars(di))}")

    # dataclass
    tag = "dataclass"
    dc = gs.DataclassInterface(lp_attr)
    s0 = DState(**vals)
    s1 = dc.update_state(pos, s0)
    emit(tag, f"{s1!r}")
    emit(tag, f"input {s0!r} new object {s1 is not s0}")
    back = dc.extract_position(list(pos), s1)
    emit(tag, f"back {type(back).__name__} {list(back)} {tree_digest(dict(back))}")
    emit(tag, f"lp {leaf_digest(dc.log_prob(s1))} {leaf_digest(dc.log_prob(s0))}")
    emit(tag, f"empty {dc.update_state({}, s0)!r} {dc.extract_position([], s0)!r}")
    attempt(f"{tag}.err", lambda: dc.update_state({"x": 1.0, "nope": 2.0}, s0))
    emit(tag, f"input after err {s0!r}")
    attempt(f"{tag}.err2", lambda: dc.extract_position(["nope"], s0))
    attempt(f"{tag}.err3", lambda: dc.update_state({1: 2.0}, s0))
    emit(tag, f"attrs {sorted(vars(dc))}")
    emit(tag, f"methods {[m for m in sorted(vars(type(dc))) if not m.startswith('__')]}")

    # named tuple
    tag = "namedtuple"
    nt = gs.NamedTupleInterface(lp_attr)
    s0 = NState(**vals)
    s1 = nt.update_state(pos, s0)
    emit(tag, f"{s1!r}")
    emit(tag, f"input {s0!r} new object {s1 is not s0}")
    back = nt.extract_position(list(pos), s1)
    emit(tag, f"back {type(back).__name__} {list(back)} {tree_digest(dict(back))}")
    emit(tag, f"lp {leaf_digest(nt.log_prob(s1))} {leaf_digest(nt.log_prob(s0))}")
    emit(tag, f"empty {nt.update_state({}, s0)!r} {nt.extract_position([], s0)!r}")
    attempt(f"{tag}.err", lambda: nt.update_state({"nope": 2.0}, s0))
    attempt(f"{tag}.err2", lambda: nt.extract_position(["nope"], s0))
    emit(tag, f"jit {tree_digest(jax.jit(nt.update_state)(dict(pos), s0))}")
    emit(tag, f"attrs {sorted(vars(nt))}")

    for cls in (
        gs.DictInterface,
        gs.DataclassInterface,
        gs.NamedTupleInterface,
        gs.LieselInterface,
        GooseModel,
    ):
        for meth in ("extract_position", "update_state", "log_prob"):
            fn = getattr(cls, meth)
            code = fn.__code__
            emit(
                "sig",
                f"{cls.__name__}.{meth} args={code.co_varnames[:code.co_argcount]} "
                f"kwonly={code.co_kwonlyargcount} defaults={fn.__defaults__} "
                f"doc={hashlib.sha256((fn.__doc__ or '').encode()).hexdigest()[:12]}",
            )


# --------------------------------------------------------------------------------------
# gibbs kernel built on a computational copy
# --------------------------------------------------------------------------------------


def exercise_gibbs():
    tag = "gibbs"
    model = make_discrete_model()
    before = state_digest(model.state)
    kernel = finite_discrete_gibbs_kernel("cat", model)
    emit(tag, f"{type(kernel).__name__} keys {kernel.position_keys}")
    emit(tag, f"orig after build {state_digest(model.state) == before}")
    fn = kernel._transition_fn
    for i in range(4):
        key = jax.random.PRNGKey(i)
        out = fn(key, model.state)
        outj = jax.jit(fn)(key, model.state)
        emit(tag, f"draw {i} {list(out)} {tree_digest(out)} jit {tree_digest(outj)}")
    emit(tag, f"orig after draws {state_digest(model.state) == before}")
    kernel2 = finite_discrete_gibbs_kernel("cat", model, outcomes=[0.0, 2.0])
    emit(tag, f"outcomes {tree_digest(kernel2._transition_fn(jax.random.PRNGKey(5), model.state))}")
    attempt(f"{tag}.err", lambda: finite_discrete_gibbs_kernel("y", model))
    attempt(f"{tag}.err2", lambda: finite_discrete_gibbs_kernel("nope", model))
    emit(tag, f"orig after errs {state_digest(model.state) == before}")

    bm = make_bernoulli_model()
    k = finite_discrete_gibbs_kernel("dummy", bm)
    emit(tag, f"bernoulli {tree_digest(k._transition_fn(jax.random.PRNGKey(0), bm.state))}")


def exercise_engine():
    """A short MCMC run through the liesel interface (fully seeded)."""
    tag = "engine"
    model = make_model()
    builder = gs.EngineBuilder(seed=3, num_chains=2)
    builder.add_kernel(gs.NUTSKernel(["b0", "b1"]))
    tname = [n for n in model.vars if "transformed" in n][0]
    builder.add_kernel(gs.RWKernel([tname]))
    builder.set_model(gs.LieselInterface(model))
    builder.set_initial_values(model.state)
    builder.set_duration(warmup_duration=200, posterior_duration=20)
    builder.positions_included = ["mu"]
    before = state_digest(model.state)
    engine = builder.build()
    engine.sample_all_epochs()
    samples = engine.get_results().get_posterior_samples()
    emit(tag, f"{sorted(samples)} {tree_digest(dict(sorted(samples.items())))}")
    emit(tag, f"orig model {state_digest(model.state) == before}")


def main():
    for au in (True, False):
        exercise_liesel_interface(f"liesel.au{int(au)}", gs.LieselInterface, au)

    def make_goose(model):
        with warnings.catch_warnings(record=True) as w:
            warnings.simplefilter("always")
            gm = GooseModel(model)
        emit("goose.warn", f"{[(type(x.message).__name__, str(x.message)) for x in w]}")
        return gm

    exercise_liesel_interface("goose.au1", make_goose, True)
    exercise_model()
    exercise_plain_interfaces()
    exercise_gibbs()
    exercise_engine()

    digest = hashlib.sha256("\n".join(LINES).encode()).hexdigest()
    print(f"TOTAL lines={len(LINES)} sha256={digest}")


if __name__ == "__main__":
    main()
