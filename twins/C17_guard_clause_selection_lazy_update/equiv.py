"""
Deterministic exercise of Model.simulate / Model.update / the model graphs.

Run from the worktree root with PYTHONPATH pointing at the worktree:

    PYTHONPATH=$PWD python _twin/<name>/equiv.py

Prints one line per observation; the output must be identical before and after the
patch.
"""

from __future__ import annotations

import hashlib
import traceback

import jax
import jax.numpy as jnp
import numpy as np
import tensorflow_probability.substrates.jax.distributions as tfd

import liesel.model as lsl
from liesel.model.nodes import Value

jax.config.update("jax_enable_x64", False)


def digest(x) -> str:
    a = np.asarray(x)
    h = hashlib.sha256(a.tobytes()).hexdigest()[:16]
    return f"{a.dtype}{list(a.shape)}:{h}"


def show(tag: str, *parts) -> None:
    print(tag, *parts)


def dump_model(tag: str, model: lsl.Model) -> None:
    for name, var in model.vars.items():
        show(tag, "var", name, digest(var.value), "outdated", var.value_node.outdated)
    for name, node in model.nodes.items():
        try:
            val = digest(node.value)
        except Exception as e:  # ArgGroup etc.
            val = f"<{type(e).__name__}>"
        show(tag, "node", name, val, "outdated", node.outdated)
    show(tag, "log_prob", digest(model.log_prob), "log_lik", digest(model.log_lik))
    show(tag, "log_prior", digest(model.log_prior))


def dump_graphs(tag: str, model: lsl.Model) -> None:
    show(tag, "sorted", [n.name for n in model._sorted_nodes])
    show(tag, "simnodes", [n.name for n in model._simulation_nodes])
    show(tag, "node_edges", [(a.name, b.name) for a, b in model.node_graph.edges])
    show(tag, "node_nodes", [n.name for n in model.node_graph.nodes])
    show(tag, "var_edges", [(a.name, b.name) for a, b in model.var_graph.edges])
    show(tag, "var_nodes", [n.name for n in model.var_graph.nodes])
    sg = model._simulation_graph
    show(tag, "sim_edges", [(a.name, b.name) for a, b in sg.edges])
    show(tag, "sim_graph_nodes", [n.name for n in sg.nodes])
    show(tag, "seed_nodes", [n.name for n in model._seed_nodes])


# ---------------------------------------------------------------------------------
# model factories
# ---------------------------------------------------------------------------------


def direct_model(shape=()):
    mu = lsl.Var(jnp.zeros(shape), lsl.Dist(tfd.Normal, loc=2.0, scale=1.0), name="mu")
    sigma = lsl.Var(1.0, name="sigma")
    x = lsl.Var(jnp.zeros(shape), lsl.Dist(tfd.Normal, mu, sigma), name="x")
    return lsl.GraphBuilder().add(x).build_model()


def calc_model(shape=(), n_obs=4, transient=False):
    """parent -> intermediate calculation -> child, plus a grand-child."""
    tau = lsl.Var(
        jnp.ones(shape), lsl.Dist(tfd.Gamma, concentration=3.0, rate=2.0), name="tau"
    )
    mu = lsl.Var(
        jnp.zeros(shape), lsl.Dist(tfd.Normal, loc=10.0, scale=0.01), name="mu"
    )
    calc_cls = lsl.Calc
    loc = lsl.Var(calc_cls(lambda m: 100.0 * m + 1.0, mu), name="loc")
    scale = lsl.Var(calc_cls(lambda t: 1e-3 / jnp.sqrt(t), tau), name="scale")
    if transient:
        from liesel.model.nodes import TransientCalc

        shifted = TransientCalc(lambda v: v - 0.5, loc, _name="shifted")
    else:
        shifted = lsl.Calc(lambda v: v - 0.5, loc, _name="shifted")
    x = lsl.Var(jnp.zeros(shape), lsl.Dist(tfd.Normal, shifted, scale), name="x")
    y = lsl.obs(
        jnp.zeros((n_obs,) + tuple(shape)),
        lsl.Dist(tfd.Normal, x, 0.5),
        name="y",
    )
    return lsl.GraphBuilder().add(y).build_model()


def mvn_model(n_samples=3, dim=2):
    """event shape (dim,), batch shape (), sample shape (n_samples,)."""
    m = lsl.Var(
        jnp.zeros(dim),
        lsl.Dist(
            tfd.MultivariateNormalDiag,
            loc=jnp.arange(dim, dtype=jnp.float32),
            scale_diag=jnp.ones(dim),
        ),
        name="m",
    )
    sd = lsl.Var(jnp.full((dim,), 0.1), name="sd")
    z = lsl.Var(
        jnp.zeros((n_samples, dim)),
        lsl.Dist(tfd.MultivariateNormalDiag, loc=m, scale_diag=sd),
        name="z",
    )
    return lsl.GraphBuilder().add(z).build_model()


def batch_model():
    """batch shape (3,), value shape (5, 3) and a value with too few dimensions."""
    locs = lsl.Var(jnp.array([0.0, 10.0, 20.0]), name="locs")
    b = lsl.Var(jnp.zeros((5, 3)), lsl.Dist(tfd.Normal, locs, 1.0), name="b")
    c = lsl.Var(jnp.zeros((3,)), lsl.Dist(tfd.Normal, locs, 1.0), name="c")
    d = lsl.Var(0.0, lsl.Dist(tfd.Normal, locs, 1.0), name="d")
    return lsl.GraphBuilder().add(b, c, d).build_model()


def unsettable_model():
    mu = lsl.Var(0.0, lsl.Dist(tfd.Normal, loc=2.0, scale=1.0), name="mu")
    x = lsl.Var(lsl.Calc(lambda: 0.0), lsl.Dist(tfd.Normal, mu, 1.0), name="x")
    w = lsl.Var(0.0, lsl.Dist(tfd.Normal, x, 1.0), name="w")
    return lsl.GraphBuilder().add(w).build_model()


def raw_at_model(settable: bool):
    """
    A distribution node whose ``at`` is not a VarValue proxy. This cannot be built
    through the public API, so the private attribute is set before the model is built.
    """
    mu = lsl.Var(0.0, lsl.Dist(tfd.Normal, loc=2.0, scale=1.0), name="mu")
    x = lsl.Var(jnp.zeros(3), lsl.Dist(tfd.Normal, mu, 1.0), name="x")
    if settable:
        raw = Value(jnp.zeros(2), _name="raw")
    else:
        raw = lsl.Calc(lambda: jnp.zeros(2), _name="raw")
    x.dist_node._at = raw
    x.dist_node.set_inputs(*x.dist_node.inputs, **x.dist_node.kwinputs)
    return lsl.GraphBuilder().add(x).build_model()


def orphan_dist_model():
    """A distribution node that is not part of a variable is never simulated."""
    mu = lsl.Var(0.0, lsl.Dist(tfd.Normal, loc=2.0, scale=1.0), name="mu")
    at = Value(jnp.zeros(2), _name="orphan_at")
    orphan = lsl.Dist(tfd.Normal, mu, 1.0, _name="orphan")
    orphan._at = at
    orphan.set_inputs(*orphan.inputs, **orphan.kwinputs)
    return lsl.GraphBuilder().add(mu, orphan).build_model()


class Counting:
    """An iterable that records every membership test."""

    def __init__(self, items):
        self.items = list(items)
        self.log: list[str] = []

    def __contains__(self, item):
        self.log.append(item)
        return item in self.items

    def __iter__(self):
        return iter(self.items)


# ---------------------------------------------------------------------------------
# scenarios
# ---------------------------------------------------------------------------------


def run(tag: str, factory, seed, skip=(), auto_update=True, typed_key=False):
    tag = f"[{tag}|seed={seed}|auto={auto_update}|typed={typed_key}]"
    try:
        model = factory()
        model.auto_update = auto_update
        key = jax.random.key(seed) if typed_key else jax.random.PRNGKey(seed)
        before = {n: digest(v.value) for n, v in model.vars.items()}
        try:
            ret = model.simulate(key, skip() if callable(skip) else skip)
            show(tag, "returned self", ret is model)
        except Exception as e:
            ctx = e.__context__
            show(
                tag,
                "EXC",
                type(e).__name__,
                str(e),
                "| context",
                type(ctx).__name__ if ctx is not None else None,
                "| cause",
                e.__cause__,
                "| suppress",
                e.__suppress_context__,
            )
        if isinstance(skip, Counting):
            show(tag, "membership tests", skip.log)
        show(tag, "auto_update still", model.auto_update)
        dump_model(tag + "after-sim", model)
        unchanged = [n for n, v in model.vars.items() if digest(v.value) == before[n]]
        show(tag, "unchanged", unchanged)
        model.update()
        dump_model(tag + "after-upd", model)
    except Exception:
        show(tag, "OUTER EXC")
        traceback.print_exc(limit=0)


def main() -> None:
    # graphs / orders
    for name, factory in [
        ("direct", direct_model),
        ("calc", calc_model),
        ("calc_tr", lambda: calc_model(transient=True)),
        ("mvn", mvn_model),
        ("batch", batch_model),
        ("unsettable", unsettable_model),
        ("raw_at", lambda: raw_at_model(True)),
        ("orphan", orphan_dist_model),
        ("empty", lambda: lsl.Model([])),
    ]:
        dump_graphs(f"[graphs:{name}]", factory())

    for auto in (True, False):
        for seed in (0, 1, 42):
            run("direct", direct_model, seed, auto_update=auto)
            run("direct5", lambda: direct_model((5,)), seed, auto_update=auto)
            run("calc", calc_model, seed, auto_update=auto)
        run("direct23", lambda: direct_model((2, 3)), 7, auto_update=auto)
        run("calc3", lambda: calc_model((3,)), 7, auto_update=auto)
        run("calc_tr", lambda: calc_model(transient=True), 7, auto_update=auto)
        run("calc_typed", calc_model, 7, auto_update=auto, typed_key=True)
        run("mvn", mvn_model, 3, auto_update=auto)
        run("mvn1", lambda: mvn_model(1, 3), 3, auto_update=auto)
        run("batch", batch_model, 5, auto_update=auto)
        run("unsettable", unsettable_model, 5, auto_update=auto)
        run("raw_at", lambda: raw_at_model(True), 5, auto_update=auto)
        run("raw_at_calc", lambda: raw_at_model(False), 5, auto_update=auto)
        run("orphan", orphan_dist_model, 5, auto_update=auto)
        run("empty", lambda: lsl.Model([]), 5, auto_update=auto)

        # skip sets of several kinds
        skips = {
            "list_var": ["mu"],
            "tuple_dist": ("x_log_prob",),
            "set_at": {"tau_var_value", "y"},
            "frozenset_all": frozenset({"mu", "tau", "x", "y"}),
            "string": "mu,tau_log_prob",
            "dict": {"x": 1},
            "generator": lambda: (n for n in ["tau", "x", "mu", "y", "tau"]),
            "iterator": lambda: iter(["y_var_value", "mu_log_prob"]),
            "counting": Counting(["x"]),
            "unknown": ["nope"],
        }
        for sname, skip in skips.items():
            if isinstance(skip, Counting):
                skip = Counting(skip.items)
            run(f"calc-skip-{sname}", calc_model, 11, skip=skip, auto_update=auto)
        run("orphan-count", orphan_dist_model, 2, skip=Counting([]), auto_update=auto)

    # update() with names, on an outdated model
    for names in [
        (),
        ("x_value",),
        ("loc_value", "scale_var_value"),
        ("shifted",),
        ("y_log_prob",),
        ("x_log_prob", "x_log_prob"),
        ("_model_log_prior",),
        ("_model_log_prob",),
    ]:
        model = calc_model()
        model.auto_update = False
        model.vars["mu"].value = 3.0
        model.vars["tau"].value = 4.0
        model.vars["x"].value = 1.5
        ret = model.update(*names)
        tag = f"[update{names}]"
        show(tag, "returned self", ret is model)
        dump_model(tag, model)
    try:
        calc_model().update("x_value", "missing")
    except Exception as e:
        show("[update-missing]", type(e).__name__, e)

    # same seed twice gives the same draw; chained call; repeated simulate
    m = calc_model()
    m.simulate(jax.random.PRNGKey(9)).simulate(jax.random.PRNGKey(9), skip=["mu"])
    dump_model("[chained]", m)

    # copies and pops still work and give the same graphs
    m = calc_model()
    nodes, _vars = m.copy_nodes_and_vars()
    m2 = lsl.GraphBuilder().add(*_vars.values()).build_model()
    dump_graphs("[copied]", m2)
    m2.auto_update = False
    m2.simulate(jax.random.PRNGKey(1))
    dump_model("[copied-sim]", m2)
    nodes, _vars = m.pop_nodes_and_vars()
    show("[popped]", sorted(nodes), sorted(_vars))


def call_sequences() -> None:
    """
    Records the sequence in which the calculation nodes are (re)computed and in which
    the skip collection is queried, for simulate() and update().
    """
    log: list[str] = []

    def traced(label, fn):
        def wrapper(*args):
            log.append(label)
            return fn(*args)

        return wrapper

    def fresh():
        tau = lsl.Var(1.0, lsl.Dist(tfd.Gamma, concentration=3.0, rate=2.0), name="tau")
        mu = lsl.Var(0.0, lsl.Dist(tfd.Normal, loc=10.0, scale=0.01), name="mu")
        loc = lsl.Var(
            lsl.Calc(traced("loc", lambda m: 100.0 * m + 1.0), mu), name="loc"
        )
        scale = lsl.Var(
            lsl.Calc(traced("scale", lambda t: 1e-3 / jnp.sqrt(t)), tau), name="scale"
        )
        both = lsl.Var(
            lsl.Calc(traced("both", lambda a, b: a * b), loc, scale), name="both"
        )
        x = lsl.Var(jnp.zeros(2), lsl.Dist(tfd.Normal, loc, scale), name="x")
        y = lsl.obs(jnp.zeros((3, 2)), lsl.Dist(tfd.Normal, x, both), name="y")
        unrelated = lsl.Var(
            lsl.Calc(traced("unrelated", lambda t: t + 1.0), tau), name="unrelated"
        )
        model = lsl.GraphBuilder().add(y, unrelated).build_model()
        log.clear()
        return model

    for auto in (True, False):
        for skip in (
            [],
            ["mu"],
            ["x_log_prob", "tau_var_value"],
            ["y", "x", "tau", "mu"],
        ):
            model = fresh()
            model.auto_update = auto
            counting = Counting(skip)
            model.simulate(jax.random.PRNGKey(8), counting)
            tag = f"[seq:simulate|auto={auto}|skip={skip}]"
            show(tag, "calc calls", list(log))
            show(tag, "skip queries", counting.log)
            show(tag, "outdated", [n for n, nd in model.nodes.items() if nd.outdated])
            log.clear()
            model.update()
            show(tag, "calc calls in update", list(log))
            dump_model(tag, model)

    targets = [
        (),
        ("loc_value",),
        ("scale_value",),
        ("both_value",),
        ("x_log_prob",),
        ("y_log_prob", "unrelated_value"),
        ("unrelated_var_value",),
        ("_model_log_lik",),
        ("mu_value",),
    ]
    for names in targets:
        model = fresh()
        model.auto_update = False
        model.vars["mu"].value = 3.0
        model.vars["tau"].value = 4.0
        log.clear()
        model.update(*names)
        tag = f"[seq:update{names}]"
        show(tag, "calc calls", list(log))
        show(tag, "outdated", [n for n, nd in model.nodes.items() if nd.outdated])
        log.clear()
        model.update(*names)
        show(tag, "second call", list(log))

    # an update that fails half-way leaves the same nodes updated
    def boom(v):
        log.append("boom")
        if float(v) > 1.0:
            raise ValueError("too large")
        return v

    a = lsl.Var(0.0, name="a")
    first = lsl.Var(lsl.Calc(traced("first", lambda v: v + 1.0), a), name="first")
    bad = lsl.Var(lsl.Calc(boom, a), name="bad")
    last = lsl.Var(lsl.Calc(traced("last", lambda v: v + 2.0), bad), name="last")
    model = lsl.GraphBuilder().add(first, last).build_model()
    model.auto_update = False
    log.clear()
    model.vars["a"].value = 5.0
    for names in [("last_value",), ()]:
        try:
            model.update(*names)
        except Exception as e:
            cause = e.__cause__
            show("[seq:failing]", names, type(e).__name__, e, "|", repr(cause))
        show("[seq:failing]", names, "calls", list(log))
        show(
            "[seq:failing]",
            names,
            "outdated",
            [n for n, nd in model.nodes.items() if nd.outdated],
        )
        log.clear()


if __name__ == "__main__":
    main()
    call_sequences()
