#!/usr/bin/env python3
"""
Mutation analysis OF THE CHECKERS (not of liesel's tests): apply generic mutation
operators to the functions the rules consult and list the mutants that no check reports.
Survivors are triage input -- each is either equivalent / outside every property, or a gap
in a rule.  Nothing here is part of a registered check.

usage: python3-vt tools/mutation_sweep.py [--jobs 16] [--only qualname-substring]
                                          [--max-per-fn 40] [--out survivors.json]
"""
import argparse
import ast
import copy
import json
import os
import shutil
import sys
import tempfile
from concurrent.futures import ProcessPoolExecutor

HERE = os.path.dirname(os.path.dirname(os.path.abspath(__file__)))
sys.path.insert(0, HERE)
from lsa.core.loader import Repo  # noqa: E402

PROPS = [f"C{i:02d}" for i in range(1, 21)]
CMP = {ast.Lt: ast.LtE, ast.LtE: ast.Lt, ast.Gt: ast.GtE, ast.GtE: ast.Gt,
       ast.Eq: ast.NotEq, ast.NotEq: ast.Eq, ast.Is: ast.IsNot, ast.IsNot: ast.Is,
       ast.In: ast.NotIn, ast.NotIn: ast.In}
BIN = {ast.Add: ast.Sub, ast.Sub: ast.Add, ast.Mult: ast.Div, ast.Div: ast.Mult,
       ast.FloorDiv: ast.Mult, ast.Mod: ast.FloorDiv, ast.MatMult: ast.Mult}


_PARAMS, _SIBS = {}, {}


def _prepare(fn):
    """parameter names and, per `self.<attr>` read, the next other attribute read on
    self in the same function (a plausible mix-up)."""
    _PARAMS[id(fn)] = [a.arg for a in fn.args.args + fn.args.kwonlyargs]
    attrs = []
    for x in ast.walk(fn):
        if isinstance(x, ast.Attribute) and isinstance(x.ctx, ast.Load) \
                and isinstance(x.value, ast.Name) and x.value.id == "self" \
                and x.attr not in attrs:
            attrs.append(x.attr)
    _SIBS[id(fn)] = {a: attrs[(i + 1) % len(attrs)] for i, a in enumerate(attrs)} \
        if len(attrs) > 1 else {}


def sites(fn):
    """(kind, index, description) for every mutation site inside a function node."""
    _prepare(fn)
    out = []
    counters = {}

    def add(kind, node, desc):
        i = counters.get(kind, 0)
        counters[kind] = i + 1
        out.append((kind, i, f"{desc} @L{getattr(node, 'lineno', '?')}"))

    for x in ast.walk(fn):
        if x is fn:
            continue
        if isinstance(x, ast.If):
            add("neg_if", x, "negate if " + ast.unparse(x.test)[:50])
        elif isinstance(x, ast.Compare) and len(x.ops) == 1 and type(x.ops[0]) in CMP:
            add("cmp", x, "flip " + ast.unparse(x)[:50])
        elif isinstance(x, ast.BinOp) and type(x.op) in BIN:
            add("bin", x, "op " + ast.unparse(x)[:50])
        elif isinstance(x, ast.BoolOp):
            add("bool", x, "and<->or " + ast.unparse(x)[:50])
        elif isinstance(x, ast.Constant) and isinstance(x.value, (int, float)) \
                and not isinstance(x.value, bool):
            add("const", x, f"const {x.value!r}")
        elif isinstance(x, ast.Constant) and isinstance(x.value, bool):
            add("boolconst", x, f"const {x.value!r}")
        elif isinstance(x, ast.Call) and len(x.args) >= 2 and not any(
                isinstance(a, ast.Starred) for a in x.args[:2]):
            add("swap_args", x, "swap args " + ast.unparse(x)[:60])
        if isinstance(x, (ast.Expr, ast.Assign, ast.AugAssign)) and not (
                isinstance(x, ast.Expr) and isinstance(x.value, ast.Constant)):
            add("del_stmt", x, "delete " + ast.unparse(x)[:60])
        if isinstance(x, ast.UnaryOp) and isinstance(x.op, (ast.Not, ast.USub)):
            add("drop_unary", x, "drop " + ast.unparse(x)[:50])
        if isinstance(x, ast.Call):
            for kwd in x.keywords:
                if kwd.arg is not None:
                    add("drop_kwarg", x, f"drop keyword {kwd.arg}= in " + ast.unparse(x)[:45])
            names = [a for a in x.args if isinstance(a, ast.Name)]
            if len(names) >= 1 and _PARAMS.get(id(fn)):
                for a in names:
                    others = [p_ for p_ in _PARAMS[id(fn)] if p_ != a.id and p_ != "self"]
                    if others:
                        add("arg_name", x, f"arg {a.id} -> {others[0]} in " + ast.unparse(x)[:45])
        if isinstance(x, ast.Attribute) and isinstance(x.ctx, ast.Load) \
                and isinstance(x.value, ast.Name) and x.value.id == "self":
            sib = _SIBS.get(id(fn), {}).get(x.attr)
            if sib:
                add("attr_sibling", x, f"self.{x.attr} -> self.{sib}")
        if isinstance(x, ast.Return) and x.value is not None and not isinstance(
                x.value, ast.Constant):
            pass
    return out


def _mutate_multi(fn, kind, index):
    """kinds that have several sites per node (same enumeration order as sites())."""
    _prepare(fn)
    count = 0
    for x in ast.walk(fn):
        if x is fn:
            continue
        if kind == "drop_kwarg" and isinstance(x, ast.Call):
            for kwd in list(x.keywords):
                if kwd.arg is not None:
                    if count == index:
                        x.keywords.remove(kwd)
                        return True
                    count += 1
        elif kind == "arg_name" and isinstance(x, ast.Call):
            names = [a for a in x.args if isinstance(a, ast.Name)]
            if len(names) >= 1 and _PARAMS.get(id(fn)):
                for a in names:
                    others = [p_ for p_ in _PARAMS[id(fn)] if p_ != a.id and p_ != "self"]
                    if others:
                        if count == index:
                            a.id = others[0]
                            return True
                        count += 1
        elif kind == "attr_sibling" and isinstance(x, ast.Attribute) \
                and isinstance(x.ctx, ast.Load) and isinstance(x.value, ast.Name) \
                and x.value.id == "self":
            sib = _SIBS.get(id(fn), {}).get(x.attr)
            if sib:
                if count == index:
                    x.attr = sib
                    return True
                count += 1
    return False


def mutate(fn, kind, index):
    """Mutate in place (fn is a deep copy inside its module tree); uses the same walk
    order as sites()."""
    if kind in ("drop_kwarg", "arg_name", "attr_sibling"):
        return _mutate_multi(fn, kind, index)
    count = 0
    for x in ast.walk(fn):
        if x is fn:
            continue
        match = False
        if kind == "neg_if" and isinstance(x, ast.If):
            match = True
        elif kind == "cmp" and isinstance(x, ast.Compare) and len(x.ops) == 1 \
                and type(x.ops[0]) in CMP:
            match = True
        elif kind == "bin" and isinstance(x, ast.BinOp) and type(x.op) in BIN:
            match = True
        elif kind == "bool" and isinstance(x, ast.BoolOp):
            match = True
        elif kind == "const" and isinstance(x, ast.Constant) and isinstance(
                x.value, (int, float)) and not isinstance(x.value, bool):
            match = True
        elif kind == "boolconst" and isinstance(x, ast.Constant) and isinstance(x.value, bool):
            match = True
        elif kind == "swap_args" and isinstance(x, ast.Call) and len(x.args) >= 2 and not any(
                isinstance(a, ast.Starred) for a in x.args[:2]):
            match = True
        elif kind == "del_stmt" and isinstance(x, (ast.Expr, ast.Assign, ast.AugAssign)) \
                and not (isinstance(x, ast.Expr) and isinstance(x.value, ast.Constant)):
            match = True
        elif kind == "drop_unary" and isinstance(x, ast.UnaryOp) and isinstance(
                x.op, (ast.Not, ast.USub)):
            match = True
        if not match:
            continue
        if count != index:
            count += 1
            continue
        if kind == "neg_if":
            x.test = ast.UnaryOp(op=ast.Not(), operand=x.test)
        elif kind == "cmp":
            x.ops = [CMP[type(x.ops[0])]()]
        elif kind == "bin":
            x.op = BIN[type(x.op)]()
        elif kind == "bool":
            x.op = ast.Or() if isinstance(x.op, ast.And) else ast.And()
        elif kind == "const":
            x.value = 0 if x.value == 1 else (x.value + 1)
        elif kind == "boolconst":
            x.value = not x.value
        elif kind == "swap_args":
            x.args[0], x.args[1] = x.args[1], x.args[0]
        elif kind == "del_stmt":
            # replace by `pass` (keep the node object so parents stay valid)
            x.__class__ = ast.Pass
            for f in list(x.__dict__):
                if f not in ("lineno", "col_offset", "end_lineno", "end_col_offset"):
                    delattr(x, f)
        elif kind == "drop_unary":
            op = x.operand
            x.__class__ = op.__class__
            x.__dict__.clear()
            x.__dict__.update(op.__dict__)
        return True
    return False


def find_fn(tree, qual_parts):
    node = tree
    for part in qual_parts:
        if part == "<locals>":
            continue
        nxt = None
        stack = list(getattr(node, "body", []))
        while stack:
            st = stack.pop(0)
            if isinstance(st, (ast.FunctionDef, ast.ClassDef)) and st.name == part:
                nxt = st
                break
            if not isinstance(st, (ast.FunctionDef, ast.ClassDef)):
                for f in ("body", "orelse", "finalbody"):
                    stack.extend(getattr(st, f, []) or [])
                for h in getattr(st, "handlers", []) or []:
                    stack.extend(h.body)
        if nxt is None:
            return None
        node = nxt
    return node


_W = {}


def _worker_init(base):
    root = tempfile.mkdtemp(prefix="lsa_mut_", dir=base)
    shutil.copytree("/repo/liesel", os.path.join(root, "liesel"),
                    ignore=shutil.ignore_patterns("__pycache__"))
    _W["root"] = root


def _run(task):
    relpath, parts, kind, index, desc, props, qual = task
    from lsa.__main__ import run_rules
    from lsa.core.loader import AnalysisError
    from lsa.core.report import load_known, match_known
    root = _W["root"]
    path = os.path.join(root, relpath)
    orig = open(os.path.join("/repo", relpath)).read()
    tree = ast.parse(orig)
    fn = find_fn(tree, parts)
    if fn is None or not mutate(fn, kind, index):
        return (qual, kind, index, desc, "nosite", [])
    try:
        out = ast.unparse(ast.fix_missing_locations(tree))
        compile(out, relpath, "exec")
    except Exception as e:
        return (qual, kind, index, desc, "nocompile", [str(e)[:80]])
    open(path, "w").write(out)
    hits = []
    try:
        known = load_known()
        for p in props:
            try:
                ctx = run_rules(p, root, "quick")
            except AnalysisError:
                hits.append(p + ":E2")
                continue
            except Exception as e:
                hits.append(p + ":crash " + type(e).__name__)
                continue
            bad = [o for o in ctx.obligations if not o.ok and not match_known(o, p, known)]
            if bad:
                hits.append(p + ":" + bad[0].rule)
            elif ctx.min_failures:
                hits.append(p + ":E2")
    finally:
        open(path, "w").write(orig)
    return (qual, kind, index, desc, "killed" if hits else "survived", hits)


def main():
    ap = argparse.ArgumentParser()
    ap.add_argument("--jobs", type=int, default=16)
    ap.add_argument("--only", default="")
    ap.add_argument("--max-per-fn", type=int, default=60)
    ap.add_argument("--out", default="/tmp/mutation_survivors.json")
    ap.add_argument("--kinds", default="",
                    help="comma-separated mutation kinds to keep (default: all)")
    ap.add_argument("--unconsulted", action="store_true",
                    help="mutate the functions of the anchor files that NO rule consults")
    ap.add_argument("--from-survivors", default="",
                    help="re-run only the survivors recorded in this earlier result file")
    ap.add_argument("--skip-c10-only", action="store_true",
                    help="skip functions only the C10 key scan consults")
    args = ap.parse_args()
    repo = Repo("/repo")
    consulted = {}
    for p in PROPS:
        ev = json.load(open(os.path.join(HERE, "evidence", f"{p}.json")))
        for q in ev["coverage"]["analysed"]["functions_consulted"]:
            consulted.setdefault(q, []).append(p)
    if args.unconsulted:
        anchor_files = set()
        for line in open(os.path.join(HERE, "properties.jsonl")):
            anchor_files |= set(json.loads(line)["anchors"]["files"])
        consulted = {q: [] for q, fi in repo.functions.items()
                     if fi.module.relpath in anchor_files and q not in consulted
                     and "<locals>" not in q and not fi.name.startswith("__repr")
                     and not fi.name.startswith(("plot_", "_repr_", "__str__"))}
    tasks = []
    for q, props in sorted(consulted.items()):
        if args.only and args.only not in q:
            continue
        if args.skip_c10_only and props == ["C10"]:
            continue
        fi = repo.functions.get(q)
        if fi is None:
            continue
        mod = fi.module.name
        parts = q[len(mod) + 1:].split(".")
        parts = [x.replace("#setter", "") for x in parts]
        ss = sites(fi.node)
        if args.kinds:
            ss = [x for x in ss if x[0] in args.kinds.split(",")]
        ss = ss[: args.max_per_fn]
        for kind, index, desc in ss:
            tasks.append((fi.module.relpath, parts, kind, index, desc, PROPS, q))
    if args.from_survivors:
        keep = {(r[0], r[1], r[2]) for r in json.load(open(args.from_survivors))["survivors"]}
        tasks = [t for t in tasks if (t[6], t[2], t[3]) in keep]
    print(f"{len(tasks)} mutants over {len(consulted)} consulted functions", flush=True)
    base = "/dev/shm" if os.path.isdir("/dev/shm") else tempfile.gettempdir()
    results = []
    with ProcessPoolExecutor(max_workers=args.jobs, initializer=_worker_init,
                             initargs=(base,)) as ex:
        for i, r in enumerate(ex.map(_run, tasks, chunksize=4)):
            results.append(r)
            if (i + 1) % 200 == 0:
                k = sum(1 for x in results if x[4] == "killed")
                print(f"  {i + 1}/{len(tasks)} killed={k}", flush=True)
    for d in os.listdir(base):
        if d.startswith("lsa_mut_"):
            shutil.rmtree(os.path.join(base, d), ignore_errors=True)
    stats = {}
    for r in results:
        stats[r[4]] = stats.get(r[4], 0) + 1
    print(stats)
    surv = [r for r in results if r[4] == "survived"]
    json.dump({"stats": stats, "survivors": surv,
               "killed": [r for r in results if r[4] == "killed"]}, open(args.out, "w"), indent=1)
    byfn = {}
    for r in surv:
        byfn.setdefault(r[0], []).append(r)
    for q, rs in sorted(byfn.items()):
        print(f"\n{q}  [{','.join(consulted.get(q, []))}]")
        for r in rs:
            print(f"    {r[1]:10s} {r[3]}")
    return 0


if __name__ == "__main__":
    sys.exit(main())
