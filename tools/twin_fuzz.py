#!/usr/bin/env python3
"""
Robustness exercise: apply mechanical, behaviour-preserving source transformations to a
scratch copy of /repo/liesel and run every check on it.  Any alarm is a brittle rule
(a false alarm in waiting).  Usage: python3-vt tools/twin_fuzz.py [transform ...]

Transformations (whole package at once):
  ret_tmp     `return e`            ->  `_lsa_r = e; return _lsa_r`
  if_swap     `if c: A else: B`     ->  `if not (c): B else: A`
  cmp_flip    `a < b`               ->  `b > a`   (single comparisons)
  rename      local variables get the suffix `_v` (functions without nested scopes)
  kwargs      positional arguments of calls to liesel functions/methods -> keywords
  assign_tmp  `x = f(...)`          ->  `_lsa_t = f(...); x = _lsa_t`
"""
import ast
import os
import shutil
import subprocess
import sys
import tempfile

HERE = os.path.dirname(os.path.dirname(os.path.abspath(__file__)))
sys.path.insert(0, HERE)
from lsa.core.loader import Repo  # noqa: E402


def uses_locals(fn) -> bool:
    return any(isinstance(x, ast.Call) and isinstance(x.func, ast.Name)
               and x.func.id in ("locals", "vars", "eval", "exec") for x in ast.walk(fn))


class RetTmp(ast.NodeTransformer):
    def visit_FunctionDef(self, node):
        self.generic_visit(node)
        if uses_locals(node):
            return node

        class R(ast.NodeTransformer):
            def visit_FunctionDef(s, n):  # do not descend
                return n
            visit_AsyncFunctionDef = visit_Lambda = visit_ClassDef = visit_FunctionDef

            def visit_Return(s, n):
                if n.value is None or isinstance(n.value, (ast.Name, ast.Constant)):
                    return n
                return [ast.Assign(targets=[ast.Name(id="_lsa_r", ctx=ast.Store())],
                                   value=n.value),
                        ast.Return(value=ast.Name(id="_lsa_r", ctx=ast.Load()))]
        node.body = [x for st in node.body for x in _aslist(R().visit(st))]
        return node


def _aslist(x):
    return x if isinstance(x, list) else [x]


class IfSwap(ast.NodeTransformer):
    def visit_If(self, node):
        self.generic_visit(node)
        if node.orelse:
            return ast.If(test=ast.UnaryOp(op=ast.Not(), operand=node.test),
                          body=node.orelse, orelse=node.body)
        return node


class CmpFlip(ast.NodeTransformer):
    FL = {ast.Lt: ast.Gt, ast.Gt: ast.Lt, ast.LtE: ast.GtE, ast.GtE: ast.LtE}

    def visit_Compare(self, node):
        self.generic_visit(node)
        if len(node.ops) == 1 and type(node.ops[0]) in self.FL:
            return ast.Compare(left=node.comparators[0], ops=[self.FL[type(node.ops[0])]()],
                               comparators=[node.left])
        return node


class AssignTmp(ast.NodeTransformer):
    def visit_FunctionDef(self, node):
        self.generic_visit(node)
        if uses_locals(node):
            return node

        class R(ast.NodeTransformer):
            def visit_FunctionDef(s, n):
                return n
            visit_AsyncFunctionDef = visit_Lambda = visit_ClassDef = visit_FunctionDef

            def visit_Assign(s, n):
                if len(n.targets) == 1 and isinstance(n.targets[0], ast.Name) \
                        and isinstance(n.value, ast.Call):
                    return [ast.Assign(targets=[ast.Name(id="_lsa_t", ctx=ast.Store())],
                                       value=n.value),
                            ast.Assign(targets=n.targets,
                                       value=ast.Name(id="_lsa_t", ctx=ast.Load()))]
                return n
        node.body = [x for st in node.body for x in _aslist(R().visit(st))]
        return node


class Rename(ast.NodeTransformer):
    def visit_FunctionDef(self, node):
        self.generic_visit(node)
        nested = any(isinstance(x, (ast.FunctionDef, ast.Lambda, ast.ClassDef, ast.ListComp,
                                    ast.SetComp, ast.DictComp, ast.GeneratorExp,
                                    ast.Global, ast.Nonlocal))
                     for st in node.body for x in ast.walk(st))
        if nested or uses_locals(node):
            return node
        a = node.args
        params = {x.arg for x in a.posonlyargs + a.args + a.kwonlyargs}
        if a.vararg:
            params.add(a.vararg.arg)
        if a.kwarg:
            params.add(a.kwarg.arg)
        assigned = set()
        for x in ast.walk(node):
            if isinstance(x, ast.Name) and isinstance(x.ctx, ast.Store):
                assigned.add(x.id)
            if isinstance(x, (ast.Import, ast.ImportFrom)):
                for al in x.names:
                    assigned.discard((al.asname or al.name).split(".")[0])
                    params.add((al.asname or al.name).split(".")[0])
            if isinstance(x, ast.ExceptHandler) and x.name:
                params.add(x.name)
            if isinstance(x, ast.MatchAs) and x.name:
                params.add(x.name)
        targets = assigned - params
        for x in ast.walk(node):
            if isinstance(x, ast.Name) and x.id in targets:
                x.id = x.id + "_v"
        return node


class Kwargs(ast.NodeTransformer):
    def __init__(self, repo, mi):
        self.repo, self.mi = repo, mi
        self.cls = None

    def visit_ClassDef(self, node):
        old, self.cls = self.cls, self.repo.classes.get(f"{self.mi.name}.{node.name}")
        self.generic_visit(node)
        self.cls = old
        return node

    def visit_Call(self, node):
        self.generic_visit(node)
        if any(isinstance(a, ast.Starred) for a in node.args) or not node.args:
            return node
        callee, skip = None, 0
        f = node.func
        if isinstance(f, ast.Name):
            q = self.repo.resolve_in(self.mi, f.id)
            callee = self.repo.functions.get(q) if q else None
        elif isinstance(f, ast.Attribute) and isinstance(f.value, ast.Name) \
                and f.value.id == "self" and self.cls is not None:
            callee = self.repo.lookup_method(self.cls, f.attr)
            skip = 1
            if callee is not None and any(d in ("property", "staticmethod", "classmethod")
                                          for d in callee.decorators()):
                callee = None
        if callee is None or isinstance(callee.node, ast.Lambda):
            return node
        a = callee.node.args
        if a.posonlyargs or a.vararg:
            return node
        if callee.decorators() and not skip:
            return node  # wrapped functions may not accept keywords
        names = [x.arg for x in a.args][skip:]
        if len(node.args) > len(names):
            return node
        kws = [ast.keyword(arg=names[i], value=v) for i, v in enumerate(node.args)]
        if {k.arg for k in kws} & {k.arg for k in node.keywords}:
            return node
        return ast.Call(func=node.func, args=[], keywords=kws + node.keywords)


class UnpackIndex(ast.NodeTransformer):
    """a, b = f(...)  ->  _lsa_u = f(...); a = _lsa_u[0]; b = _lsa_u[1]"""

    def visit_FunctionDef(self, node):
        self.generic_visit(node)
        if uses_locals(node):
            return node

        class R(ast.NodeTransformer):
            def visit_FunctionDef(s, n):
                return n
            visit_AsyncFunctionDef = visit_Lambda = visit_ClassDef = visit_FunctionDef

            def visit_Assign(s, n):
                if len(n.targets) == 1 and isinstance(n.targets[0], ast.Tuple) \
                        and isinstance(n.value, ast.Call) \
                        and all(isinstance(e, ast.Name) for e in n.targets[0].elts):
                    out = [ast.Assign(targets=[ast.Name(id="_lsa_u", ctx=ast.Store())],
                                      value=n.value)]
                    for i, e in enumerate(n.targets[0].elts):
                        out.append(ast.Assign(
                            targets=[ast.Name(id=e.id, ctx=ast.Store())],
                            value=ast.Subscript(value=ast.Name(id="_lsa_u", ctx=ast.Load()),
                                                slice=ast.Constant(i), ctx=ast.Load())))
                    return out
                return n
        node.body = [x for st in node.body for x in _aslist(R().visit(st))]
        return node


class AndSplit(ast.NodeTransformer):
    """if a and b: X   (no else)  ->  if a:\n    if b: X"""

    def visit_If(self, node):
        self.generic_visit(node)
        if not node.orelse and isinstance(node.test, ast.BoolOp) \
                and isinstance(node.test.op, ast.And) and len(node.test.values) == 2:
            a, b = node.test.values
            return ast.If(test=a, body=[ast.If(test=b, body=node.body, orelse=[])], orelse=[])
        return node


class InlineStmtCalls(ast.NodeTransformer):
    """`self._helper(a, b)` used as a statement  ->  the helper's body pasted in place
    (parameters replaced by the argument expressions, its locals prefixed)."""

    def __init__(self, repo, mi):
        self.repo, self.mi, self.cls = repo, mi, None

    def visit_ClassDef(self, node):
        old, self.cls = self.cls, self.repo.classes.get(f"{self.mi.name}.{node.name}")
        self.generic_visit(node)
        self.cls = old
        return node

    def visit_Expr(self, node):
        v = node.value
        if not (isinstance(v, ast.Call) and isinstance(v.func, ast.Attribute)
                and isinstance(v.func.value, ast.Name) and v.func.value.id == "self"
                and self.cls is not None and v.func.attr.startswith("_")
                and not v.func.attr.startswith("__")):
            return node
        callee = self.cls.own_method(v.func.attr)
        if callee is None or callee.decorators() or v.keywords or any(
                isinstance(a, ast.Starred) for a in v.args):
            return node
        fn = callee.node
        a = fn.args
        if a.vararg or a.kwarg or a.kwonlyargs or a.defaults and len(v.args) != len(a.args) - 1:
            return node
        params = [x.arg for x in a.args][1:]
        if len(params) != len(v.args):
            return node
        if not all(isinstance(x, (ast.Name, ast.Attribute, ast.Constant)) for x in v.args):
            return node
        body = [st for st in fn.body if not (isinstance(st, ast.Expr) and isinstance(
            st.value, ast.Constant) and isinstance(st.value.value, str))]
        for st in body:
            for x in ast.walk(st):
                if isinstance(x, (ast.Return, ast.FunctionDef, ast.Lambda, ast.Yield,
                                  ast.ListComp, ast.DictComp, ast.SetComp, ast.GeneratorExp)):
                    return node
        import copy as _copy
        body = _copy.deepcopy(body)
        mapping = dict(zip(params, v.args))
        locals_ = set()
        for st in body:
            for x in ast.walk(st):
                if isinstance(x, ast.Name) and isinstance(x.ctx, ast.Store):
                    locals_.add(x.id)
        prefix = f"_inl{v.func.attr}_"

        class Sub(ast.NodeTransformer):
            def visit_Name(s, n):
                if n.id in mapping and isinstance(n.ctx, ast.Load) and n.id not in locals_:
                    return _copy.deepcopy(mapping[n.id])
                if n.id in locals_:
                    return ast.Name(id=prefix + n.id, ctx=n.ctx)
                return n
        if any(p in locals_ for p in params):
            return node
        return [Sub().visit(st) for st in body] or [ast.Pass()]


class StripAnn(ast.NodeTransformer):
    """Remove parameter / return annotations of functions (not class-level fields)."""

    def visit_FunctionDef(self, node):
        self.generic_visit(node)
        a = node.args
        for x in a.posonlyargs + a.args + a.kwonlyargs:
            x.annotation = None
        if a.vararg:
            a.vararg.annotation = None
        if a.kwarg:
            a.kwarg.annotation = None
        node.returns = None
        return node


class TernaryToIf(ast.NodeTransformer):
    """`x = a if c else b`  ->  `if c: x = a` / `else: x = b` (simple name targets)."""

    def visit_Assign(self, node):
        if len(node.targets) == 1 and isinstance(node.targets[0], ast.Name) \
                and isinstance(node.value, ast.IfExp):
            v = node.value
            return ast.If(test=v.test,
                          body=[ast.Assign(targets=node.targets, value=v.body)],
                          orelse=[ast.Assign(targets=node.targets, value=v.orelse)])
        return node


class DeMorgan(ast.NodeTransformer):
    """`not (a and b)` -> `(not a) or (not b)` and dually."""

    def visit_UnaryOp(self, node):
        self.generic_visit(node)
        if isinstance(node.op, ast.Not) and isinstance(node.operand, ast.BoolOp):
            op = ast.Or() if isinstance(node.operand.op, ast.And) else ast.And()
            return ast.BoolOp(op=op, values=[ast.UnaryOp(op=ast.Not(), operand=v)
                                             for v in node.operand.values])
        return node


class ChainSplit(ast.NodeTransformer):
    """`a < b < c` -> `a < b and b < c` when b is a name or constant."""

    def visit_Compare(self, node):
        self.generic_visit(node)
        if len(node.ops) == 2 and isinstance(node.comparators[0], (ast.Name, ast.Constant)):
            mid = node.comparators[0]
            return ast.BoolOp(op=ast.And(), values=[
                ast.Compare(left=node.left, ops=[node.ops[0]], comparators=[mid]),
                ast.Compare(left=mid, ops=[node.ops[1]], comparators=[node.comparators[1]])])
        return node


def _pure_expr(e):
    return not any(isinstance(x, (ast.Call, ast.Await, ast.Yield, ast.YieldFrom, ast.NamedExpr,
                                  ast.Subscript))
                   for x in ast.walk(e))


class SwapIndep(ast.NodeTransformer):
    """swap two adjacent assignments to different local names whose right-hand sides are
    call-free and do not read each other's target."""

    def _swap(self, body):
        out, i = [], 0
        while i < len(body):
            a = body[i]
            b = body[i + 1] if i + 1 < len(body) else None
            if (isinstance(a, ast.Assign) and isinstance(b, ast.Assign)
                    and len(a.targets) == 1 and len(b.targets) == 1
                    and isinstance(a.targets[0], ast.Name) and isinstance(b.targets[0], ast.Name)
                    and a.targets[0].id != b.targets[0].id
                    and _pure_expr(a.value) and _pure_expr(b.value)
                    and a.targets[0].id not in {x.id for x in ast.walk(b.value)
                                                if isinstance(x, ast.Name)}
                    and b.targets[0].id not in {x.id for x in ast.walk(a.value)
                                                if isinstance(x, ast.Name)}):
                out += [b, a]
                i += 2
            else:
                out.append(a)
                i += 1
        return out

    def generic_visit(self, node):
        super().generic_visit(node)
        for f in ("body", "orelse", "finalbody"):
            v = getattr(node, f, None)
            if isinstance(v, list) and v and isinstance(v[0], ast.stmt):
                setattr(node, f, self._swap(v))
        return node


class LambdaToDef(ast.NodeTransformer):
    """`f = lambda a, b: e`  ->  `def f(a, b): return e` (plain statements in functions)."""

    def visit_Assign(self, node):
        if len(node.targets) == 1 and isinstance(node.targets[0], ast.Name) \
                and isinstance(node.value, ast.Lambda):
            lam = node.value
            return ast.FunctionDef(name=node.targets[0].id, args=lam.args,
                                   body=[ast.Return(value=lam.body)], decorator_list=[],
                                   returns=None, type_comment=None, type_params=[])
        return node


class CompToLoop(ast.NodeTransformer):
    """`x = [e for a in it if c]` -> `x = []` / `for a in it: if c: x.append(e)` (single
    generator, name target, statement level in a function body)."""

    def visit_FunctionDef(self, node):
        self.generic_visit(node)

        def conv(st):
            if isinstance(st, ast.Assign) and len(st.targets) == 1 \
                    and isinstance(st.targets[0], ast.Name) \
                    and isinstance(st.value, ast.ListComp) and len(st.value.generators) == 1 \
                    and not st.value.generators[0].is_async:
                g = st.value.generators[0]
                tgt = st.targets[0].id
                used = {x.id for x in ast.walk(st.value) if isinstance(x, ast.Name)}
                if tgt in used:
                    return [st]
                app = ast.Expr(ast.Call(func=ast.Attribute(value=ast.Name(id=tgt, ctx=ast.Load()),
                                                           attr="append", ctx=ast.Load()),
                                        args=[st.value.elt], keywords=[]))
                inner = [app]
                for cnd in reversed(g.ifs):
                    inner = [ast.If(test=cnd, body=inner, orelse=[])]
                return [ast.Assign(targets=st.targets, value=ast.List(elts=[], ctx=ast.Load())),
                        ast.For(target=g.target, iter=g.iter, body=inner, orelse=[])]
            return [st]
        node.body = [x for st in node.body for x in conv(st)]
        return node


class AddNoise(ast.NodeTransformer):
    """insert a harmless statement-level call `str(0)` at the top of every function."""

    def visit_FunctionDef(self, node):
        self.generic_visit(node)
        first = 1 if (node.body and isinstance(node.body[0], ast.Expr)
                      and isinstance(node.body[0].value, ast.Constant)
                      and isinstance(node.body[0].value.value, str)) else 0
        noise = ast.Expr(ast.Call(func=ast.Name(id="str", ctx=ast.Load()),
                                  args=[ast.Constant(0)], keywords=[]))
        node.body = node.body[:first] + [noise] + node.body[first:]
        return node


class ElseAfterReturn(ast.NodeTransformer):
    """`if c: ...return` / `else: B`  ->  `if c: ...return` / B   (and the converse is left
    alone): only when the if-body ends in return/raise."""

    def _flat(self, body):
        out = []
        for st in body:
            if isinstance(st, ast.If) and st.orelse and st.body and isinstance(
                    st.body[-1], (ast.Return, ast.Raise)):
                out.append(ast.If(test=st.test, body=st.body, orelse=[]))
                out.extend(st.orelse)
            else:
                out.append(st)
        return out

    def generic_visit(self, node):
        super().generic_visit(node)
        for f in ("body", "orelse", "finalbody"):
            v = getattr(node, f, None)
            if isinstance(v, list) and v and isinstance(v[0], ast.stmt):
                setattr(node, f, self._flat(v))
        return node


class AugAssign(ast.NodeTransformer):
    """`x = x + e` -> `x += e` for plain names (numbers / immutable values only: skipped
    when e is a list / dict display)."""
    OPS = {ast.Add: ast.Add, ast.Sub: ast.Sub, ast.Mult: ast.Mult}

    def visit_Assign(self, node):
        if len(node.targets) == 1 and isinstance(node.targets[0], ast.Name) \
                and isinstance(node.value, ast.BinOp) and type(node.value.op) in self.OPS \
                and isinstance(node.value.left, ast.Name) \
                and node.value.left.id == node.targets[0].id \
                and not isinstance(node.value.right, (ast.List, ast.Dict, ast.ListComp)):
            return ast.AugAssign(target=ast.Name(id=node.targets[0].id, ctx=ast.Store()),
                                 op=type(node.value.op)(), value=node.value.right)
        return node


class MsgEdit(ast.NodeTransformer):
    """error / warning / log message texts get a suffix (plain and f-strings)."""
    def _edit(self, call):
        for i, a in enumerate(call.args[:1]):
            if isinstance(a, ast.Constant) and isinstance(a.value, str):
                call.args[i] = ast.Constant(a.value + " (see the documentation)")
            elif isinstance(a, ast.JoinedStr):
                a.values.append(ast.Constant(" (see the documentation)"))
        return call

    def visit_Raise(self, node):
        self.generic_visit(node)
        if isinstance(node.exc, ast.Call):
            self._edit(node.exc)
        return node

    def visit_Call(self, node):
        self.generic_visit(node)
        f = node.func
        nm = f.attr if isinstance(f, ast.Attribute) else getattr(f, "id", "")
        if nm in ("warn", "warning", "info", "debug", "error"):
            self._edit(node)
        return node


class AddKwOnlyParam(ast.NodeTransformer):
    """every plain function without **kwargs gets an unused keyword-only parameter."""
    def visit_FunctionDef(self, node):
        self.generic_visit(node)
        decos = {ast.unparse(d) for d in node.decorator_list}
        if node.args.kwarg is None and not any("setter" in d or "property" in d or "overload" in d
                                               or "abstract" in d for d in decos) \
                and not (node.name.startswith("__") and node.name.endswith("__")):
            node.args.kwonlyargs.append(ast.arg(arg="_lsa_unused"))
            node.args.kw_defaults.append(ast.Constant(None))
        return node


class ReorderDefs(ast.NodeTransformer):
    """methods of a class / functions of a module in reverse order (assignments, fields and
    decorated property groups keep their relative places: only runs of plain defs move)."""
    def _reorder(self, body):
        out, run = [], []

        def plain(st):
            return isinstance(st, ast.FunctionDef) and not st.decorator_list

        for st in body:
            if plain(st):
                run.append(st)
            else:
                out.extend(reversed(run))
                run = []
                out.append(st)
        out.extend(reversed(run))
        return out

    def visit_ClassDef(self, node):
        self.generic_visit(node)
        node.body = self._reorder(node.body)
        return node

    def visit_Module(self, node):
        self.generic_visit(node)
        # module-level functions may be used by later module-level statements: only
        # runs of adjacent defs are reversed, which keeps every def before its first use
        node.body = self._reorder(node.body)
        return node


class ImportAlias(ast.NodeTransformer):
    """`import jax.numpy as jnp` -> `import jax.numpy as jnp_lsa` (+ all uses)."""
    def __init__(self):
        self.map = {}

    def visit_Module(self, node):
        for st in node.body:
            if isinstance(st, ast.Import):
                for a in st.names:
                    if a.asname and a.asname in ("jnp", "np", "tfd", "tfb", "jd", "jb"):
                        self.map[a.asname] = a.asname + "_lsa"
                        a.asname = a.asname + "_lsa"
            elif isinstance(st, ast.ImportFrom):
                for a in st.names:
                    if a.asname and a.asname in ("jnp", "np", "tfd", "tfb", "jd", "jb"):
                        self.map[a.asname] = a.asname + "_lsa"
                        a.asname = a.asname + "_lsa"
        # a local binding of the same name anywhere in the module: leave the module alone
        for x in ast.walk(node):
            if isinstance(x, ast.Name) and isinstance(x.ctx, ast.Store) and x.id in self.map:
                return node
            if isinstance(x, ast.arg) and x.arg in self.map:
                return node
        self.generic_visit(node)
        return node

    def visit_Name(self, node):
        if node.id in self.map:
            node.id = self.map[node.id]
        return node


class WrapDelegate(ast.NodeTransformer):
    """`def f(self, a, b=1): BODY`  ->  `def f(self, a, b=1): return self._f_lsa_impl(a, b)`
    plus `def _f_lsa_impl(self, a, b): BODY` (plain methods / functions with simple
    signatures, no decorators, no nested scopes reading the frame)."""
    def _ok(self, fn):
        a = fn.args
        if fn.decorator_list or a.vararg or a.kwarg or a.kwonlyargs or a.posonlyargs:
            return False
        if fn.name.startswith("__") or uses_locals(fn):
            return False
        for x in ast.walk(fn):
            if isinstance(x, (ast.Yield, ast.YieldFrom, ast.Await, ast.Nonlocal, ast.Global)):
                return False
            if isinstance(x, ast.Call) and isinstance(x.func, ast.Name) and x.func.id == "super":
                return False
        return len(fn.body) > 1 or not isinstance(fn.body[0], (ast.Pass, ast.Expr))

    def _split(self, fn, method):
        import copy
        impl = copy.deepcopy(fn)
        impl.name = f"_lsa_impl_{fn.name}"
        impl.args.defaults = []
        doc = ast.get_docstring(fn)
        names = [x.arg for x in fn.args.args]
        if method:
            call = ast.Call(func=ast.Attribute(value=ast.Name(names[0], ast.Load()), attr=impl.name,
                                               ctx=ast.Load()),
                            args=[ast.Name(n_, ast.Load()) for n_ in names[1:]], keywords=[])
        else:
            call = ast.Call(func=ast.Name(impl.name, ast.Load()),
                            args=[ast.Name(n_, ast.Load()) for n_ in names], keywords=[])
        body = [ast.Expr(ast.Constant(doc))] if doc else []
        if doc:
            impl.body = impl.body[1:] or [ast.Pass()]
        impl.returns = None
        fn.body = body + [ast.Return(call)]
        return [impl, fn]

    def visit_ClassDef(self, node):
        out = []
        for st in node.body:
            if isinstance(st, ast.FunctionDef) and self._ok(st) and st.args.args \
                    and st.args.args[0].arg == "self":
                out.extend(self._split(st, True))
            else:
                out.append(st)
        node.body = out
        return node

    def visit_Module(self, node):
        out = []
        for st in node.body:
            if isinstance(st, ast.FunctionDef) and self._ok(st):
                out.extend(self._split(st, False))
            elif isinstance(st, ast.ClassDef):
                out.append(self.visit_ClassDef(st))
            else:
                out.append(st)
        node.body = out
        return node




TRANSFORMS = ["inline_calls", "strip_ann", "ret_tmp", "if_swap", "cmp_flip", "rename", "kwargs", "assign_tmp",
              "unpack_index", "and_split", "ternary_if", "demorgan", "chain_split", "swap_indep",
              "lambda_def", "comp_loop", "add_noise", "else_after_return", "aug_assign",
              "msg_edit", "add_kwonly", "reorder_defs", "import_alias", "wrap_delegate"]


def apply(name, repo, root):
    for mi in repo.modules.values():
        tree = ast.parse(mi.source)
        t = {"ret_tmp": RetTmp, "if_swap": IfSwap, "cmp_flip": CmpFlip, "rename": Rename,
             "assign_tmp": AssignTmp, "unpack_index": UnpackIndex,
             "and_split": AndSplit, "strip_ann": StripAnn, "ternary_if": TernaryToIf,
             "demorgan": DeMorgan, "chain_split": ChainSplit, "swap_indep": SwapIndep,
             "lambda_def": LambdaToDef, "comp_loop": CompToLoop, "add_noise": AddNoise,
             "else_after_return": ElseAfterReturn, "aug_assign": AugAssign,
             "msg_edit": MsgEdit, "add_kwonly": AddKwOnlyParam, "reorder_defs": ReorderDefs,
             "import_alias": ImportAlias, "wrap_delegate": WrapDelegate}.get(name)
        tree = (Kwargs(repo, mi) if name == "kwargs" else InlineStmtCalls(repo, mi)
                if name == "inline_calls" else t()).visit(tree)
        ast.fix_missing_locations(tree)
        out = ast.unparse(tree)
        compile(out, mi.relpath, "exec")
        with open(os.path.join(root, mi.relpath), "w") as fh:
            fh.write(out)


def main():
    which = sys.argv[1:] or TRANSFORMS
    repo = Repo("/repo")
    props = [l.strip() for l in open(os.path.join(HERE, "tools", "built.txt")) if l.strip()]
    base = "/dev/shm" if os.path.isdir("/dev/shm") else tempfile.gettempdir()
    bad = 0
    for name in which:
        scratch = tempfile.mkdtemp(prefix=f"lsa_twin_{name}_", dir=base)
        try:
            shutil.copytree("/repo/liesel", os.path.join(scratch, "liesel"),
                            ignore=shutil.ignore_patterns("__pycache__"))
            apply(name, repo, scratch)
            if os.environ.get("TWIN_KEEP"):
                print("kept", scratch)
            for p in sorted(props):
                r = subprocess.run(["python3-vt", "-m", "lsa", "check", p, "--no-selftest",
                                    "--repo", scratch], cwd=HERE, capture_output=True,
                                   text=True, env={**os.environ, "LSA_EVIDENCE_DIR": scratch})
                if r.returncode != 0:
                    bad += 1
                    lines = [l for l in r.stdout.splitlines() if " -- " in l or "ANALYSIS" in l]
                    print(f"[{name}] {p} rc={r.returncode} ({len(lines)} reports)")
                    for l in lines[:6]:
                        print("    ", l[:260])
        finally:
            if not os.environ.get("TWIN_KEEP"):
                shutil.rmtree(scratch, ignore_errors=True)
    print("alarms:", bad)
    return 1 if bad else 0


if __name__ == "__main__":
    sys.exit(main())
