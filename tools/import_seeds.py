#!/usr/bin/env python3
"""
Copies confirmed seeded changes from the sub-agents' scratch worktrees into
/verif/seeded/<PROP>_<name>/ (patch.diff, demo, notes, meta.json) and records which of
the checks report them.  Usage: tools/import_seeds.py [/tmp/wt]
"""
import json
import os
import shutil
import subprocess
import sys

HERE = os.path.dirname(os.path.dirname(os.path.abspath(__file__)))
ROOTS = sys.argv[1:] or ["/tmp/wt", "/tmp/wt2", "/tmp/wt3", "/tmp/wt4", "/tmp/wt5", "/tmp/wt6", "/tmp/wt7", "/tmp/wt8"]
BUILT = [l.strip() for l in open(os.path.join(HERE, "tools", "built.txt")) if l.strip()]


def run_checks(patch):
    """Runs every check on a scratch copy of /repo/liesel with the patch applied (the same
    code path as on /repo: `--repo` only changes the root that is parsed)."""
    import tempfile
    base = "/dev/shm" if os.path.isdir("/dev/shm") else tempfile.gettempdir()
    s = tempfile.mkdtemp(prefix="lsa_seed_", dir=base)
    hits = {}
    try:
        shutil.copytree("/repo/liesel", os.path.join(s, "liesel"),
                        ignore=shutil.ignore_patterns("__pycache__"))
        r = subprocess.run(["git", "apply", "-p1", os.path.abspath(patch)], cwd=s,
                           capture_output=True, text=True)
        if r.returncode != 0:
            return {"_patch": {"exit": 2, "reports": ["patch does not apply to this tree"]}}

        def one(p):
            r = subprocess.run(["python3-vt", "-m", "lsa", "check", p, "--no-selftest",
                                "--repo", s], cwd=HERE, capture_output=True, text=True,
                               env={**os.environ, "LSA_EVIDENCE_DIR": s})
            return p, r
        from concurrent.futures import ThreadPoolExecutor
        with ThreadPoolExecutor(8) as ex:
            for p, r in ex.map(one, BUILT):
                if r.returncode == 2:
                    print("   (exit 2 from", p, "-- not counted as a detection)")
                if r.returncode == 1:
                    lines = [l.replace(s + "/", "") for l in r.stdout.splitlines()
                             if " -- " in l and "[" in l]
                    hits[p] = {"exit": r.returncode, "reports": [l[:300] for l in lines[:4]]}
    finally:
        shutil.rmtree(s, ignore_errors=True)
    return hits


def main():
    out_root = os.path.join(HERE, "seeded")
    os.makedirs(out_root, exist_ok=True)
    rows = []
    # re-measure the seeds that are already committed (their scratch origin may be gone)
    done = set()
    for d in sorted(os.listdir(out_root)):
        mp = os.path.join(out_root, d, "meta.json")
        if os.path.isfile(mp):
            meta = json.load(open(mp))
            if os.environ.get("LSA_IMPORT_ONLY_NEW"):
                # keep the recorded measurement (used when only new seeds are added and
                # neither the rules' shared parts nor the evaluator changed)
                rows.append((meta["property"], meta["name"], meta["detected_by"]))
                done.add(d)
                continue
            hits = run_checks(os.path.join(out_root, d, "patch.diff"))
            meta["detected_by"], meta["reports"] = sorted(hits), hits
            json.dump(meta, open(mp, "w"), indent=1)
            rows.append((meta["property"], meta["name"], sorted(hits)))
            done.add(d)
            print(meta["property"], meta["name"], "->", sorted(hits) or "MISSED")
    pairs = []
    for SRC in ROOTS:
        if not os.path.isdir(SRC):
            continue
        for prop in sorted(os.listdir(SRC)):
            sd = os.path.join(SRC, prop, "_seed")
            if os.path.isdir(sd):
                pairs.append((SRC, prop, sd))
    for SRC, prop, sd in pairs:
        for name in sorted(os.listdir(sd)):
            if f"{prop}_{name}" in done:
                continue
            d = os.path.join(sd, name)
            cj = os.path.join(d, "confirm.json")
            if not (os.path.isfile(os.path.join(d, "patch.diff")) and os.path.isfile(cj)):
                continue
            conf = json.load(open(cj))
            if not conf.get("confirmed"):
                print("skip (not confirmed)", prop, name)
                continue
            dst = os.path.join(out_root, f"{prop}_{name}")
            os.makedirs(dst, exist_ok=True)
            for f in ("patch.diff", "demo.py", "test_demo.py", "harness.py", "notes.md"):
                if os.path.isfile(os.path.join(d, f)):
                    shutil.copy(os.path.join(d, f), os.path.join(dst, f))
            hits = run_checks(os.path.join(dst, "patch.diff"))
            notes = open(os.path.join(d, "notes.md")).read() if os.path.isfile(
                os.path.join(d, "notes.md")) else ""
            meta = {
                "property": prop,
                "name": name,
                "origin": "written by an independent sub-agent that saw only the property "
                          "text and a scratch worktree of /repo (nothing from /verif)"
                          + ("; second round: told which earlier seeds to avoid repeating"
                             if SRC.endswith(("wt2", "wt3", "wt4", "wt5", "wt6", "wt7", "wt8", "wt9", "wt10")) else ""),
                "needs_to_manifest": _needs(notes),
                "confirmed_by_me": {
                    "how": "tools/confirm_seed.sh in a fresh scratch worktree of /repo: demo at "
                           "HEAD, demo with the patch, full pinned test suite with the patch",
                    "demo_exit_at_head": conf["demo_rc_at_head"],
                    "demo_exit_with_patch": conf["demo_rc_with_patch"],
                    "suite_with_patch": conf["suite_summary"],
                },
                "ran": "patch applied to a scratch copy of /repo/liesel; python3-vt -m lsa check "
                       "<P> --repo <copy> for every claimed property (same as ./check <P> after "
                       "git -C /repo apply patch.diff)",
                "detected_by": sorted(hits),
                "reports": hits,
            }
            json.dump(meta, open(os.path.join(dst, "meta.json"), "w"), indent=1)
            rows.append((prop, name, sorted(hits)))
            print(prop, name, "->", sorted(hits) or "MISSED")
    json.dump([{"property": p, "name": n, "detected_by": h} for p, n, h in rows],
              open(os.path.join(out_root, "INDEX.json"), "w"), indent=1)


def _needs(notes: str) -> str:
    low = notes.lower()
    for key in ("needs", "trigger", "manifest"):
        i = low.find(key)
        if i >= 0:
            return " ".join(notes[i:i + 600].split())[:500]
    return " ".join(notes.split())[:300]


if __name__ == "__main__":
    main()
