#!/usr/bin/env python3
"""
For the survivors of tools/mutation_sweep.py: does the pinned test suite still pass with
the mutant applied?  Only those are "changes that compile, pass the existing tests and are
not reported" -- the population worth triaging.  usage:
  python3-vt tools/mutant_viability.py /tmp/ms_full.json /tmp/ms_viable.json [--jobs 8]
"""
import ast
import json
import os
import shutil
import subprocess
import sys
import tempfile
from concurrent.futures import ProcessPoolExecutor

HERE = os.path.dirname(os.path.dirname(os.path.abspath(__file__)))
sys.path.insert(0, HERE)
sys.path.insert(0, os.path.join(HERE, "tools"))
from lsa.core.loader import Repo  # noqa: E402
import mutation_sweep as ms  # noqa: E402

_W = {}


def _init():
    root = tempfile.mkdtemp(prefix="lsa_via_", dir="/dev/shm")
    for d in ("liesel", "tests"):
        shutil.copytree(os.path.join("/repo", d), os.path.join(root, d),
                        ignore=shutil.ignore_patterns("__pycache__"))
    for f in ("conftest.py", "pyproject.toml", "setup.cfg"):
        if os.path.exists(os.path.join("/repo", f)):
            shutil.copy(os.path.join("/repo", f), root)
    _W["root"] = root


def _run(task):
    relpath, parts, kind, index, desc, qual = task
    root = _W["root"]
    orig = open(os.path.join("/repo", relpath)).read()
    tree = ast.parse(orig)
    fn = ms.find_fn(tree, parts)
    if fn is None or not ms.mutate(fn, kind, index):
        return (qual, kind, index, desc, "nosite", "")
    out = ast.unparse(ast.fix_missing_locations(tree))
    path = os.path.join(root, relpath)
    open(path, "w").write(out)
    try:
        env = {**os.environ, "PYTHONPATH": root, "JAX_PLATFORMS": "cpu",
               "XLA_FLAGS": "--xla_cpu_multi_thread_eigen=false intra_op_parallelism_threads=2",
               "OMP_NUM_THREADS": "2"}
        sub = "tests/"
        if os.environ.get("VIA_SUBSET"):
            for pre, t in (("liesel/goose/", "tests/goose"), ("liesel/model/", "tests/model"),
                           ("liesel/distributions/", "tests/distributions"),
                           ("liesel/bijectors/", "tests/bijectors"),
                           ("liesel/experimental/", "tests/experimental")):
                if relpath.startswith(pre):
                    sub = t
        r = subprocess.run(["/venv/bin/python", "-m", "pytest", "-x", "-q", "-p",
                            "no:cacheprovider", "--timeout=900", sub],
                           cwd=root, env=env, capture_output=True, text=True, timeout=1500)
        tail = (r.stdout.strip().splitlines() or [""])[-1]
        status = "tests-pass" if r.returncode == 0 else "tests-fail"
    except subprocess.TimeoutExpired:
        status, tail = "timeout", ""
    finally:
        open(path, "w").write(orig)
    return (qual, kind, index, desc, status, tail[:120])


def main():
    src, dst = sys.argv[1], sys.argv[2]
    jobs = int(sys.argv[sys.argv.index("--jobs") + 1]) if "--jobs" in sys.argv else 8
    repo = Repo("/repo")
    surv = json.load(open(src))["survivors"]
    tasks = []
    for q, kind, index, desc, _, _ in surv:
        fi = repo.functions.get(q)
        if fi is None:
            continue
        mod = fi.module.name
        parts = [x.replace("#setter", "") for x in q[len(mod) + 1:].split(".")]
        tasks.append((fi.module.relpath, parts, kind, index, desc, q))
    print(len(tasks), "survivors to test", flush=True)
    res = []
    with ProcessPoolExecutor(max_workers=jobs, initializer=_init) as ex:
        for i, r in enumerate(ex.map(_run, tasks)):
            res.append(r)
            if (i + 1) % 25 == 0:
                ok = sum(1 for x in res if x[4] == "tests-pass")
                print(f"  {i + 1}/{len(tasks)} tests-pass={ok}", flush=True)
                json.dump(res, open(dst, "w"), indent=1)
    json.dump(res, open(dst, "w"), indent=1)
    for d in os.listdir("/dev/shm"):
        if d.startswith("lsa_via_"):
            shutil.rmtree(os.path.join("/dev/shm", d), ignore_errors=True)
    print({s: sum(1 for x in res if x[4] == s) for s in {x[4] for x in res}})


if __name__ == "__main__":
    main()
