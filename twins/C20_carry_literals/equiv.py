"""Deterministic equivalence probe for liesel/goose/optim.py.

Run from the worktree root with PYTHONPATH pointing at the worktree:
    PYTHONPATH=$PWD python _twin/<name>/equiv.py > out.txt
Prints one digest line per probe.  tqdm output goes to stderr and is ignored.
"""

import hashlib
import itertools
import os
import sys

import jax
import jax.numpy as jnp
import numpy as np
import optax
import tensorflow_probability.substrates.jax.distributions as tfd

import liesel.model as lsl
from liesel.goose import optim as om
from liesel.goose.optim import Stopper, history_to_df, optim_flat


def dg(x) -> str:
    """Bit-exact digest of an array-like (dtype, shape and bytes)."""
    a = np.asarray(x)
    if a.dtype == object:  # e.g. None; the bytes would be a pointer
        return f"object:{type(x).__name__}:{x!r}"
    h = hashlib.sha256(a.tobytes()).hexdigest()[:16]
    return f"{a.dtype}{list(a.shape)}:{h}"


def weak(x) -> str:
    return str(getattr(x, "weak_type", None))


def show(label, value):
    print(f"{label} = {value}")


def attempt(label, fn):
    try:
        show(label, fn())
    except Exception as e:  # noqa: BLE001
        show(label, f"EXC {type(e).__name__}: {str(e)[:160]}")


# =====================================================================================
# 1. Stopper: exhaustive over small alphabets
# =====================================================================================

ALPHABET = (0.0, 1.0, -1.0, 1.0005, float("nan"), float("inf"))
LENGTH = 5
hists = jnp.asarray(list(itertools.product(ALPHABET, repeat=LENGTH)), dtype=jnp.float32)
show("n_histories", hists.shape)

for patience, atol, rtol, max_iter in itertools.product(
    (1, 2, 3, 5), (0.0, 1e-3, 1.0), (0.0, 1e-3, 0.5), (3, 5, 100)
):
    st = Stopper(max_iter=max_iter, patience=patience, atol=atol, rtol=rtol)
    parts = []
    for i in range(LENGTH):
        ii = jnp.asarray(i)
        f_early = jax.jit(jax.vmap(lambda h: st.stop_early(ii, h)))
        f_now = jax.jit(jax.vmap(lambda h: st.stop_now(ii, h)))
        f_cont = jax.jit(jax.vmap(lambda h: st.continue_(ii, h)))
        f_best = jax.jit(jax.vmap(lambda h: st.which_best_in_recent_history(ii, h)))
        parts += [dg(f_early(hists)), dg(f_now(hists)), dg(f_cont(hists))]
        parts.append(dg(f_best(hists)))
    digest = hashlib.sha256("|".join(parts).encode()).hexdigest()[:20]
    show(f"stopper p={patience} atol={atol} rtol={rtol} max_iter={max_iter}", digest)

# eager calls with python ints and with arrays (dtype / weak type / value)
eager_hists = [
    jnp.array([5.0, 4.0, 3.0, 3.0, 3.0, 3.0, 0.0, 0.0]),
    jnp.array([0.0, 0.0, 0.0, 0.0, 0.0, 0.0, 0.0, 0.0]),
    jnp.array([1.0, 0.9, 0.95, 0.99, 0.98, 0.97, 0.96, 0.0]),
    jnp.array([-1.0, -2.0, -2.0005, -2.0004, -2.0003, 0.0, 0.0, 0.0]),
    jnp.array([jnp.nan, 1.0, jnp.inf, 1.0, 1.0, -jnp.inf, 0.0, 0.0]),
]
for hi, h in enumerate(eager_hists):
    for p, atol, rtol in ((1, 1e-3, 0.0), (3, 0.0, 0.0), (3, 1e-3, 0.01), (8, 0.1, 0.0)):
        st = Stopper(max_iter=7, patience=p, atol=atol, rtol=rtol)
        for i in range(8):
            for iv in (i, jnp.asarray(i), np.int32(i)):
                a = st.stop_early(iv, h)
                b = st.stop_now(iv, h)
                c = st.continue_(iv, h)
                d = st.which_best_in_recent_history(iv, h)
                show(
                    f"eager h{hi} p={p} atol={atol} rtol={rtol} i={i} {type(iv).__name__}",
                    f"{dg(a)}/{weak(a)} {dg(b)}/{weak(b)} {dg(c)}/{weak(c)} "
                    f"{dg(d)}/{weak(d)} {bool(a)} {bool(b)} {bool(c)} {int(d)}",
                )

# jaxpr of the Stopper methods must not matter for values, but we record the output
# avals (shape/dtype/weak_type) to be strict.
st = Stopper(max_iter=10, patience=3, atol=1e-3, rtol=0.1)
for meth in ("stop_early", "stop_now", "continue_", "which_best_in_recent_history"):
    out = jax.eval_shape(getattr(st, meth), jnp.asarray(4), jnp.zeros(10))
    show(f"aval {meth}", f"{out.shape} {out.dtype} {getattr(out, 'weak_type', None)}")
show("stopper repr", repr(st))
show("stopper eq", st == Stopper(10, 3, 1e-3, 0.1))
attempt("stopper positional", lambda: Stopper(10, 3, 0.5, 0.25))

# =====================================================================================
# 2. small helpers
# =====================================================================================

for seed, n, bs in itertools.product((0, 1, 17), (5, 10, 13, 30), (1, 3, 4, 7, 13)):
    if bs > n:
        attempt(
            f"batch_idx seed={seed} n={n} bs={bs}",
            lambda: dg(om._generate_batch_indices(jax.random.PRNGKey(seed), n, bs)),
        )
        continue
    out = om._generate_batch_indices(key=jax.random.PRNGKey(seed), n=n, batch_size=bs)
    show(f"batch_idx seed={seed} n={n} bs={bs}", dg(out))

nodes = {"a": jnp.arange(12.0).reshape(6, 2), "b": jnp.arange(6)}
show(
    "batched_nodes",
    {k: dg(v) for k, v in om.batched_nodes(nodes, jnp.array([4, 0, 2])).items()},
)

for label, x, kw in (
    ("1d", jnp.arange(3.0), {}),
    ("1d-prefix", jnp.arange(3.0), {"prefix_1d": True}),
    ("2d", jnp.arange(6.0).reshape(3, 2), {"names_prefix": "q"}),
    ("2d-prefix", jnp.arange(6.0).reshape(3, 2), {"prefix_1d": True}),
    ("float", 1.5, {}),
    ("float-prefix", 1.5, {"prefix_1d": True, "names_prefix": "f"}),
    ("0d", jnp.asarray(2.0), {}),
    ("3d", jnp.zeros((2, 2, 2)), {}),
    ("int", 3, {}),
):
    attempt(
        f"array_to_dict {label}",
        lambda: {k: dg(v) for k, v in om.array_to_dict(x, **kw).items()},
    )

# =====================================================================================
# 3. models
# =====================================================================================

key = jax.random.PRNGKey(42)
key, subkey = jax.random.split(key)
N = 37
xs = jax.random.normal(key, (N, 2))
ys = jnp.sum(xs * 0.5, axis=-1) + jax.random.normal(subkey, (N,))


def setup_model(ys, xs, prior=True):
    x = lsl.obs(xs, name="x")
    dist = lsl.Dist(tfd.Normal, loc=0.0, scale=10.0) if prior else None
    coef = lsl.param(jnp.zeros(2), distribution=dist, name="coef")
    mu = lsl.Var(lsl.Calc(jnp.dot, x, coef), name="mu")
    log_sigma = lsl.param(0.3, name="log_sigma")
    sigma = lsl.Var(lsl.Calc(jnp.exp, log_sigma), name="sigma")
    y = lsl.obs(ys, lsl.Dist(tfd.Normal, loc=mu, scale=sigma), name="y")
    return lsl.GraphBuilder().add(y).build_model()


def split_models(prior=True):
    ntr = 30
    return (
        setup_model(ys[:ntr], xs[:ntr], prior),
        setup_model(ys[ntr:], xs[ntr:], prior),
    )


m_tr, m_va = split_models()
show("find_sample_size", (om._find_sample_size(m_tr), om._find_sample_size(m_va)))
show("find_sample_size type", type(om._find_sample_size(m_tr)).__name__)
obs = om._find_observed(m_tr)
show("find_observed", {k: dg(v) for k, v in obs.items()})
show("find_observed order", list(obs))


def unequal_model():
    x = lsl.obs(jnp.zeros((4, 2)), name="x")
    z = lsl.obs(jnp.zeros((5,)), name="z")
    coef = lsl.param(jnp.zeros(2), name="coef")
    mu = lsl.Var(lsl.Calc(lambda x, c, z: jnp.dot(x, c) + z[:4], x, coef, z), name="mu")
    y = lsl.obs(jnp.zeros(4), lsl.Dist(tfd.Normal, loc=mu, scale=1.0), name="y")
    return lsl.GraphBuilder().add(y).build_model()


def scalar_obs_model():
    coef = lsl.param(0.0, name="coef")
    y = lsl.obs(1.0, lsl.Dist(tfd.Normal, loc=coef, scale=1.0), name="y")
    return lsl.GraphBuilder().add(y).build_model()


attempt("find_sample_size unequal", lambda: om._find_sample_size(unequal_model()))
attempt("find_sample_size scalar", lambda: om._find_sample_size(scalar_obs_model()))
attempt(
    "optim_flat unequal",
    lambda: optim_flat(unequal_model(), ["coef"], stopper=Stopper(3, 2)),
)
attempt(
    "optim_flat scalar obs",
    lambda: optim_flat(scalar_obs_model(), ["coef"], stopper=Stopper(3, 2)),
)


def bad_decomposition_model():
    x = lsl.obs(xs, name="x")
    coef = lsl.Var(
        jnp.zeros(2), distribution=lsl.Dist(tfd.Normal, loc=0.0, scale=10.0), name="coef"
    )
    mu = lsl.Var(lsl.Calc(jnp.dot, x, coef), name="mu")
    y = lsl.obs(ys, lsl.Dist(tfd.Normal, loc=mu, scale=1.0), name="y")
    return lsl.GraphBuilder().add(y).build_model()


def run_bad(as_validation):
    bad = bad_decomposition_model()
    good, _ = split_models()
    stp = Stopper(max_iter=5, patience=2)
    try:
        if as_validation:
            optim_flat(good, ["coef"], stopper=stp, model_validation=bad)
        else:
            optim_flat(bad, ["coef"], stopper=stp)
    except Exception as e:  # noqa: BLE001
        return (
            f"EXC {type(e).__name__}: {str(e)[:60]} | patience={stp.patience} "
            f"auto_update good={good.auto_update} bad={bad.auto_update}"
        )
    return "no exception"


show("bad decomposition (train)", run_bad(False))
show("bad decomposition (validation)", run_bad(True))


def assertion_case():
    a, _ = split_models()
    stp = Stopper(max_iter=5, patience=2)
    try:
        optim_flat(a, ["coef"], stopper=stp, save_position_history=False)
    except AssertionError as e:
        return f"AssertionError: {e} | auto_update={a.auto_update} p={stp.patience}"
    return "no exception"


show("assertion", assertion_case())
attempt(
    "unknown param",
    lambda: optim_flat(split_models()[0], ["nope"], stopper=Stopper(3, 2)),
)

# =====================================================================================
# 4. optim_flat end to end
# =====================================================================================


def digest_result(res, m_tr, m_va, stp):
    out = []
    out.append(f"iteration={int(res.iteration)}/{type(res.iteration).__name__}")
    out.append(f"best={int(res.iteration_best)}/{dg(res.iteration_best)}")
    out.append(f"max_iter={res.max_iter} n_train={res.n_train} n_val={res.n_validation}")
    out.append("pos=" + ",".join(f"{k}:{dg(v)}" for k, v in res.position.items()))
    out.append("hist_keys=" + ",".join(res.history.keys()))
    out.append("loss_train=" + dg(res.history["loss_train"]))
    out.append("loss_val=" + dg(res.history["loss_validation"]))
    ph = res.history["position"]
    if ph is None:
        out.append("poshist=None")
    else:
        out.append(
            f"poshist({type(ph).__name__})="
            + ",".join(f"{k}:{dg(v)}" for k, v in ph.items())
        )
    names = sorted(res.model_state)
    sd = hashlib.sha256()
    for nme in names:
        nodestate = res.model_state[nme]
        sd.update(nme.encode())
        sd.update(dg(nodestate.value).encode())
        sd.update(type(nodestate.value).__name__.encode())
        sd.update(str(nodestate.outdated).encode())
    out.append(f"state[{len(names)}]={sd.hexdigest()[:16]}")
    out.append(f"type={type(res).__name__}")
    # side effects on the user's objects
    out.append(
        f"stopper=({stp.max_iter},{stp.patience},{stp.atol},{stp.rtol})"
        if stp is not None
        else "stopper=None"
    )
    out.append(f"auto_update={m_tr.auto_update},{None if m_va is None else m_va.auto_update}")
    out.append("train_coef=" + dg(m_tr.vars["coef"].value))
    try:
        df = history_to_df(res.history)
        out.append(f"df={list(df.columns)}:{df.shape}:{dg(df.to_numpy())}")
    except Exception as e:  # noqa: BLE001
        out.append(f"df=EXC {type(e).__name__}: {e}")
    return "\n    ".join(out)


CONFIGS = []
for batch_size, use_val, restore, prune, save in itertools.product(
    (None, 7), (False, True), (True, False), (True, False), (True, False)
):
    if restore and not save:
        continue
    CONFIGS.append(
        dict(batch_size=batch_size, use_val=use_val, restore=restore, prune=prune, save=save)
    )

for ci, cfg in enumerate(CONFIGS):
    m_tr, m_va = split_models()
    stp = Stopper(max_iter=40, patience=4, atol=0.05, rtol=0.0)
    res = optim_flat(
        m_tr,
        ["coef", "log_sigma"] if ci % 3 else ["log_sigma", "coef"],
        optimizer=optax.adam(learning_rate=0.2),
        stopper=stp,
        batch_size=cfg["batch_size"],
        batch_seed=3,
        save_position_history=cfg["save"],
        model_validation=m_va if cfg["use_val"] else None,
        restore_best_position=cfg["restore"],
        prune_history=cfg["prune"],
        progress_bar=bool(ci % 2),
    )
    show(f"optim {cfg}", "\n    " + digest_result(res, m_tr, m_va if cfg["use_val"] else None, stp))

# further corner cases: tiny iteration limits, patience longer than the run, rtol only,
# batch sizes 1 / n / not dividing n, different seeds, default optimizer/stopper-ish.
EXTRA = [
    dict(stopper=Stopper(max_iter=1, patience=1), batch_seed=1),
    dict(stopper=Stopper(max_iter=2, patience=1), batch_seed=1),
    dict(stopper=Stopper(max_iter=2, patience=5), batch_seed=1, use_val=True),
    dict(stopper=Stopper(max_iter=3, patience=10), batch_seed=1, use_val=True, prune=False),
    dict(stopper=Stopper(max_iter=25, patience=1, atol=10.0), batch_seed=1, use_val=True),
    dict(stopper=Stopper(max_iter=25, patience=2, atol=0.0, rtol=0.05), use_val=True, batch_seed=2),
    dict(stopper=Stopper(max_iter=25, patience=3, atol=0.0, rtol=0.0), use_val=True, batch_seed=2, batch_size=11, prune=False),
    dict(stopper=Stopper(max_iter=12, patience=3), batch_size=1, batch_seed=5, use_val=True),
    dict(stopper=Stopper(max_iter=12, patience=3), batch_size=30, batch_seed=5),
    dict(stopper=Stopper(max_iter=12, patience=3), batch_size=29, batch_seed=5),
    dict(stopper=Stopper(max_iter=12, patience=3), batch_size=29, batch_seed=6),
    dict(stopper=Stopper(max_iter=12, patience=3), batch_size=16, batch_seed=0, use_val=True, restore=False),
    dict(stopper=Stopper(max_iter=12, patience=12, atol=1.0), batch_seed=0, use_val=True),
    dict(stopper=Stopper(max_iter=12, patience=11, atol=1.0), batch_seed=0, use_val=True, prior=False),
    dict(stopper=Stopper(max_iter=15, patience=4, atol=0.5), batch_seed=0, use_val=True, optimizer=None, params=["coef"]),
    dict(stopper=Stopper(max_iter=15, patience=4, atol=0.5), batch_seed=0, use_val=True, optimizer=optax.sgd(0.5), params=["log_sigma"]),
]
for ei, cfg in enumerate(EXTRA):
    m_tr, m_va = split_models(cfg.get("prior", True))
    stp = cfg["stopper"]
    use_val = cfg.get("use_val", False)
    kwargs = dict(
        stopper=stp,
        batch_size=cfg.get("batch_size"),
        batch_seed=cfg.get("batch_seed"),
        model_validation=m_va if use_val else None,
        restore_best_position=cfg.get("restore", True),
        prune_history=cfg.get("prune", True),
    )
    if "optimizer" in cfg:
        kwargs["optimizer"] = cfg["optimizer"]
    else:
        kwargs["optimizer"] = optax.adam(learning_rate=0.3)
    try:
        res = optim_flat(m_tr, cfg.get("params", ["coef", "log_sigma"]), **kwargs)
        show(
            f"extra {ei} bs={cfg.get('batch_size')} seed={cfg.get('batch_seed')}",
            "\n    " + digest_result(res, m_tr, m_va if use_val else None, stp),
        )
    except Exception as e:  # noqa: BLE001
        show(f"extra {ei}", f"EXC {type(e).__name__}: {str(e)[:200]} | p={stp.patience}")

# default stopper / default batch seed (seeded numpy global RNG) / positional arguments
np.random.seed(123)
m_tr, m_va = split_models()
res = optim_flat(
    m_tr, ["coef"], optax.adam(0.5), Stopper(6, 2), 7, None, True, m_va, True, False, False
)
show("positional + random seed", "\n    " + digest_result(res, m_tr, m_va, None))
show("numpy rng after", np.random.randint(0, 10**6))

# sensitivity of the fit to every single observation under mini-batching
m_tr, _ = split_models()
base = optim_flat(
    m_tr, ["coef"], optax.adam(0.1), Stopper(8, 2), batch_size=7, batch_seed=9
).position["coef"]
sens = []
for j in range(30):
    yj = ys[:30].at[j].add(25.0)
    mj = setup_model(yj, xs[:30])
    pj = optim_flat(
        mj, ["coef"], optax.adam(0.1), Stopper(8, 2), batch_size=7, batch_seed=9
    ).position["coef"]
    sens.append(np.asarray(pj))
sens = np.stack(sens)
show("sensitivity digest", dg(sens))
show("every obs matters", bool(np.all(np.any(sens != np.asarray(base), axis=1))))

# history_to_df on hand-made histories
attempt(
    "df plain",
    lambda: dg(history_to_df({"loss_train": jnp.arange(3.0), "loss_validation": jnp.ones(3)}).to_numpy()),
)
attempt(
    "df pos none last",
    lambda: dg(history_to_df({"loss_train": jnp.arange(3.0), "position": None}).to_numpy()),
)
attempt(
    "df pos none first",
    lambda: list(history_to_df({"position": None, "loss_train": jnp.arange(3.0)}).columns),
)
attempt(
    "df pos 2d",
    lambda: list(
        history_to_df(
            {"position": {"b": jnp.zeros((3, 2)), "s": jnp.ones(3)}, "loss_train": jnp.arange(3.0)}
        ).columns
    ),
)

show("public names", sorted(n for n in dir(om) if not n.startswith("_"))[:0] or "skipped")
show("optim_flat doc digest", hashlib.sha256((optim_flat.__doc__ or "").encode()).hexdigest()[:12])
show("done", os.path.basename(sys.argv[0]))
