"""
Deterministic exerciser for the model cache machinery (liesel/model/nodes.py and
liesel/model/model.py).  Prints one line per observation and a final SHA-256 digest
of everything printed.  Run it with the tree under test first on the import path:

    PYTHONPATH=<tree> python equiv.py

The program never mentions a concrete path; it imports whatever ``liesel`` the
interpreter resolves and prints only results, never file names.
"""

from __future__ import annotations

import hashlib
import logging
import random
import warnings

import jax
import jax.numpy as jnp
import numpy as np
import tensorflow_probability.substrates.jax.distributions as tfd

import liesel.model as lsl
from liesel.model.nodes import ArgGroup, NodeState

warnings.simplefilter("ignore")
logging.getLogger("liesel").setLevel(logging.CRITICAL)

_LINES: list[str] = []


def out(*parts) -> None:
    line = " ".join(str(p) for p in parts)
    _LINES.append(line)
    print(line)


def fmt(v) -> str:
    """Exact (bitwise) textual form of a node value."""
    if v is None:
        return "None"
    if isinstance(v, ArgGroup):
        args = ",".join(fmt(a) for a in v.args)
        kwargs = ",".join(f"{k}={fmt(a)}" for k, a in v.kwargs.items())
        return f"AG[{args}|{kwargs}]"
    if isinstance(v, (bool, int, float)):
        return f"{type(v).__name__}:{float(v).hex()}"
    a = np.asarray(v)
    return f"{a.dtype}{list(a.shape)}:{a.tobytes().hex()}"


def exc(fn) -> str:
    """Runs fn and describes the exception chain it raises (or its result)."""
    try:
        r = fn()
    except Exception as e:  # noqa: BLE001
        chain = []
        cur: BaseException | None = e
        while cur is not None:
            chain.append(f"{type(cur).__name__}({cur})")
            cur = cur.__cause__
        return "RAISED " + " <- ".join(chain)
    return f"OK {r!r}"


# --------------------------------------------------------------------------------------
# call counters
# --------------------------------------------------------------------------------------

CALLS: dict[str, int] = {}


def counted(name: str, fn):
    CALLS.setdefault(name, 0)

    def wrapped(*args, **kwargs):
        CALLS[name] += 1
        return fn(*args, **kwargs)

    wrapped.__name__ = f"fn_{name}"
    return wrapped


def calls_snapshot() -> str:
    return ",".join(f"{k}:{v}" for k, v in sorted(CALLS.items()))


def model_snapshot(model: lsl.Model) -> str:
    parts = []
    for name, node in model.nodes.items():
        flag = node.outdated
        try:
            val = fmt(node.value)
        except Exception as e:  # noqa: BLE001
            val = f"ERR:{type(e).__name__}"
        parts.append(f"{name}|{flag!r}|{val}")
    state = model.state
    for name, st in state.items():
        try:
            parts.append(f"S:{name}|{st.outdated!r}|{fmt(st.value)}")
        except Exception as e:  # noqa: BLE001
            parts.append(f"S:{name}|ERR:{type(e).__name__}")
    return hashlib.sha256("\n".join(parts).encode()).hexdigest()[:20]


def flags(model: lsl.Model) -> str:
    return "".join("1" if n.outdated else "0" for n in model.nodes.values())


# --------------------------------------------------------------------------------------
# random graphs
# --------------------------------------------------------------------------------------


def add_fn(const):
    def f(*args, **kwargs):
        tot = jnp.asarray(const, dtype=jnp.float32)
        for a in args:
            tot = tot + 0.5 * jnp.sum(jnp.asarray(a))
        for k in sorted(kwargs):
            tot = tot - 0.25 * jnp.sum(jnp.asarray(kwargs[k]))
        return tot

    return f


def group_fn(const):
    def f(group: ArgGroup, *rest):
        tot = jnp.asarray(const, dtype=jnp.float32)
        for a in group.args:
            tot = tot + jnp.sum(jnp.asarray(a))
        for k in sorted(group.kwargs):
            tot = tot * (1.0 + 0.125 * jnp.tanh(jnp.sum(jnp.asarray(group.kwargs[k]))))
        for a in rest:
            tot = tot + 2.0 * jnp.sum(jnp.asarray(a))
        return tot

    return f


def build_graph(seed: int):
    rng = random.Random(seed)
    tag = f"g{seed}"
    pool: list = []  # things usable as inputs (Node or Var)
    settable: list = []  # (label, setter, shape)
    everything: list = []

    n_inputs = rng.randint(2, 4)
    for i in range(n_inputs):
        kind = rng.choice(["value", "param", "var", "vec"])
        x0 = round(rng.uniform(-1.0, 1.0), 3)
        if kind == "value":
            node = lsl.Value(x0, _name=f"{tag}_v{i}")
            pool.append(node)
            everything.append(node)
            settable.append((node.name, node, ()))
        elif kind == "vec":
            node = lsl.Value(jnp.array([x0, -x0, 0.5]), _name=f"{tag}_v{i}")
            pool.append(node)
            everything.append(node)
            settable.append((node.name, node, (3,)))
        elif kind == "param":
            prior = lsl.Dist(tfd.Normal, loc=0.0, scale=2.0, _name=f"{tag}_p{i}_prior")
            var = lsl.param(x0, prior, name=f"{tag}_p{i}")
            pool.append(var)
            everything.append(var)
            settable.append((var.name, var, ()))
        else:
            var = lsl.Var(x0, name=f"{tag}_p{i}")
            pool.append(var)
            everything.append(var)
            settable.append((var.name, var, ()))

    n_derived = rng.randint(4, 8)
    for j in range(n_derived):
        kind = rng.choice(["calc", "calc", "transient", "group", "varcalc", "tid"])
        k = rng.randint(1, min(3, len(pool)))
        parents = rng.sample(pool, k)
        n_kw = rng.randint(0, len(parents) - 1) if len(parents) > 1 else 0
        pos, kw = parents[: len(parents) - n_kw], parents[len(parents) - n_kw :]
        kwd = {f"k{q}": p for q, p in enumerate(kw)}
        const = round(rng.uniform(-0.5, 0.5), 3)
        name = f"{tag}_d{j}"
        if kind == "calc":
            node = lsl.Calc(counted(name, add_fn(const)), *pos, _name=name, **kwd)
            pool.append(node)
            everything.append(node)
        elif kind == "transient":
            node = lsl.TransientCalc(
                counted(name, add_fn(const)), *pos, _name=name, **kwd
            )
            pool.append(node)
            everything.append(node)
        elif kind == "tid":
            node = lsl.TransientIdentity(pos[0], _name=name)
            pool.append(node)
            everything.append(node)
        elif kind == "group":
            grp = lsl.InputGroup(*pos, _name=f"{name}_grp", **kwd)
            extra = [rng.choice(pool)] if rng.random() < 0.5 else []
            node = lsl.Calc(counted(name, group_fn(const)), grp, *extra, _name=name)
            pool.append(node)
            everything.extend([grp, node])
        else:
            calc = lsl.Calc(
                counted(name, add_fn(const)), *pos, _name=f"{name}_calc", **kwd
            )
            var = lsl.Var(calc, name=name)
            pool.append(var)
            everything.append(var)

    # an observed variable whose distribution depends on derived quantities
    loc = rng.choice(pool)
    raw_scale = rng.choice(pool)
    scale = lsl.Calc(
        counted(f"{tag}_scale", lambda s: jnp.exp(0.1 * jnp.sum(jnp.asarray(s)))),
        raw_scale,
        _name=f"{tag}_scale",
    )
    y_dist = lsl.Dist(tfd.Normal, loc=loc, scale=scale, _name=f"{tag}_y_dist")
    if rng.random() < 0.5:
        y_dist.per_obs = False
    y = lsl.obs(jnp.array([0.1, -0.3, 0.7]), y_dist, name=f"{tag}_y")
    everything.append(y)
    settable.append((y.name, y, (3,)))

    # a free-standing distribution node evaluated at a plain value node
    at = lsl.Value(0.25, _name=f"{tag}_at")
    free = lsl.Dist(tfd.Normal, rng.choice(pool), 1.5, _name=f"{tag}_free")
    free.at = at
    everything.extend([at, free])
    settable.append((at.name, at, ()))

    # a transient distribution whose `at` node is also one of its inputs
    shared = rng.choice([p for p in pool if isinstance(p, lsl.Node)] or [at])
    tdist = lsl.TransientDist(tfd.Normal, shared, 3.0, _name=f"{tag}_tdist")
    tdist.at = shared
    everything.append(tdist)

    model = lsl.GraphBuilder().add(*everything).build_model()
    return rng, model, settable


def new_value(rng: random.Random, shape):
    if shape == ():
        return round(rng.uniform(-2.0, 2.0), 3)
    return jnp.array([round(rng.uniform(-2.0, 2.0), 3) for _ in range(shape[0])])


def run_history(seed: int, n_ops: int = 45) -> None:
    rng, model, settable = build_graph(seed)
    names = list(model.nodes)
    out(f"== graph {seed}: {len(names)} nodes, {len(model.vars)} vars")
    out("sorted", ",".join(n.name for n in model._sorted_nodes))
    out("built", flags(model), model_snapshot(model), calls_snapshot())
    for name in names:
        node = model.nodes[name]
        out(
            " io",
            name,
            type(node).__name__,
            "in=" + ",".join(n.name for n in node.all_input_nodes()),
            "out=" + ",".join(n.name for n in node.all_output_nodes()),
            "rec=" + ",".join(n.name for n in model._recursive_inputs(name)),
        )

    saved: list[dict] = []
    for step in range(n_ops):
        op = rng.choice(
            ["set", "set", "set", "toggle", "full", "target", "target", "save", "load"]
        )
        desc = op
        if op == "set":
            label, obj, shape = rng.choice(settable)
            val = new_value(rng, shape)
            desc = f"set {label}"
            res = exc(lambda: setattr(obj, "value", val) or "done")
        elif op == "toggle":
            model.auto_update = not model.auto_update
            res = f"auto={model.auto_update}"
        elif op == "full":
            res = exc(lambda: model.update() is model)
        elif op == "target":
            targets = rng.sample(names, rng.randint(1, 3))
            if rng.random() < 0.3:
                targets.append(targets[0])  # a repeated name
            desc = "target " + ",".join(targets)
            res = exc(lambda: model.update(*targets) is model)
        elif op == "save":
            saved.append(model.state)
            res = f"saved#{len(saved)}"
        else:
            if saved:
                idx = rng.randrange(len(saved))
                model.state = saved[idx]
                res = f"loaded#{idx}"
            else:
                res = "nothing-to-load"
        out(
            f"{seed}.{step:02d}",
            desc,
            "->",
            res,
            flags(model),
            model_snapshot(model),
            calls_snapshot(),
        )

    # finish with a full update and dump every value exactly
    model.update()
    out("final", flags(model), calls_snapshot())
    for name, node in model.nodes.items():
        out(" val", name, node.outdated, fmt(node.value))
    out(
        " lp",
        fmt(model.log_prob),
        fmt(model.log_lik),
        fmt(model.log_prior),
    )

    # seeds and simulation go through Value.value and Model.update(*names)
    model.auto_update = bool(seed % 2)
    out("simulate", exc(lambda: model.simulate(jax.random.PRNGKey(seed)) is model))
    out(" after-sim", flags(model), model_snapshot(model), calls_snapshot())
    model.update()
    out(" after-sim-update", flags(model), model_snapshot(model), calls_snapshot())

    # copies
    empty = model._copy_computational_model()
    out("empty-copy", flags(empty), model_snapshot(empty))
    out("original-after-copy", flags(model), model_snapshot(model), calls_snapshot())
    out("empty-copy-update", exc(lambda: empty.update() is empty))
    out("empty-copy-updated", flags(empty), model_snapshot(empty), calls_snapshot())

    nodes, _vars = model.copy_nodes_and_vars()
    rebuilt = lsl.GraphBuilder().add(*nodes.values(), *_vars.values()).build_model()
    out("rebuilt", flags(rebuilt), model_snapshot(rebuilt), calls_snapshot())

    nodes, _vars = model.pop_nodes_and_vars()
    some_value = next(n for n in nodes.values() if isinstance(n, lsl.Value))
    out("popped-set", exc(lambda: setattr(some_value, "value", 1.0)), some_value.value)
    out(
        "popped-flags",
        "".join("1" if n.outdated else "0" for n in nodes.values()),
    )
    some_node = next(n for n in nodes.values() if not isinstance(n, lsl.Value))
    out("popped-flag_outdated", exc(some_node.flag_outdated))
    out("popped-outputs", exc(lambda: some_node.outputs))
    out("popped-all-outputs", exc(some_node.all_output_nodes))


# --------------------------------------------------------------------------------------
# hand-written boundary cases
# --------------------------------------------------------------------------------------


def sibling_case() -> None:
    """Assignment with auto-update off followed by a targeted update of a sibling."""
    out("== sibling case")
    a = lsl.Value(1.0, _name="a")
    b = lsl.Value(2.0, _name="b")
    left = lsl.Calc(counted("left", lambda x: x + 1.0), a, _name="left")
    right = lsl.Calc(counted("right", lambda x: x * 3.0), b, _name="right")
    tr = lsl.TransientCalc(counted("tr", lambda x, y: x - y), left, right, _name="tr")
    top = lsl.Calc(counted("top", lambda t, extra: t + extra), tr, extra=a, _name="top")
    model = lsl.Model([top])
    out("names", ",".join(model.nodes))
    out("sorted", ",".join(n.name for n in model._sorted_nodes))
    out("init", flags(model), model_snapshot(model), calls_snapshot())

    model.auto_update = False
    a.value = 10.0
    out("a set", flags(model), fmt(top.value), fmt(tr.value), calls_snapshot())
    model.update("right")
    out("upd right", flags(model), fmt(top.value), calls_snapshot())
    model.update("left")
    out("upd left", flags(model), fmt(top.value), fmt(left.value), calls_snapshot())
    b.value = -4.0
    out("b set", flags(model), calls_snapshot())
    model.update("tr")
    out("upd tr", flags(model), fmt(tr.value), fmt(top.value), calls_snapshot())
    model.update("top", "top", "left")
    out("upd top", flags(model), fmt(top.value), calls_snapshot())
    model.update()
    out("upd full (noop)", flags(model), fmt(top.value), calls_snapshot())

    # unknown names: nothing may be evaluated before the lookup fails
    a.value = 0.5
    before = calls_snapshot()
    out("bad name", exc(lambda: model.update("left", "nope")))
    out("bad name after", flags(model), calls_snapshot() == before)
    out("bad name only", exc(lambda: model.update("nope")))
    out("rec of bad", exc(lambda: model._recursive_inputs("nope")))

    # state restore, also with flags that are truthy but not bool
    snap = model.state
    model.update()
    done = model.state
    model.state = snap
    out("restored stale", flags(model), model_snapshot(model), calls_snapshot())
    model.update("top")
    out("updated again", flags(model), model_snapshot(model), calls_snapshot())
    model.state = {"left": NodeState(left.value, 1)}
    out(
        "truthy flag",
        repr(left.outdated),
        repr(tr.outdated),
        repr(top.outdated),
        repr(tr.state),
    )
    model.update()
    out("truthy flag updated", flags(model), calls_snapshot())
    model.state = done
    out("restored done", flags(model), model_snapshot(model), calls_snapshot())
    model.auto_update = True
    a.value = 2.0
    out("auto on", flags(model), fmt(top.value), calls_snapshot())
    out("repr", repr(model), repr(a), repr(top), repr(tr))


def error_cases() -> None:
    out("== error cases")

    def picky(x):
        if x < 0:
            raise ValueError("negative")
        return x * 2.0

    x = lsl.Value(1.0, _name="x")
    first = lsl.Calc(counted("first", lambda v: v + 1.0), x, _name="first")
    bad = lsl.Calc(counted("picky", picky), x, _name="bad")
    after = lsl.Calc(counted("after", lambda p, q: p + q), bad, first, _name="after")
    model = lsl.Model([after])
    out("sorted", ",".join(n.name for n in model._sorted_nodes))
    out("init", flags(model), calls_snapshot())
    out("set neg", exc(lambda: setattr(x, "value", -1.0)))
    out("after failed sweep", flags(model), model_snapshot(model), calls_snapshot())
    out("full again", exc(model.update))
    out("target first", exc(lambda: model.update("first") is model), flags(model))
    out("target after", exc(lambda: model.update("after")), flags(model))
    out("set pos", exc(lambda: setattr(x, "value", 3.0)), flags(model))
    out("values", fmt(after.value), fmt(bad.value), calls_snapshot())

    # a transient input that raises: the error of the transient node passes through
    z = lsl.Value(1.0, _name="z")
    tbad = lsl.TransientCalc(counted("tpicky", picky), z, _name="tbad")
    user = lsl.Calc(counted("user", lambda v: v), tbad, _name="user")
    grp = lsl.InputGroup(tbad, kw=z, _name="grp")
    m2 = lsl.Model([user, grp])
    out("m2 init", flags(m2), fmt(grp.value))
    out("m2 neg", exc(lambda: setattr(z, "value", -2.0)))
    out("m2 flags", flags(m2), exc(lambda: tbad.value), exc(lambda: grp.value))
    out("m2 state", exc(lambda: sorted(m2.state)))
    m2.auto_update = False
    z.value = 4.0
    out("m2 pos", flags(m2), exc(lambda: m2.update("user") is m2), fmt(user.value))

    # distribution nodes
    d = lsl.Dist(tfd.Normal, 0.0, 1.0, _name="d")
    out("dist no at", exc(d.update), exc(d.all_input_nodes))
    td = lsl.TransientDist(tfd.Normal, 0.0, 1.0, _name="td")
    out("tdist no at", exc(lambda: td.value), td.outdated)
    loc = lsl.Value(0.5, _name="loc")
    d2 = lsl.Dist(tfd.Normal, loc, scale=loc, _name="d2")
    d2.at = loc
    out("dist inputs", ",".join(n.name for n in d2.all_input_nodes()))
    d2.update()
    out("dist alone", fmt(d2.value), d2.outdated, d2._outdated)
    d3 = lsl.Dist(tfd.Normal, jnp.zeros(3), 1.0, _name="d3")
    d3.at = lsl.Value(jnp.array([0.0, 1.0, 2.0]), _name="d3_at")
    out("per_obs", fmt(d3.update().value))
    d3.per_obs = False
    out("summed", fmt(d3.update().value), fmt(d3.log_prob))

    class Scalar:
        def __init__(self, *a, **k):
            pass

        def log_prob(self, at):
            return 1.5

    d4 = lsl.Dist(Scalar, _name="d4")
    d4.at = lsl.Value(0.0, _name="d4_at")
    d4.per_obs = False
    out("no-sum", fmt(d4.update().value))
    m3 = lsl.Model([d2, d3, d4])
    out("m3", ",".join(m3.nodes), flags(m3))
    out("m3 rec", ",".join(n.name for n in m3._recursive_inputs("d2")))
    out("m3 at locked", exc(lambda: setattr(d2, "at", None)))
    loc.value = 0.75
    out("m3 set", fmt(d2.value), flags(m3))

    # nodes outside of a model
    c = lsl.Calc(lambda v: v, 1.0, _name="c")
    t = lsl.TransientCalc(lambda v: v, c, _name="t")
    out("outside", c.outdated, c._outdated, t.outdated, exc(c.flag_outdated))
    out("outside value", exc(lambda: setattr(c.inputs[0], "value", 5.0)), fmt(c.value))
    out("outside state", repr(t.state), repr(c.state), repr(c.clear_state().state))
    out("broken calc", exc(lsl.Calc(lambda: 1 / 0, update_on_init=False).update))
    out("broken transient", exc(lambda: lsl.TransientCalc(lambda: 1 / 0).value))

    # a node cannot join a second model, and the first model stays intact
    out("second model", exc(lambda: lsl.Model([d2], grow=False)))
    out("first intact", flags(m3), ",".join(n.name for n in loc.outputs))
    out("dup names", exc(lambda: lsl.Model([lsl.Value(1, "q"), lsl.Value(2, "q")])))
    dup_vars = [lsl.Var(1.0, name="w"), lsl.Var(2.0, name="w")]
    out("dup vars", exc(lambda: lsl.Model(dup_vars)))

    # a copied model is independent
    src = lsl.Calc(counted("src", lambda v: v * 2.0), lsl.Value(1.5, "sv"), _name="src")
    m4 = lsl.Model([src], copy=True)
    m4.nodes["sv"].value = 4.0
    out("copy", fmt(m4.nodes["src"].value), fmt(src.value), src.outdated, flags(m4))

    # seeds
    seeded = lsl.Calc(
        counted("seeded", lambda seed: jax.random.normal(seed)),
        _name="seeded",
        _needs_seed=True,
    )
    m5 = lsl.GraphBuilder().add(seeded).build_model()
    out("m5", ",".join(m5.nodes), flags(m5))
    m5.auto_update = False
    m5.set_seed(jax.random.PRNGKey(3))
    out("m5 seed off", flags(m5), calls_snapshot())
    m5.update("seeded")
    out("m5 seed upd", flags(m5), fmt(seeded.value), calls_snapshot())
    m5.auto_update = True
    m5.set_seed(jax.random.PRNGKey(4))
    out("m5 seed on", flags(m5), fmt(seeded.value), calls_snapshot())


def main() -> None:
    sibling_case()
    error_cases()
    for seed in range(1, 9):
        run_history(seed)
    digest = hashlib.sha256("\n".join(_LINES).encode()).hexdigest()
    print("DIGEST", digest, len(_LINES))


if __name__ == "__main__":
    main()
