"""
C06 -- proposal corrections of the RW, IWLS and MH kernels satisfy detailed balance.
"""

from __future__ import annotations

import ast
import re

import sympy as sp

from ..algebra import Untranslatable, is_zero, to_sympy
from ..core.terms import (c, evaluate, fn_name, kw, make_inliner, n, pretty, substitute,
                          subterms)
from .common import LIB_FACTS, is_call, method, short

SELF = n("self")
MS = n("model_state")
MH = "liesel.goose.mh.mh_step"
UT = "liesel.goose.iwls_utils"


_Q = re.compile(r"q\(\s*x\s*('?)\s*\|\s*x\s*('?)\s*\)")


def documented_ratio(doc: str):
    """Orientation of the proposal-density ratio a docstring states: 'bwd/fwd' for
    q(x|x')/q(x'|x) (or the difference of the logs), 'fwd/bwd' for the reciprocal, None
    if the text states no ratio.  The first q(.|.) merely introduces the notation when
    it is not followed by an operator."""
    toks = [(m.start(), m.end(), (m.group(1), m.group(2))) for m in _Q.finditer(doc)]
    for (s0, e0, a), (s1, e1, b) in zip(toks, toks[1:]):
        between = doc[e0:s1]
        if re.fullmatch(r"[\s)\]`]*(/|-)\s*(log)?[\s(\[`]*", between) and a != b \
                and {a, b} == {("", "'"), ("'", "")}:
            return "bwd/fwd" if a == ("", "'") else "fwd/bwd"
    return None


def check(ctx):
    repo = ctx.repo
    ctx.rule("R1", "RW: the proposal is position + step with a step that depends on the "
                   "position only through its shape (symmetric), no correction is passed.")
    ctx.rule("R2", "IWLS: the backward mean / scale are the forward mean / scale evaluated "
                   "at the proposed state (term duality under renaming), the sampler and the "
                   "forward density share mean and scale, correction = backward - forward, "
                   "mean = x + (s^2/2) F^-1 score, scale = chol(F) / s.")
    ctx.rule("R3", "the Gaussian helpers agree: mvn_sample inverts the standardisation of "
                   "mvn_log_prob; the log-determinant term is + sum log diag(L); solve is "
                   "forward then backward substitution with the same factor.")
    ctx.rule("R4doc", "the log-correction convention documented for MHProposal / mh_step "
                      "is the one mh_step applies (reported under R4).")
    ctx.rule("R4", "MHKernel passes the user's proposal position and log_correction to "
                   "mh_step unchanged.")
    ctx.rule("R5", "the Fisher information is the negative Hessian of the block's "
                   "log-density (score = its gradient) unless the user supplies one.")
    ctx.trust("put/get law of the model interface (C03): position(update_state(p, s)) = p; "
              "ravel_pytree/unravel are inverse", LIB_FACTS["cond"])
    ctx.undecided("numeric equality with the analytic ratio for a given model")

    # ------------------------------------------------------------------ R1
    rw = repo.cls("liesel.goose.rw.RWKernel")
    st = method(repo, rw, "_standard_transition", own=True)
    res = evaluate(repo, st)
    mh = [t for t, _, _ in res.calls if is_call(t, MH)]
    ctx.ob("C06.R1", st, "RW calls mh_step once", len(mh) == 1)
    if len(mh) == 1:
        call = mh[0]
        corr = kw(call, "log_correction", 4)
        if corr is None:
            # the default of mh_step's parameter is what the symmetric kernels rely on
            mhf = repo.func(MH)
            a = mhf.node.args
            pos_args = a.posonlyargs + a.args
            dflt = dict(zip([x.arg for x in pos_args][len(pos_args) - len(a.defaults):],
                            a.defaults))
            dflt.update({k.arg: d for k, d in zip(a.kwonlyargs, a.kw_defaults) if d is not None})
            d = dflt.get("log_correction")
            corr = c(d.value) if isinstance(d, ast.Constant) else (
                ("opaque", ast.unparse(d)) if d is not None else None)
        ctx.ob("C06.R1", st, "the log-correction RW hands to mh_step (explicitly or through "
                             "mh_step's default) is zero (symmetric proposal)",
               corr in (c(0.0), c(0)), detail=short(corr or ()),
               stmt="rw correction " + pretty(corr or ()))
        prop = kw(call, "proposal", 2)
        pos = ("call", ("a", SELF, "position"), (MS,), ())
        rav = ("call", ("g", "jax.flatten_util.ravel_pytree"), (pos,), ())
        flat = ("proj", rav, 0)
        ok_form = (prop is not None and prop[0] == "call" and prop[1] == ("proj", rav, 1)
                   and len(prop[2]) == 1 and prop[2][0][0] == "op" and prop[2][0][1] == "+"
                   and flat in (prop[2][0][2], prop[2][0][3]))
        ctx.ob("C06.R1", st, "proposal = unravel(flat position + step), unravel from the "
                             "same ravel_pytree call", ok_form, detail=short(prop or ()),
               stmt="rw proposal " + pretty(prop or ())[:200])
        if ok_form:
            step = prop[2][0][3] if prop[2][0][2] == flat else prop[2][0][2]
            # taint: the position may occur in the step only under .shape
            shape_only = substitute(step, {("a", flat, "shape"): ("n", "SHAPE"),
                                           ("a", flat, "size"): ("n", "SHAPE"),
                                           ("a", flat, "dtype"): ("n", "DTYPE")})
            tainted = any(x == flat or x == MS for x in subterms(shape_only))
            ok_step = (not tainted and any(is_call(x, "jax.random.normal")
                                           for x in subterms(step)))
            ss = ("a", n("kernel_state"), "step_size")
            ok_scale = step[0] == "op" and step[1] == "*" and ss in (step[2], step[3])
            ctx.ob("C06.R1", st, "the step is step_size * N(0, I) noise and depends on the "
                                 "current position only through its shape (q(x'|x) = "
                                 "q(x|x'))", ok_step and ok_scale, detail=short(step),
                   stmt="rw step " + pretty(step)[:160])

    # ------------------------------------------------------------------ R2 / R5
    iw = repo.cls("liesel.goose.iwls.IWLSKernel")
    sti = method(repo, iw, "_standard_transition", own=True)
    allow = lambda f: f.cls is not None and f.cls.qualname == iw.qualname and f.name in (  # noqa
        "_score", "_chol_info", "position") or f.cls is not None and f.name == "position"
    ri = evaluate(repo, sti, inline=make_inliner(repo, self_class=iw, allow=allow),
                  inline_depth=3)
    for callee, _, _ in getattr(ri, "inlined", []):
        ctx.saw(callee)
    mh = [t for t, _, _ in ri.calls if is_call(t, MH)]
    samples = [t for t, _, _ in ri.calls if is_call(t, f"{UT}.mvn_sample")]
    dens = [t for t, _, _ in ri.calls if is_call(t, f"{UT}.mvn_log_prob")]
    ctx.call_sites += len(ri.calls)
    ok_counts = len(mh) == 1 and len(samples) == 1 and len(dens) == 2
    ctx.ob("C06.R2", sti, "one proposal draw, a forward and a backward density, one mh_step",
           ok_counts, detail=f"mh_step={len(mh)} sample={len(samples)} log_prob={len(dens)}")
    if ok_counts:
        call = mh[0]
        smp = samples[0]
        FQ = smp
        mean_s, chol_s = kw(smp, "mean", 1), kw(smp, "chol_inv_cov", 2)
        pos = ("call", ("a", ("a", SELF, "model"), "extract_position"),
               (("a", SELF, "position_keys"), MS), ())
        rav = ("call", ("g", "jax.flatten_util.ravel_pytree"), (pos,), ())
        FP = ("proj", rav, 0)
        unravel = ("proj", rav, 1)
        proposal = ("call", unravel, (FQ,), ())
        MSP = ("call", ("a", ("a", SELF, "model"), "update_state"), (proposal, MS), ())
        fwd = [d for d in dens if kw(d, "x", 0) == FQ]
        bwd = [d for d in dens if kw(d, "x", 0) == FP]
        ok_fb = len(fwd) == 1 and len(bwd) == 1
        ctx.ob("C06.R2", sti, "the forward density is evaluated at the drawn proposal, the "
                              "backward density at the current flat position", ok_fb,
               detail=str([short(kw(d, "x", 0), 60) for d in dens]),
               stmt="density evaluation points")
        if ok_fb:
            fwd, bwd = fwd[0], bwd[0]
            mean_f, chol_f = kw(fwd, "mean", 1), kw(fwd, "chol_inv_cov", 2)
            mean_b, chol_b = kw(bwd, "mean", 1), kw(bwd, "chol_inv_cov", 2)
            ctx.ob("C06.R2", sti, "the proposal is drawn from exactly the distribution whose "
                                  "density is used as the forward density (same mean and "
                                  "scale terms)", mean_s == mean_f and chol_s == chol_f,
                   detail=f"sampler mean {short(mean_s, 80)} vs density mean "
                          f"{short(mean_f, 80)}", stmt="sampler/forward agreement")
            # duality under renaming
            LF = [x for x in subterms(mean_f) if x[0] == "call"
                  and x[1] == ("a", SELF, "_flat_log_prob_fn")]
            atoms = {}
            for i, x in enumerate(dict.fromkeys(LF)):
                atoms[x] = ("n", f"LOGPROB_FN{i}")
            STATE = ("n", "STATE")
            XS = ("proj", ("call", ("g", "jax.flatten_util.ravel_pytree"),
                           (("call", ("a", ("a", SELF, "model"), "extract_position"),
                             (("a", SELF, "position_keys"), STATE), ()),), ()), 0)
            f_map = dict(atoms)
            f_map[MS] = STATE
            b_map = dict(atoms)
            b_map[MSP] = STATE
            b_map[FQ] = XS
            cf_mean, cf_chol = substitute(mean_f, f_map), substitute(chol_f, f_map)
            cb_mean, cb_chol = substitute(mean_b, b_map), substitute(chol_b, b_map)
            left_f = [x for x in subterms(("tuple", (cb_mean, cb_chol))) if x == MS]
            ctx.ob("C06.R2", sti, "backward mean == forward mean with (state, point) "
                                  "replaced by (proposed state, proposal): score and "
                                  "information are re-evaluated at the proposal",
                   cf_mean == cb_mean and not left_f,
                   detail=f"forward {short(cf_mean, 150)} | backward {short(cb_mean, 150)}"
                          + ("; the backward term still refers to the CURRENT model state"
                             if left_f else ""),
                   stmt="mean duality " + pretty(cb_mean)[:200])
            ctx.ob("C06.R2", sti, "backward scale == forward scale evaluated at the proposed "
                                  "state", cf_chol == cb_chol and not left_f,
                   detail=f"forward {short(cf_chol, 120)} | backward {short(cb_chol, 120)}",
                   stmt="scale duality " + pretty(cb_chol)[:200])
            corr = kw(call, "log_correction", 4)
            ctx.ob("C06.R2", sti, "log_correction = backward - forward log-density, passed "
                                  "to mh_step", corr == ("op", "-", bwd, fwd),
                   detail=short(corr or (), 120),
                   stmt="correction " + ("bwd-fwd" if corr == ("op", "-", bwd, fwd) else
                                         "fwd-bwd" if corr == ("op", "-", fwd, bwd)
                                         else pretty(corr or ())[:100]))
            ctx.ob("C06.R2", sti, "mh_step judges the drawn proposal (unravelled) from the "
                                  "current state", kw(call, "proposal", 2) == proposal
                   and kw(call, "model_state", 3) == MS,
                   detail=short(kw(call, "proposal", 2) or (), 100))
            # closed form of mean and scale
            s, X, D = sp.symbols("s X D", real=True)
            CH = sp.Symbol("CH", positive=True)
            ss = ("a", n("kernel_state"), "step_size")

            def leaf(t):
                if t == ss:
                    return s
                if t == FP:
                    return X
                if is_call(t, f"{UT}.solve"):
                    return D
                return None
            try:
                e = to_sympy(mean_f, {}, leaf)
                ok_m = is_zero(e - (X + s ** 2 / 2 * D))
                det = f"mean = {e}"
            except Untranslatable as ex:
                ok_m, det = False, f"untranslatable {short(ex.args[0])}"
            ctx.ob("C06.R2", sti, "forward mean = x + (s^2 / 2) * solve(chol F(x), score(x))",
                   ok_m, detail=det, stmt="mean form " + det[:120])
            sol = [x for x in subterms(mean_f) if is_call(x, f"{UT}.solve")]
            chol_info = sol[0][2][0] if sol and sol[0][2] else None
            ok_sc = chol_f == ("op", "/", chol_info, ss) if chol_info is not None else False
            ctx.ob("C06.R2", sti, "proposal scale = chol F(x) / s with the same Cholesky "
                                  "factor as in the mean and the same step size", ok_sc,
                   detail=short(chol_f, 120), stmt="scale form " + pretty(chol_f)[:120])
            # R5
            if chol_info is not None and sol:
                score = sol[0][2][1]
                lf = ("call", ("a", SELF, "_flat_log_prob_fn"), (MS, unravel), ())
                grad = ("call", ("g", "jax.grad"), (lf,), ())
                want_score = ("call", grad, (FP,), ())
                ctx.ob("C06.R5", sti, "score = gradient of the block's log-density at the "
                                      "flat position", score == want_score,
                       detail=short(score, 160), stmt="score " + pretty(score)[:160])
                ok_ci = False
                if chol_info[0] == "phi":
                    condt, auto, user = chol_info[1], chol_info[2], chol_info[3]
                    if condt[0] == "path" and len(condt[1]) == 1 and condt[1][0][1] is True:
                        condt = condt[1][0][0]
                    hess_ok = any(
                        x == ("call", ("call", ("g", "jax.jacfwd"), (grad,), ()), (FP,), ())
                        or x == ("call", ("call", ("g", "jax.hessian"), (lf,), ()), (FP,), ())
                        for x in subterms(auto))
                    ok_ci = (condt == ("cmp", "is", ("a", SELF, "chol_info_fn"), c(None))
                             and is_call(auto, "jax.numpy.linalg.cholesky")
                             and auto[2][0][0] == "u" and auto[2][0][1] == "-" and hess_ok
                             and user == ("call", ("a", SELF, "chol_info_fn"), (MS,), ()))
                ctx.ob("C06.R5", sti, "information = cholesky(-Hessian of the same "
                                      "log-density) unless chol_info_fn is given, then the "
                                      "user's function of the state -- never both",
                       ok_ci, detail=short(chol_info, 200),
                       stmt="information " + pretty(chol_info)[:200])
    flp = method(repo, iw, "_flat_log_prob_fn", own=True)
    inner = flp.nested("flat_log_prob_fn")
    rin = evaluate(repo, inner).ret()
    xp = n(inner.params()[0])
    want = ("call", ("a", ("a", SELF, "model"), "log_prob"),
            (("call", ("a", ("a", SELF, "model"), "update_state"),
              (("call", n("unravel_fn"), (xp,), ()), MS), ()),), ())
    ctx.ob("C06.R5", inner, "the flat log-density is model.log_prob(update_state(unravel(x), "
                            "model_state))", rin == want, detail=short(rin or ()))

    # ------------------------------------------------------------------ R3
    lp = repo.func(f"{UT}.mvn_log_prob")
    rl = evaluate(repo, lp).ret()
    x_, m_, L_ = n("x"), n("mean"), n("chol_inv_cov")
    std = ("op", "@", ("op", "-", x_, m_), L_)
    want_lp = ("op", "+",
               ("call", ("g", "jax.numpy.sum"),
                (("call", ("g", "jax.scipy.stats.norm.logpdf"), (std,), ()),), ()),
               ("call", ("g", "jax.numpy.sum"),
                (("call", ("g", "jax.numpy.log"),
                  (("call", ("g", "jax.numpy.diag"), (L_,), ()),), ()),), ()))
    ok_lp = rl is not None and (rl == want_lp or (rl[0] == "op" and rl[1] == "+"
                                                   and {rl[2], rl[3]} == {want_lp[2], want_lp[3]}))
    ctx.ob("C06.R3", lp, "mvn_log_prob = sum logpdf((x - mean) @ L) + sum log diag(L)",
           ok_lp, detail=short(rl or (), 200), stmt="mvn_log_prob " + pretty(rl or ())[:200])
    smp = repo.func(f"{UT}.mvn_sample")
    rsm = evaluate(repo, smp).ret()
    z = ("call", ("g", "jax.random.normal"), (n("prng_key"), ("a", m_, "shape")), ())

    def is_right_solve(t, L, rhs):
        """triangular_solve solving X @ L = rhs (left_side False)."""
        if not is_call(t, "jax.lax.linalg.triangular_solve"):
            return False
        a, b = kw(t, "a", 0), kw(t, "b", 1)
        left = kw(t, "left_side", 2) or c(False)
        lower = kw(t, "lower", 3) or c(False)
        tr = kw(t, "transpose_a", 4) or c(False)
        return a == L and b == rhs and left == c(False) and lower == c(True) and tr == c(False)

    ok_s = False
    if rsm is not None and rsm[0] == "op" and rsm[1] == "+":
        parts = [rsm[2], rsm[3]]
        if m_ in parts:
            other = parts[0] if parts[1] == m_ else parts[1]
            ok_s = is_right_solve(other, L_, z)
    ctx.ob("C06.R3", smp, "mvn_sample returns mean + z L^-1 (solves X @ L = z), the inverse "
                          "of the standardisation (x - mean) @ L used by mvn_log_prob", ok_s,
           detail=short(rsm or (), 200), stmt="mvn_sample " + pretty(rsm or ())[:200])
    sv = repo.func(f"{UT}.solve")
    rsv = evaluate(repo, sv).ret()
    ok_sv = False
    if rsv is not None and is_call(rsv, "jax.lax.linalg.triangular_solve"):
        inner_t = kw(rsv, "b", 1)
        fwd_ok = (is_call(inner_t, "jax.lax.linalg.triangular_solve")
                  and kw(inner_t, "a", 0) == n("chol_lhs") and kw(inner_t, "b", 1) == n("rhs")
                  and (kw(inner_t, "left_side", 2) or c(False)) == c(True)
                  and (kw(inner_t, "lower", 3) or c(False)) == c(True)
                  and (kw(inner_t, "transpose_a", 4) or c(False)) == c(False))
        left2 = kw(rsv, "left_side", 2) or c(False)
        tr2 = kw(rsv, "transpose_a", 4) or c(False)
        back_ok = (kw(rsv, "a", 0) == n("chol_lhs") and (kw(rsv, "lower", 3) or c(False)) == c(True)
                   and ((left2 == c(False) and tr2 == c(False))
                        or (left2 == c(True) and tr2 == c(True))))
        ok_sv = fwd_ok and back_ok
    ctx.ob("C06.R3", sv, "solve = forward substitution with L then backward substitution "
                         "with L^T (same factor)", ok_sv, detail=short(rsv or (), 200),
           stmt="solve " + pretty(rsv or ())[:200])

    # ------------------------------------------------------------------ R4
    mk = repo.cls("liesel.goose.mh_kernel.MHKernel")
    stm = method(repo, mk, "_standard_transition", own=True)
    rm = evaluate(repo, stm)
    mh = [t for t, _, _ in rm.calls if is_call(t, MH)]
    ok = False
    if len(mh) == 1:
        call = mh[0]
        p = kw(call, "proposal", 2)
        lc = kw(call, "log_correction", 4)
        ok = (p is not None and lc is not None and p[0] == "a" and p[2] == "position"
              and lc == ("a", p[1], "log_correction") and p[1][0] == "call"
              and p[1][1] == ("a", SELF, "_proposal_fn")
              and len(p[1][2]) == 3 and p[1][2][1] == MS
              and p[1][2][2] == ("a", n("kernel_state"), "step_size"))
        # the proposal and the accept draw use DIFFERENT pieces of one split of the key
        # (a shared key makes the uniform a function of the proposal noise)
        k_prop = p[1][2][0] if ok else None
        k_acc = kw(call, "prng_key", 0)
        split_ = ("call", ("g", "jax.random.split"), (n("prng_key"),), ())
        ok = ok and k_prop is not None and k_acc is not None and k_prop != k_acc \
            and {k_prop[:2], k_acc[:2]} == {("proj", split_)}
    ctx.ob("C06.R4", stm, "MHKernel hands proposal.position and proposal.log_correction of "
                          "one call of the user's proposal function (key, state, step size) "
                          "to mh_step", ok, detail=short(mh[0], 200) if mh else "",
           stmt="mh forwarding")
    # mh_step uses the correction additively inside the guarded log ratio: C05.R1
    # ---- the declared convention: every docstring that states the ratio states the one
    # mh_step applies (log_correction is ADDED to log pi(x') - log pi(x))
    docs = []
    for mname in ("liesel.goose.mh", "liesel.goose.mh_kernel"):
        mi = repo.modules[mname]
        for x in ast.walk(mi.tree):
            if isinstance(x, ast.Expr) and isinstance(x.value, ast.Constant) \
                    and isinstance(x.value.value, str) and "q(" in x.value.value:
                docs.append((mi, x))
    stated = 0
    for mi, x in docs:
        o = documented_ratio(x.value.value)
        if o is None:
            continue
        stated += 1
        ctx.ob("C06.R4", mk if mi.name.endswith("mh_kernel") else repo.func(MH),
               "the documented log-correction is log[q(x|x') / q(x'|x)] -- the ratio "
               "mh_step adds to the log acceptance ratio -- so that a proposal function "
               "written after the documentation is in detailed balance", o == "bwd/fwd",
               detail=f"{mi.relpath}:{x.lineno} states {o}", node=x,
               stmt=f"documented correction {o} in {mi.relpath}")
    ctx.require_min("docstrings stating the MH correction ratio", stated, 1)

    # ---- shared mechanisms: the neighbour's rules run as obligations of this property
    ctx.include("C05", "C06.R6", only=None)
    ctx.rule("R6", "shared mechanisms, run as obligations of this property: the reported acceptance probability is mh_step's exact min(1, ratio) (C05).")
