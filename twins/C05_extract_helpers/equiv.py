"""
Equivalence driver for liesel.goose.mh.mh_step and its callers (RW / MH / IWLS
kernels). Prints one line per scenario plus a sha256 digest over the raw bytes
(values, dtypes, shapes) of everything that was computed.

Run from the worktree root with PYTHONPATH pointing at the worktree:
    PYTHONPATH=$PWD python _twin/<name>/equiv.py
"""

import hashlib
import itertools
import math

import jax
import jax.numpy as jnp
import numpy as np

import liesel.goose as gs
from liesel.goose.epoch import EpochConfig, EpochType
from liesel.goose.mh import mh_error_book, mh_step
from liesel.goose.mh_kernel import MHProposal

H = hashlib.sha256()
NLINES = 0


def feed(tag, tree):
    """Feeds every leaf of a pytree (bytes, dtype, shape) into the digest."""
    leaves, treedef = jax.tree_util.tree_flatten(tree)
    H.update(tag.encode())
    H.update(str(treedef).encode())
    for leaf in leaves:
        weak = getattr(leaf, "weak_type", None)
        a = np.asarray(leaf)
        H.update(str(a.dtype).encode())
        H.update(str(a.shape).encode())
        H.update(str(weak).encode())
        H.update(a.tobytes())


def show(line):
    global NLINES
    NLINES += 1
    H.update(line.encode())
    print(line)


# --------------------------------------------------------------------------
# a model whose log-probability is a number stored in the state, so that every
# (current, proposed) pair of log-densities can be produced at will
# --------------------------------------------------------------------------


class TableModel:
    def extract_position(self, position_keys, model_state):
        return {k: model_state[k] for k in position_keys}

    def update_state(self, position, model_state):
        new = dict(model_state)
        new.update(position)
        return new

    def log_prob(self, model_state):
        return model_state["lp"]


MODEL = TableModel()

# keys: two ordinary ones and one whose uniform draw is exactly 0.0
ZERO_SEED = 14620119
KEYS = {
    "k0": jax.random.PRNGKey(0),
    "k7": jax.random.PRNGKey(7),
    "kz": jax.random.PRNGKey(ZERO_SEED),
}
show(f"uniform(kz) = {float(jax.random.uniform(KEYS['kz']))!r}")
show(f"mh_error_book = {sorted(mh_error_book.items())!r}")

LPS = [0.0, -1.5, 3.25, -1e30, 1e30, -math.inf, math.inf, math.nan, -1e-8]
CORRS = [None, 0.0, 0.75, -0.75, math.inf, -math.inf, math.nan]


def state(lp, x):
    return {
        "lp": jnp.asarray(lp, dtype=jnp.float32),
        "x": jnp.asarray(x, dtype=jnp.float32),
        "const": jnp.arange(3),
    }


def call(key, cur, prop, corr, fn=mh_step):
    ms = state(cur, [1.0, 2.0])
    pos = {"lp": jnp.asarray(prop, dtype=jnp.float32), "x": jnp.asarray([-3.0, 4.5])}
    if corr is None:
        return ms, fn(key, MODEL, pos, ms)
    return ms, fn(key, MODEL, pos, ms, corr)


def check_and_describe(ms_in, info, ms_out):
    """Returns a short description; also re-checks the documented contract."""
    err = int(info.error_code)
    acc = float(info.acceptance_prob)
    moved = bool(info.position_moved)
    same = all(
        np.array_equal(np.asarray(ms_in[k]), np.asarray(ms_out[k]), equal_nan=True)
        for k in ms_in
    )
    return f"err={err} acc={acc!r} moved={moved} state_is_input={same}"


jit_step = jax.jit(mh_step, static_argnums=1)

# eager + jit, full grid
for (kname, key), cur, prop, corr in itertools.product(KEYS.items(), LPS, LPS, CORRS):
    ms_in, (info, ms_out) = call(key, cur, prop, corr)
    tag = f"{kname}|cur={cur!r}|prop={prop!r}|corr={corr!r}"
    feed("eager|" + tag, (info, ms_out))
    desc = check_and_describe(ms_in, info, ms_out)
    _, (jinfo, jms_out) = call(key, cur, prop, corr, fn=jit_step)
    feed("jit|" + tag, (jinfo, jms_out))
    jdesc = check_and_describe(ms_in, jinfo, jms_out)
    # print only a readable subset; everything goes into the digest
    H.update((tag + desc + jdesc).encode())
    if kname == "kz" or (cur in (0.0, -math.inf) and corr in (None, math.nan)):
        show(f"{tag}: {desc} | jit: {jdesc}")

# array-valued corrections with different dtypes / weak types
for corr in [jnp.float32(0.25), jnp.asarray(-0.25), np.float32(0.5), 1, jnp.int32(-1)]:
    for kname, key in KEYS.items():
        ms_in, (info, ms_out) = call(key, -1.0, -1.25, corr)
        feed(f"corrtype|{kname}|{type(corr).__name__}", (info, ms_out))
        show(
            f"corrtype {type(corr).__name__} {kname}: "
            + check_and_describe(ms_in, info, ms_out)
            + f" accdtype={np.asarray(info.acceptance_prob).dtype}"
        )

# weakly typed / Python-scalar log-probs and state leaves: the weak_type flag of
# every output leaf is part of the digest and of the printed line
for mk, mkname in [(float, "pyfloat"), (jnp.asarray, "weakarray"), (np.float64, "np64")]:
    for cur, prop, corr in [
        (0.0, -1.0, None),
        (0.0, 1.0, 0.5),
        (math.nan, 0.0, None),
        (0.0, -math.inf, math.nan),
        (-math.inf, -math.inf, jnp.float32(0.0)),
    ]:
        for kname, key in KEYS.items():
            ms = {"lp": mk(cur), "x": 1.0, "const": jnp.arange(3)}
            pos = {"lp": mk(prop), "x": jnp.float32(2.0)}
            for fname, fn in [("eager", mh_step), ("jit", jit_step)]:
                args = (key, MODEL, pos, ms) + (() if corr is None else (corr,))
                info, ms_out = fn(*args)
                tag = f"weak|{mkname}|{fname}|{kname}|{cur!r}|{prop!r}|{corr!r}"
                feed(tag, (info, ms_out))
                kinds = [
                    (str(np.asarray(v).dtype), getattr(v, "weak_type", None))
                    for v in jax.tree_util.tree_leaves((info, ms_out))
                ]
                H.update(repr(kinds).encode())
                if kname == "k0":
                    show(f"{tag}: {kinds}")

# vmap over keys and log-probs (lax.cond is lowered to select here)
keys = jnp.stack([KEYS["k0"], KEYS["k7"], KEYS["kz"]] * len(LPS))
curs = jnp.repeat(jnp.asarray(LPS, dtype=jnp.float32), 3)
for prop in LPS:
    for corr in [0.0, math.nan, -0.75]:

        def one(key, cur):
            ms = {"lp": cur, "x": jnp.asarray([1.0, 2.0]), "const": jnp.arange(3)}
            pos = {"lp": jnp.asarray(prop, jnp.float32), "x": jnp.asarray([-3.0, 4.5])}
            return mh_step(key, MODEL, pos, ms, corr)

        out = jax.vmap(one)(keys, curs)
        feed(f"vmap|{prop!r}|{corr!r}", out)
        jout = jax.jit(jax.vmap(one))(keys, curs)
        feed(f"jitvmap|{prop!r}|{corr!r}", jout)
info, _ = out
show(f"vmap last: err={np.asarray(info.error_code).tolist()}")
show(f"vmap last: moved={np.asarray(info.position_moved).tolist()}")

# exceptions must be the same too
for bad in ["no_model", "bad_key"]:
    try:
        if bad == "no_model":
            mh_step(KEYS["k0"], None, {}, state(0.0, [0.0]))
        else:
            mh_step("key", MODEL, {"lp": jnp.float32(0.0)}, state(0.0, [0.0]))
    except Exception as e:  # noqa: BLE001
        show(f"exception {bad}: {type(e).__name__}")

# --------------------------------------------------------------------------
# the callers: RWKernel, MHKernel, IWLSKernel
# --------------------------------------------------------------------------


def log_prob(ms):
    x = ms["x"]
    lp = -0.5 * jnp.sum((x - ms["mu"]) ** 2)
    lp = jnp.where(x[0] > 2.0, -jnp.inf, lp)  # zero-density region
    lp = jnp.where(x[1] < -2.0, jnp.nan, lp)  # undefined region
    return lp


def smooth_log_prob(ms):
    x = ms["x"]
    return -0.5 * jnp.sum((x - ms["mu"]) ** 2) - 0.1 * jnp.sum(x**4)


def proposal_fn(key, model_state, step_size):
    eps = step_size * jax.random.normal(key, model_state["x"].shape)
    x = model_state["x"] + eps + 0.1
    return MHProposal(position={"x": x}, log_correction=jnp.sum(eps) * 0.05)


def nan_corr_proposal_fn(key, model_state, step_size):
    return MHProposal(position={"x": model_state["x"] + 0.01}, log_correction=jnp.nan)


KSTATE0 = {"x": jnp.asarray([0.5, -0.5]), "mu": jnp.asarray([1.0, -1.0])}
# PRNGKey(5529654) splits into a sub-key whose uniform draw is exactly 0.0
KERNEL_SEEDS = [0, 1, 2, 3, 5529654, 6086336]
sub = jax.random.split(jax.random.PRNGKey(5529654))[1]
show(f"uniform(split(5529654)[1]) = {float(jax.random.uniform(sub))!r}")


def make_kernels():
    out = []
    for lp_fn, lpname in [(log_prob, "cut"), (smooth_log_prob, "smooth")]:
        model = gs.DictInterface(lp_fn)
        ks = [
            ("rw", gs.RWKernel(["x"], initial_step_size=1.5)),
            ("mh", gs.MHKernel(["x"], proposal_fn, initial_step_size=1.5)),
            ("mhnan", gs.MHKernel(["x"], nan_corr_proposal_fn)),
            ("mhda", gs.MHKernel(["x"], proposal_fn, da_tune_step_size=True)),
        ]
        if lpname == "smooth":
            ks.append(("iwls", gs.IWLSKernel(["x"], initial_step_size=0.9)))
        for name, k in ks:
            k.set_model(model)
            out.append((f"{lpname}.{name}", k))
    return out


EPOCHS = {
    "posterior": EpochConfig(EpochType.POSTERIOR, 10, 1, None).to_state(2, 20),
    "fast": EpochConfig(EpochType.FAST_ADAPTATION, 10, 1, None).to_state(1, 5),
}

for kname, kernel in make_kernels():
    for ename, epoch in EPOCHS.items():
        moved = []
        errs = []
        for seed in KERNEL_SEEDS:
            key = jax.random.PRNGKey(seed)
            kstate = kernel.init_state(key, KSTATE0)
            outcome = kernel.transition(key, kstate, dict(KSTATE0), epoch)
            feed(f"kernel|{kname}|{ename}|{seed}", outcome)
            moved.append(int(outcome.info.position_moved))
            errs.append(int(outcome.info.error_code))
        # a short jitted chain
        def body(carry, key):
            kstate, ms = carry
            o = kernel.transition(key, kstate, ms, epoch)
            return (o.kernel_state, o.model_state), (o.info, o.model_state["x"])

        chain_keys = jax.random.split(jax.random.PRNGKey(11), 200)
        kstate = kernel.init_state(chain_keys[0], KSTATE0)
        _, (infos, xs) = jax.lax.scan(body, (kstate, dict(KSTATE0)), chain_keys)
        feed(f"chain|{kname}|{ename}", (infos, xs))
        show(
            f"kernel {kname} {ename}: moved={moved} err={errs} "
            f"chain_acc_mean={float(jnp.mean(infos.acceptance_prob))!r} "
            f"chain_moved={int(jnp.sum(infos.position_moved))} "
            f"chain_err90={int(jnp.sum(infos.error_code == 90))}"
        )

# a full engine run with all three kernels' module (two chains)
for kern in ["rw", "mh", "iwls"]:
    builder = gs.EngineBuilder(seed=3, num_chains=2)
    if kern == "rw":
        builder.add_kernel(gs.RWKernel(["x"]))
    elif kern == "mh":
        builder.add_kernel(gs.MHKernel(["x"], proposal_fn))
    else:
        builder.add_kernel(gs.IWLSKernel(["x"]))
    builder.set_model(gs.DictInterface(smooth_log_prob if kern == "iwls" else log_prob))
    builder.set_initial_values(KSTATE0)
    builder.set_duration(warmup_duration=200, posterior_duration=100)
    builder.show_progress = False
    engine = builder.build()
    engine.sample_all_epochs()
    results = engine.get_results()
    samples = results.get_posterior_samples()
    infos = results.get_posterior_transition_infos()
    feed(f"engine|{kern}", (samples, infos))
    show(
        f"engine {kern}: x_mean={np.asarray(samples['x']).mean(axis=(0, 1)).tolist()!r}"
    )

show(f"lines={NLINES}")
print("DIGEST", H.hexdigest())
