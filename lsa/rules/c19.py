"""
C19 -- error and sample bookkeeping in results and summaries is exact.
"""

from __future__ import annotations

import ast
import itertools

from ..core.terms import (cmp_, not_, pc, phi_, c, evaluate, fn_name, kw, make_inliner, n, pretty, subterms)
from .common import LIB_FACTS, cond_parts, is_call, kernel_classes, method, short, thunk_value

SELF = n("self")
ETYPE = "liesel.goose.epoch.EpochType"
MH = "liesel.goose.mh.mh_step"


def _book(ci):
    e = ci.class_attr("error_book")
    try:
        from .common import literal_of
        return literal_of(ci.module.repo, ci.module, e) if e is not None else None
    except Exception:
        return None


def emitted_codes(repo, ci):
    """Set of error codes a kernel's transitions can put into its info (or None if
    not determinable), plus a description."""
    st = repo.lookup_method(ci, "_standard_transition") or repo.lookup_method(ci, "transition")
    allow = lambda f: f.module.name == ci.module.name and f.cls is None  # noqa: E731
    r = evaluate(repo, st, inline=make_inliner(repo, self_class=ci, allow=allow), inline_depth=2)
    rt = r.ret()
    if rt is None or rt[0] != "call":
        return None, "no outcome"
    info = kw(rt, "info", 0)
    if info is None:
        return None, "no info"
    if info[0] == "proj" and is_call(info[1], MH) and info[2] == 0:
        mh = repo.func(MH)
        rm = evaluate(repo, mh).ret()
        inf = rm[1][0] if rm is not None and rm[0] == "tuple" and rm[1] else None
        if inf is None or inf[0] != "call":
            return None, "mh_step does not return (info, state) with a constructed info"
        code = kw(inf, "error_code", 0)
        if code is None:
            return None, "mh_step info has no error_code"
        # proj(cond(isnan, (..., c1), (..., c0)), 1)
        if code[0] == "proj" and code[2] == 1:
            p = cond_parts(code[1])
            if p:
                a, b = thunk_value(repo, p[1], p[3]), thunk_value(repo, p[2], p[3])
                if a and b and a[0] == "tuple" and b[0] == "tuple" and a[1][1][0] == "c" \
                        and b[1][1][0] == "c":
                    return {a[1][1][1], b[1][1][1]}, "mh_step branches"
        return None, "mh_step code not constant"
    code = kw(info, "error_code", 0) if info[0] == "call" else None
    if code is None:
        return None, "no error_code argument"
    if code[0] == "c":
        return {code[1]}, "literal"
    # 1 * flag
    if code[0] == "op" and code[1] == "*" and c(1) in (code[2], code[3]):
        return {0, 1}, "1 * boolean flag"
    # jnp.array(args) @ 2 ** arange(len(args))
    if code[0] == "op" and code[1] == "@":
        arr, w = code[2], code[3]
        if is_call(arr, "jax.numpy.array") and arr[2] and arr[2][0][0] == "tuple":
            flags = arr[2][0][1]
            ok_w = (w[0] == "op" and w[1] == "**" and w[2] == c(2)
                    and is_call(w[3], "jax.numpy.arange")
                    and w[3][2] == (("call", ("n", "len"), (arr[2][0],), ()),))
            if ok_w:
                k = len(flags)
                return {sum(b << i for i, b in enumerate(bits))
                        for bits in itertools.product((0, 1), repeat=k)}, \
                    ("bit flags", [pretty(f) for f in flags])
    return None, f"unrecognised error code {pretty(code)[:80]}"


def check(ctx):
    repo = ctx.repo
    ctx.rule("R1", "every error code a built-in kernel can emit is a key of its error_book "
                   "with a message of matching meaning (finite set inclusion).")
    ctx.rule("R2", "counting is per code, per chain, per phase: the error log masks "
                   "transitions with any non-zero code and slices codes with the same mask; "
                   "the summary counts `== code` along the time axis for the overall and the "
                   "posterior log of the same kernel; warm-up = total - posterior.")
    ctx.rule("R3", "pickling results uses the same module in binary write / read mode; the "
                   "ArviZ conversion passes the stored samples on unchanged.")
    ctx.undecided("count conservation on arbitrary arrays (value-level)",
                  "value equality after ArviZ conversion / pickling")

    # ------------------------------------------------------------------ R1
    kernels = kernel_classes(repo)
    ctx.require_min("kernel classes with an error book", len(kernels), 6)
    for nm, ci in sorted(kernels.items()):
        book = _book(ci)
        codes, how = emitted_codes(repo, ci)
        ok = book is not None and codes is not None and codes <= set(book)
        ctx.ob("C19.R1", ci, f"{nm}: emitted error codes are documented in error_book",
               ok, unproven=codes is None,
               detail=f"emits {sorted(codes) if codes else how}; book keys "
                      f"{sorted(book) if book else None}",
               stmt=f"{nm} codes {sorted(codes) if codes else how}",
               facts={"emitted": sorted(codes) if codes else None, "how": str(how),
                      "book": {str(k): v for k, v in (book or {}).items()}})
        if book is not None:
            ctx.ob("C19.R1", ci, f"{nm}: code 0 means 'no errors'",
                   0 in book and "no error" in book[0].lower())
        if isinstance(how, tuple) and how[0] == "bit flags" and book:
            flags = how[1]
            words = []
            for f in flags:
                words.append("divergent" if "divergent" in f else
                             "tree depth" if ("expansions" in f or "treedepth" in f) else "?")
            bad = []
            for code in sorted(codes or ()):
                if code == 0:
                    continue
                need = [w for i, w in enumerate(words) if code >> i & 1]
                absent = [w for i, w in enumerate(words) if not code >> i & 1]
                msg = book.get(code, "").lower()
                if not all(w in msg for w in need) or any(w in msg for w in absent):
                    bad.append(f"{code}: '{book.get(code)}' should mention exactly {need}")
            ctx.ob("C19.R1", ci, f"{nm}: bit i of the code corresponds to flag i and the "
                                 f"messages name exactly the set flags", not bad,
                   detail="; ".join(bad), stmt=f"{nm} flag/message order {bad[:1]}")
        elif codes == {0, 1} and book:
            ctx.ob("C19.R1", ci, f"{nm}: code 1 is the divergence flag",
                   "divergent" in book.get(1, "").lower())
    mhbook = repo.module("liesel.goose.mh").assigns.get("mh_error_book")
    from .common import literal_of
    try:
        mb = literal_of(repo, repo.module("liesel.goose.mh"), mhbook) if mhbook is not None else {}
    except ValueError:
        mb = {}
    same = [nm for nm, ci in kernels.items() if 90 in (_book(ci) or {})
            and (_book(ci) or {}).get(90) == mb.get(90)]
    ctx.ob("C19.R1", repo.func(MH), "the MH-type kernels document code 90 with mh_step's "
                                    "own message", len(same) >= 3, detail=str(sorted(same)))

    # ------------------------------------------------------------------ R2
    sr = repo.cls("liesel.goose.engine.SamplingResults")
    gel = method(repo, sr, "get_error_log", own=True)
    rg = evaluate(repo, gel)
    lp = rg.loops[0] if rg.loops else None
    ok = False
    detail = ""
    # (the per-kernel loop may be a loop or the comprehension it is the normal form of)
    kel = sorted({t for t, _, _ in rg.calls if is_call(t, "liesel.goose.engine.KernelErrorLog")},
                 key=repr)
    if kel:
        if len(kel) == 1 and kel[0][2] and kel[0][2][0][0] == "iter":
            ident, cls_, transition, codes_t = (kel[0][2] + (None,) * 4)[:4]
            it = ident[1]
            name_t = ("iter", it)
            ec = ("a", ("s", it, name_t), "error_code")
            mask = ("call", ("g", "numpy.any"), (cmp_("!=", ec, c(0)),), (("axis", c(0)),))
            want_tr = ("proj", ("call", ("g", "numpy.where"), (mask,), ()), 0)
            full = ("slice", c(None), c(None), c(None))
            want_cls = ("call", ("a", ("a", SELF, "kernel_classes"), "map"),
                        (("lambda", ("_l0_0",), ("s", n("_l0_0"), name_t)),), ())
            ok = (ident == name_t and transition == want_tr and codes_t is not None
                  and cls_ == want_cls
                  and codes_t[0] == "s" and codes_t[2] == ("tuple", (full, mask))
                  and any(x == ec for x in subterms(codes_t[1])))
            detail = f"transition={short(transition or (), 100)} codes={short(codes_t or (), 100)}"
    ctx.ob("C19.R2", gel, "per kernel: mask = any(code != 0 over chains); transition = "
                          "where(mask); error_codes = code[:, mask] (same mask); the class "
                          "(for the messages) is looked up under the same kernel identifier",
           ok,
           detail=detail, stmt="error log mask " + detail[:160])
    post = [t for t, _, cond in rg.calls if t[1][0] == "a" and t[1][2] == "combine_filtered"
            and any(a == n("posterior_only") and p for a, p in cond)]
    allc = [t for t, _, cond in rg.calls if t[1][0] == "a" and t[1][2] == "combine_all"
            and any(a == n("posterior_only") and not p for a, p in cond)]
    from .c08 import _is_posterior_pred
    ok = (len(post) == 1 and len(allc) == 1 and post[0][2] and _is_posterior_pred(post[0][2][0])
          and post[0][1][1] == ("a", SELF, "transition_infos")
          and allc[0][1][1] == ("a", SELF, "transition_infos"))
    ctx.ob("C19.R2", gel, "posterior_only selects exactly the POSTERIOR epochs of the "
                          "transition infos, otherwise all epochs", ok, stmt="phase selection")
    if ok:
        EMPTY = (("call", ("g", "liesel.option.Option"), (c(None),), ()),
                 ("call", ("g", "liesel.option.Option.none"), (), ()))
        none_ret = [rc for rc, rt_, _ in rg.returns if rt_ in EMPTY]
        is_none = ("call", ("a", post[0], "is_some"), (), ())
        ok_n = len(none_ret) == 1 and sorted(none_ret[0], key=str) == sorted(
            [(n("posterior_only"), True), (is_none, False)], key=str)
        full = [rt_ for rc, rt_, _ in rg.returns if is_call(rt_, "liesel.option.Option")
                and rt_[2] != (c(None),) and rt_ not in EMPTY]
        ctx.ob("C19.R2", gel, "the posterior-only log is empty exactly when there are no "
                              "posterior transition infos; otherwise the assembled log is "
                              "returned", ok_n and len(full) == 1,
               detail=str([[pretty(a)[:50] + "=" + str(p_) for a, p_ in rc] for rc in none_ret]),
               stmt="empty posterior log")

    # minimising the stored transition infos (an engine option) must keep every error code
    # as it is: the code is what the error log counts
    mins = [fi for q, fi in sorted(repo.functions.items())
            if q.startswith("liesel.goose.") and fi.name == "minimize" and fi.cls is not None
            and fi.cls.module.name != "liesel.goose.types"]
    for mf in mins:
        rt_m = evaluate(repo, mf).ret()
        ok_m = rt_m == SELF
        if not ok_m and rt_m is not None and rt_m[0] == "call":
            ec = kw(rt_m, "error_code", 0)
            ok_m = ec == ("a", SELF, "error_code")
        ctx.ob("C19.R2", mf, f"{mf.cls.name}.minimize() returns the info with its error code "
                             f"unchanged (no cast to a narrower type, no recoding)", ok_m,
               detail=short(rt_m or (), 120), stmt=f"{mf.cls.name}.minimize error code")
    ctx.require_min("minimize() implementations of transition infos", len(mins), 1)
    # transition infos are recorded for EVERY transition (not thinned), so that every
    # returned code is counted
    eng = repo.cls("liesel.goose.engine.Engine")
    rei = evaluate(repo, method(repo, eng, "__init__"))
    tic = [val for loc, val, _, _ in rei.stores if loc == ("a", SELF, "_transition_info_chain")]
    ok = (len(tic) == 1 and is_call(tic[0], "liesel.goose.chain.EpochChainManager")
          and kw(tic[0], "apply_thinning", 0) in (None, c(False)))
    ctx.ob("C19.R2", method(repo, eng, "__init__"), "the transition-info chain stores every "
                                                    "transition (thinning is not applied to "
                                                    "it), so no returned code is dropped",
           ok, detail=short(tic[0]) if tic else "", stmt="transition infos thinned")

    mes = repo.func("liesel.goose.summary_m._make_error_summary")
    rm = evaluate(repo, mes)
    outer = [l_ for l_ in rm.loops if l_["iter"] == ("call", ("a", n("error_log"), "values"), (), ())]
    ok_tot = ok_post = ok_msg = False
    if len(outer) == 1:
        kel = ("iter", outer[0]["iter"])
        codes_k = ("a", kel, "error_codes")
        uniq = ("call", ("g", "numpy.unique"), (codes_k,), ())
        ecv = ("iter", uniq)
        want_tot = ("call", ("g", "numpy.sum"), (("cmp", "==", codes_k, ecv),), (("axis", c(1)),))
        tot = [val for loc, val, _, cond in rm.stores if loc[0] == "s" and loc[2] == ecv
               and val == want_tot
               and any(a == ("cmp", "==", ecv, c(0)) and not p for a, p in cond)]
        ok_tot = len(tot) == 1
        kel_post = ("s", ("call", ("a", n("posterior_error_log"), "unwrap"), (), ()),
                    ("a", kel, "kernel_ident"))
        want_post = ("call", ("g", "numpy.sum"),
                     (("cmp", "==", ("a", kel_post, "error_codes"), ecv),), (("axis", c(1)),))
        reps = [t for t, _, cond in rm.calls if t[0] == "call" and t[1][0] == "a"
                and t[1][2] == "_replace"
                and dict(t[3]).get("count_per_chain_posterior") == want_post]
        ok_post = len(reps) == 1 and reps[0][1][1][0] == "s" and reps[0][1][1][2] == ecv
        if ok_post:
            sts = [loc for loc, val, _, _ in rm.stores if val == reps[0]]
            ok_post = len(sts) == 1 and sts[0][0] == "s" and sts[0][2] == ecv
        if ok_post:
            # ... for every non-zero code, whenever a posterior log exists
            rcond = [cd for t, _, cd in rm.calls if t == reps[0]][0]
            guard = [(a, p_) for a, p_ in rcond if a[0] != "inloop"]
            is_some = ("call", ("a", n("posterior_error_log"), "is_some"), (), ())
            ok_post = sorted(guard, key=str) == sorted(
                [(is_some, True), (("cmp", "==", ecv, c(0)), False)], key=str)
        # the per-code record: (code, message of that code, overall count, None), stored
        # under the code, and the kernel's dict stored under the kernel's identifier
        recs = [(loc, val) for loc, val, _, _ in rm.stores
                if is_call(val, "liesel.goose.summary_m.ErrorSummaryForOneCode")]
        ok_rec = False
        if len(recs) == 1 and tot:
            loc, val = recs[0]
            cdict = [l_ for l_, v_, _, _ in rm.stores if v_ == want_tot][0][1]
            item = ("iter", ("call", ("a", cdict, "items"), (), ()))
            code_t, count_t = ("proj", item, 0), ("proj", item, 1)
            ok_rec = (loc[0] == "s" and loc[2] == code_t
                      and kw(val, "error_code", 0) == code_t
                      and kw(val, "count_per_chain", 2) == count_t
                      and kw(val, "count_per_chain_posterior", 3) == c(None)
                      and any(x == ("s", ("a", n("_l0_0"), "error_book"), code_t)
                              for x in subterms(kw(val, "error_msg", 1) or ()))
                      and any(l_[0] == "s" and l_[2] == ("a", kel, "kernel_ident") and v_ == loc[1]
                              for l_, v_, _, _ in rm.stores))
        ctx.ob("C19.R2", mes, "each record is (code, that code's message, that code's overall "
                              "count, None) stored under the code; the kernel's records are "
                              "stored under the kernel's identifier", ok_rec,
               stmt="error record")
        msgs = [t for t, _, _ in rm.calls if t[0] == "call" and t[1][0] == "a"
                and t[1][2] == "map_or" and t[1][1] == ("a", kel, "kernel_cls")]
        ok_msg = (len(msgs) == 1 and len(msgs[0][2]) == 2 and msgs[0][2][1][0] == "lambda"
                  and msgs[0][2][1][2][0] == "s"
                  and msgs[0][2][1][2][1] == ("a", n(msgs[0][2][1][1][0]), "error_book"))
    ctx.ob("C19.R2", mes, "overall count of code c per chain = sum(error_codes == c, axis = "
                          "time), for every non-zero code that occurs", ok_tot,
           stmt="overall count")
    ctx.ob("C19.R2", mes, "posterior count of code c per chain = sum(posterior error_codes == "
                          "c, axis = time) of the SAME kernel, stored under the same code c",
           ok_post, stmt="posterior count alignment")
    ctx.ob("C19.R2", mes, "the message is the kernel class's error_book entry of that code",
           ok_msg, stmt="message lookup")
    sm = repo.cls("liesel.goose.summary_m.Summary")
    ini = method(repo, sm, "__init__", own=True)
    ri = evaluate(repo, ini)
    call = [t for t, _, _ in ri.calls if is_call(t, "liesel.goose.summary_m._make_error_summary")]
    gel_f = ("call", ("a", ("call", ("a", n("results"), "get_error_log"), (c(False),), ()),
                      "unwrap"), (), ())
    gel_t = ("call", ("a", n("results"), "get_error_log"), (c(True),), ())
    ctx.ob("C19.R2", ini, "Summary compares the overall error log with the posterior-only "
                          "error log of the same results",
           len(call) == 1 and call[0][2] == (gel_f, gel_t),
           detail=short(call[0]) if call else "", stmt="summary logs")
    st_es = [(val, cond) for loc, val, _, cond in ri.stores if loc == ("a", n("self"), "error_summary")]
    ctx.ob("C19.R2", ini, "Summary.error_summary is that summary as computed: every kernel "
                          "with a recorded error appears (no filtering by the selected "
                          "parameters, no post-processing)",
           len(call) == 1 and len(st_es) == 1 and st_es[0][0] == call[0],
           detail=short(st_es[0][0], 160) if st_es else "no store", stmt="error_summary store")
    # reported sample sizes: warm-up size = total duration of the warm-up epochs (fast and
    # slow adaptation AND burn-in), posterior size = the stored posterior samples
    from .c07 import epoch_types_where
    from ..domains import concrete as _cc
    ws = ri.env.vars.get("warmup_size")
    ok_ws, ws_detail = False, short(ws or (), 120)
    if ws is not None and is_call(ws, "numpy.sum", "sum", "jax.numpy.sum") and ws[2] \
            and ws[2][0][0] == "comp" and len(ws[2][0][3]) == 1:
        comp = ws[2][0]
        tgt, it, conds = comp[3][0]
        ep = ("iter", it)
        src_ok = it == ("call", ("a", ("a", n("results"), "positions"), "get_epochs"), (), ())
        if comp[2] == ("a", ep, "duration") and len(conds) == 1 and src_ok:
            try:
                got_w = epoch_types_where(repo, conds[0], ("a", ep, "type"))
                ok_ws = got_w == {"FAST_ADAPTATION", "SLOW_ADAPTATION", "BURNIN"}
                ws_detail = f"counted epoch types {sorted(got_w)}"
            except _cc.Unmodelled as e:
                ws_detail = f"unmodelled {e}"
    si = ri.env.vars.get("sample_info")
    ok_si = False
    if si is not None and si[0] == "dict":
        ent = {k[1]: v for k, v in si[1] if k[0] == "c"}
        ok_si = (ent.get("warmup_size_per_chain") == ws
                 and ent.get("num_chains", ())[:1] == ("s",) and ent["num_chains"][2] == c(0)
                 and ent.get("sample_size_per_chain", ())[:1] == ("s",)
                 and ent["sample_size_per_chain"][2] == c(1)
                 and ent["num_chains"][1] == ent["sample_size_per_chain"][1])
    ctx.ob("C19.R2", ini, "the reported warm-up size is the total duration of ALL warm-up "
                          "epochs of the stored chain (fast / slow adaptation and burn-in); "
                          "chains and posterior sample size are the two leading axes of a "
                          "stored posterior array", ok_ws and ok_si, detail=ws_detail,
           unproven="unmodelled" in ws_detail, stmt="sample sizes " + ws_detail[:80])
    edf = method(repo, sm, "_error_df", own=True)
    src = ast.unparse(edf.node)
    ren = "'count_per_chain': 'total'" in src and "'count_per_chain_posterior': 'posterior'" in src
    red = [val for loc, val, _, _ in evaluate(repo, edf).stores
           if loc[0] == "s" and loc[2] == c("warmup")]
    ok = ren and len(red) == 1 and red[0][0] == "op" and red[0][1] == "-" \
        and red[0][2][0] == "s" and red[0][2][2] == c("total") \
        and red[0][3][0] == "s" and red[0][3][2] == c("posterior")
    ctx.ob("C19.R2", edf, "warm-up count = total - posterior (total = overall count, "
                          "posterior = posterior count)", ok, stmt="warmup = total - posterior")

    # chains are numbered within (kernel, code, message, phase): all four index levels
    rdf = evaluate(repo, edf)
    gbs = [t for t, _, _ in rdf.calls if t[0] == "call" and t[1][0] == "a"
           and t[1][2] == "groupby"]
    FULL_NAMES = {"kernel", "error_code", "error_msg", "phase"}

    def levels_ok(t):
        lv = kw(t, "level", 1) or kw(t, "by", 0)
        if lv is None or lv[0] != "list":
            return False
        vals = [x[1] for x in lv[1] if x[0] == "c"]
        return vals == [0, 1, 2, 3] or set(vals) == FULL_NAMES
    cum = [t for t, _, _ in rdf.calls if t[0] == "call" and t[1][0] == "a"
           and t[1][2] == "cumcount"]
    ok = (len(gbs) == 2 and all(levels_ok(t) for t in gbs) and len(cum) == 1
          and cum[0][1][1] in gbs)
    ctx.ob("C19.R2", edf, "chains are numbered, and counts aggregated, within (kernel, error "
                          "code, message, phase): every groupby uses all four index levels "
                          "(dropping `kernel` would mix the chains of different kernels)",
           ok, detail=str([short(kw(t, "level", 1) or kw(t, "by", 0) or ()) for t in gbs]),
           stmt="groupby levels " + str([pretty(kw(t, "level", 1) or kw(t, "by", 0) or ())
                                          for t in gbs]))

    # ------------------------------------------------------------------ R3
    # result containers are pickled by the default object protocol (exact copy of the
    # instance dict); a custom hook must restore by plain assignment, never through
    # methods with side effects (append re-applies thinning)
    HOOKS = ("__getstate__", "__setstate__", "__reduce__", "__reduce_ex__", "__getnewargs__",
             "__getnewargs_ex__", "__deepcopy__", "__copy__")
    containers = [q for q in repo.classes if q.startswith(("liesel.goose.chain.",
                                                           "liesel.option."))
                  or q in ("liesel.goose.engine.SamplingResults",
                           "liesel.goose.engine.KernelErrorLog",
                           "liesel.goose.epoch.EpochConfig")]
    ctx.require_min("result container classes", len(containers), 6)
    for q in sorted(containers):
        ci = repo.cls(q)
        hooks = [h for h in HOOKS if ci.own_method(h) is not None]
        if not hooks:
            ctx.ob("C19.R3", ci, "no custom pickling / copying hook: the default protocol "
                                 "restores the instance dict exactly", True, nontrivial=False)
            continue
        bad = []
        ss_ = ci.own_method("__setstate__")
        if ss_ is not None:
            rss = evaluate(repo, ss_)
            for t, _, _ in rss.calls:
                f = t[1]
                if f[0] == "a" and f[1] == SELF and f[2] not in ("__dict__",):
                    bad.append(f"self.{f[2]}(...)")
        for h in hooks:
            if h != "__setstate__" and h != "__getstate__":
                bad.append(h)
        ctx.ob("C19.R3", ci, "a custom pickling hook restores the stored chunks by plain "
                             "assignment (no method with side effects such as append(), "
                             "which would thin an already thinned chain again)", not bad,
               detail=f"hooks {hooks}; suspicious: {bad}", stmt=f"pickle hooks {hooks} {bad}")
    ctl = repo.cls("liesel.model.nodes.Node")
    ctx.require_min("positive control of the pickling-hook matcher (Node.__getstate__)",
                    sum(1 for h in HOOKS if ctl.own_method(h) is not None), 2)
    sv = method(repo, sr, "pkl_save", own=True)
    ld = method(repo, sr, "pkl_load", own=True)
    rsv, rld = evaluate(repo, sv), evaluate(repo, ld)
    d = [t for t, _, _ in rsv.calls if (fn_name(t[1]) or "").endswith(".dump")]
    l_ = [t for t, _, _ in rld.calls if (fn_name(t[1]) or "").endswith(".load")]
    ow = [t for t, _, _ in rsv.calls if is_call(t, "open")]
    orr = [t for t, _, _ in rld.calls if is_call(t, "open")]
    ok = (len(d) == 1 and len(l_) == 1 and d[0][2][0] == SELF
          and (fn_name(d[0][1]) or "").rsplit(".", 1)[0] == (fn_name(l_[0][1]) or "").rsplit(".", 1)[0]
          and len(ow) == 1 and ow[0][2][1] == c("wb") and len(orr) == 1 and orr[0][2][1] == c("rb"))
    ctx.ob("C19.R3", sv, "pkl_save dumps the results object itself, pkl_load loads with the "
                         "same module; binary modes", ok, stmt="pickle symmetry")
    az = repo.func("liesel.experimental.arviz.to_arviz_inference_data")
    ra = evaluate(repo, az)
    fd = [t for t, _, _ in ra.calls if is_call(t, "arviz.from_dict")]
    ok = False
    if len(fd) == 1:
        postv = kw(fd[0], "posterior")
        wv = kw(fd[0], "warmup_posterior")
        ok = (postv == ("call", ("a", n("results"), "get_posterior_samples"), (), ())
              and wv is not None and wv[0] == "phi" and wv[1] == n("include_warmup")
              and wv[3] == c(None)
              and any(x[0] == "call" and x[1][0] == "a" and x[1][2] == "combine_filtered"
                      and x[1][1] == ("a", n("results"), "positions") for x in subterms(wv[2]))
              and kw(fd[0], "save_warmup") == n("include_warmup"))
    ctx.ob("C19.R3", az, "the ArviZ conversion hands get_posterior_samples() and (on request) "
                         "the warm-up part of the stored positions to az.from_dict unmodified",
           ok, detail=short(fd[0], 200) if fd else "", stmt="arviz conversion")
    warm = [x for x in subterms(kw(fd[0], "warmup_posterior") or ()) if x[0] == "lambda"] if fd else []
    ok = len(warm) == 1 and is_call(warm[0][2], f"{ETYPE}.is_warmup") is False and \
        warm[0][2][0] == "call" and warm[0][2][1][2] == "is_warmup"
    ctx.ob("C19.R3", az, "warm-up samples are selected with EpochType.is_warmup", ok)

    # ---- shared mechanisms: the neighbour's rules run as obligations of this property
    ctx.include("C08", "C19.R4", only=['C08.R5'])
    ctx.rule("R4", "shared mechanisms, run as obligations of this property: the posterior part of the stored chains is selected by epoch (C08.R5).")
