import ast

from .runner import (V, expr, expr_is, is_assign_to, is_expr_call, replace_expr,
                     replace_stmt, stmt)

E = "liesel/goose/epoch.py"
W = "liesel/goose/warmup.py"
B = "liesel/goose/builder.py"
A = "EpochManager.append"


def _drop_if(text):
    return (lambda nd: isinstance(nd, ast.If) and text in ast.unparse(nd.test)), (lambda nd: None)



def _split(nd, after):
    import copy as _c
    body = [s for s in nd.body if not (isinstance(s, ast.Expr) and isinstance(s.value, ast.Constant))]
    store = body[-1]
    checks = body[:-1]
    h = ast.FunctionDef(name="_check_valid", args=_c.deepcopy(nd.args), body=checks,
                        decorator_list=[], returns=None, type_comment=None, type_params=[])
    call = stmt("self._check_valid(config)")
    nd.body = ([store] + call) if after else (call + [store])
    return [nd, h]


def _is_stan(nd):
    return isinstance(nd, ast.FunctionDef) and nd.name == "stan_epochs"


def _decorate(src, imp=None):
    def repl(nd):
        nd.decorator_list = [expr(src)] + list(nd.decorator_list)
        return (stmt(imp) if imp else []) + [nd]
    return repl


def _hand_memo(nd):
    key = "(" + ", ".join(a.arg for a in nd.args.args) + ",)"
    doc = [s for s in nd.body[:1] if isinstance(s, ast.Expr) and isinstance(s.value, ast.Constant)]
    rest = nd.body[len(doc):]
    assert ast.unparse(rest[-1]) == "return epochs"
    nd.body = (doc + stmt(f"_key = {key}\nif _key in _SCHEDULES:\n    return _SCHEDULES[_key]")
               + rest[:-1] + stmt("_SCHEDULES[_key] = epochs\nreturn epochs"))
    return stmt("_SCHEDULES = {}") + [nd]

VARIANTS = [
    V("c16_no_first_guard", "M", E, A, *_drop_if("not self._configs and"),
      note="schedules not starting with INITIAL_VALUES accepted (or crash)", expect_rule="C16.R1"),
    V("c16_no_duration_guard", "M", E, A, *_drop_if("config.duration < 1"),
      note="duration 0 accepted", expect_rule="C16.R1"),
    V("c16_thin_le", "M", E, A,
      *replace_expr("config.duration < config.thinning", "config.duration <= config.thinning"),
      note="thinning == duration rejected", expect_rule="C16.R1"),
    V("c16_mod_any", "M", E, A,
      lambda nd: isinstance(nd, ast.If) and ast.unparse(nd.test) == "config.type == EpochType.POSTERIOR",
      lambda nd: nd.body,
      note="divisibility demanded for warm-up epochs too", expect_rule="C16.R1"),
    V("c16_warmup_after_post", "M", E, A, *_drop_if("EpochType.is_warmup(config.type)"),
      note="warm-up after posterior accepted", expect_rule="C16.R1"),
    V("c16_initial_dur", "M", E, A, *_drop_if("config.duration != 1"),
      note="INITIAL_VALUES with duration > 1 accepted", expect_rule="C16.R1"),
    V("c16_clock_leak", "M", E, A,
      lambda nd: isinstance(nd, ast.If) and ast.unparse(nd.test) == "config.thinning < 1",
      lambda nd: stmt("self._total = getattr(self, '_total', 0) + config.duration") + [nd],
      note="manager state written before the thinning checks", expect_rule="C16.R1"),
    V("c16_ptr_not_advanced", "M", E, "EpochManager.next",
      *replace_stmt("self._next_epoch_ptr += 1", None),
      note="same epoch handed out forever", expect_rule="C16.R2"),
    V("c16_start_time_after", "M", E, "EpochManager.next",
      *replace_stmt("start_time = self._next_start_time",
                    "start_time = self._next_start_time + config.duration"),
      note="start time includes the epoch's own duration", expect_rule="C16.R2"),
    V("c16_no_decrement", "M", W, "stan_epochs", *replace_stmt("time_left -= this_time", None),
      note="slow windows not subtracted: warm-up longer than requested", expect_rule="C16.R3"),
    V("c16_swap_types", "M", W, "stan_epochs",
      *replace_expr("_EpochConfig(EpochType.SLOW_ADAPTATION, time_left, thinning_warmup)",
                    "_EpochConfig(EpochType.FAST_ADAPTATION, time_left, thinning_warmup)"),
      note="last slow window typed FAST", expect_rule="C16.R3"),
    V("c16_post_thinning_in_warmup", "M", W, "stan_epochs",
      *replace_expr("_EpochConfig(EpochType.FAST_ADAPTATION, term_duration, thinning_warmup)",
                    "_EpochConfig(EpochType.FAST_ADAPTATION, term_duration, thinning_posterior)"),
      note="posterior thinning in a warm-up epoch", expect_rule="C16.R3"),
    V("c16_do_while", "M", W, "stan_epochs",
      lambda nd: isinstance(nd, ast.While),
      lambda nd: stmt("epochs.append(_EpochConfig(EpochType.SLOW_ADAPTATION, this_time, thinning_warmup))\n"
                      "time_left -= this_time\nthis_time *= 2") + [nd],
      note="first slow window appended without the 3*d guard", expect_rule="C16.R3"),
    V("c16_guard_2x", "M", W, "stan_epochs",
      *replace_expr("3 * this_time <= time_left", "this_time <= time_left"),
      note="weaker loop guard: the rest window can be 0", expect_rule="C16.R3"),
    V("c16_gcd_all", "M", B, "EngineBuilder.build",
      *replace_expr("math.gcd(*durations)", "max(durations)"),
      note="chunk does not divide the durations", expect_rule="C16.R4"),
    V("c16_guard_equality_rejected", "M", W, "stan_epochs",
      *replace_expr("warmup_duration < init_duration + term_duration + base_duration",
                    "warmup_duration <= init_duration + term_duration + base_duration"),
      note="the admissible equality case is rejected", expect_rule="C16.R3"),
    V("c16_guard_base_subtracted", "M", W, "stan_epochs",
      *replace_expr("warmup_duration < init_duration + term_duration + base_duration",
                    "warmup_duration < init_duration + term_duration - base_duration"),
      note="too short warm-ups are accepted", expect_rule="C16.R3"),
    V("c16_helper_validates_after_store", "M", E, "EpochManager",
      lambda nd: isinstance(nd, ast.FunctionDef) and nd.name == "append",
      lambda nd: _split(nd, after=True),
      note="the checks moved into a helper that runs AFTER the config was stored: a rejected "
           "epoch stays in the schedule", expect_rule="C16.R1"),
    V("c16_set_epochs_peeks", "M", B, "EngineBuilder.set_epochs",
      *replace_stmt("self._epochs = EpochManager(epochs)",
                    "has_post = any(e.type == EpochType.POSTERIOR for e in epochs)\n"
                    "self._epochs = EpochManager(epochs)"),
      note="a generator of configs is partly consumed before the manager sees it",
      expect_rule="C16.R4"),
    V("c16_config_post_init", "M", E, "EpochConfig",
      lambda nd: isinstance(nd, ast.FunctionDef) and nd.name == "to_state",
      lambda nd: stmt("def __post_init__(self):\n    self.thinning = self.thinning or 1") + [nd],
      note="thinning=0 is rewritten to 1 before it is validated", expect_rule="C16.R1"),
    # ---- twins
    V("c16_t_helper_validates_first", "T", E, "EpochManager",
      lambda nd: isinstance(nd, ast.FunctionDef) and nd.name == "append",
      lambda nd: _split(nd, after=False),
      note="the checks moved into a helper that runs before the config is stored"),
    V("c16_t_guard_reordered", "T", W, "stan_epochs",
      *replace_expr("warmup_duration < init_duration + term_duration + base_duration",
                    "base_duration + init_duration + term_duration > warmup_duration"),
      note="same guard"),
    V("c16_t_ge", "T", E, A,
      *replace_expr("config.duration < 1", "not config.duration >= 1"), note="negated spelling"),
    V("c16_t_flat_if", "T", E, A,
      lambda nd: isinstance(nd, ast.If) and ast.unparse(nd.test) == "config.type == EpochType.POSTERIOR",
      lambda nd: stmt("if config.type == EpochType.POSTERIOR and config.duration % config.thinning != 0:\n"
                      "    raise RuntimeError('Duration must be a multiple of thinning')"),
      note="nested ifs merged"),
    V("c16_t_ge_loop", "T", W, "stan_epochs",
      *replace_expr("3 * this_time <= time_left", "time_left >= 3 * this_time"), note="flipped guard"),
    V("c16_lru_cache", "M", W, "", _is_stan,
      _decorate("lru_cache(maxsize=128)", "from functools import lru_cache"),
      note="memoised schedule: the second call returns the first call's (edited) list",
      expect_rule="C16.R3"),
    V("c16_functools_cache", "M", W, "", _is_stan, _decorate("functools.cache", "import functools"),
      note="memoised schedule", expect_rule="C16.R3"),
    V("c16_hand_memo", "M", W, "", _is_stan, _hand_memo,
      note="hand-written memo table keyed by the arguments", expect_rule="C16.R3"),
    V("c16_t_no_type_check", "T", W, "", _is_stan,
      _decorate("no_type_check", "from typing import no_type_check"),
      note="a transparent decorator"),
]
