import ast

from .runner import (V, expr, expr_is, is_assign_to, replace_expr, replace_stmt, stmt)

M = "liesel/goose/mm.py"
N = "liesel/goose/nuts.py"
H = "liesel/goose/hmc.py"
E = "liesel/goose/engine.py"

OLD = ("return jnp.column_stack([jax.vmap(jnp.ravel, in_axes=0, out_axes=0)(x) "
       "for x in history.values()])")

VARIANTS = [
    V("c12_values_order", "M", M, "_history_to_matrix",
      lambda nd: isinstance(nd, ast.Return), lambda nd: stmt(OLD),
      note="revert to history.values() (insertion order = listed key order)",
      expect_rule="C12.R1"),
    V("c12_listed_order", "M", M, "_history_to_matrix",
      lambda nd: isinstance(nd, ast.Return),
      lambda nd: stmt("return jnp.column_stack([jax.vmap(jnp.ravel)(history[k]) for k in history])"),
      note="iterate the dict (insertion order)", expect_rule="C12.R1"),
    V("c12_whole_history_nuts", "M", N, "NUTSKernel._tune_slow",
      *replace_stmt("history = Position({k: history[k] for k in self.position_keys})", None),
      note="tuner sees other kernels' parameters", expect_rule="C12.R2"),
    V("c12_whole_history_hmc", "M", H, "HMCKernel._tune_slow",
      *replace_stmt("history = Position({k: history[k] for k in self.position_keys})", None),
      note="tuner sees other kernels' parameters", expect_rule="C12.R2"),
    V("c12_trace_diag", "M", N, "NUTSKernel._tune_slow",
      *replace_stmt("trace_fn = jnp.sum", "trace_fn = jnp.trace"),
      note="trace of a vector for the diagonal case", expect_rule="C12.R2"),
    V("c12_eye_wrong", "M", N, "NUTSKernel.init_state",
      *replace_expr("jnp.ones_like(flat_position)", "jnp.ones(len(self.position_keys))"),
      note="initial matrix sized by number of keys", expect_rule="C12.R1"),
    V("c12_hist_axis_none", "M", E, "Engine._tune_kernels",
      *replace_expr("(0, 0, 0, None, 0)", "(0, 0, 0, None, None)"),
      note="all chains tune on the pooled history array with a chain axis",
      expect_rule="C12.R3"),
    V("c12_store_old", "M", H, "HMCKernel._tune_slow",
      *replace_stmt("kernel_state.inverse_mass_matrix = new_inv_mm",
                    "kernel_state.inverse_mass_matrix = old_inv_mm"),
      note="tuned matrix dropped"),
    # ---- twins
    V("c12_t_sorted", "T", M, "_history_to_matrix",
      lambda nd: isinstance(nd, ast.Return),
      lambda nd: stmt("return jnp.column_stack([jax.vmap(jnp.ravel)(history[k]) "
                      "for k in sorted(history)])"),
      note="explicitly sorted keys"),
    V("c12_t_tree_leaves", "T", M, "_history_to_matrix",
      lambda nd: isinstance(nd, ast.Return),
      lambda nd: stmt("return jnp.column_stack([jax.vmap(jnp.ravel)(x) "
                      "for x in jax.tree_util.tree_leaves(history)])"),
      note="tree_leaves order"),
    V("c12_t_tmp", "T", N, "NUTSKernel._tune_slow",
      *replace_stmt("old_inv_mm = kernel_state.inverse_mass_matrix",
                    "previous = kernel_state.inverse_mass_matrix\nold_inv_mm = previous"),
      note="temporary"),
]
