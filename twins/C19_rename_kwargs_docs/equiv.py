"""
Deterministic exerciser for the error / sample bookkeeping of liesel.goose.

Runs several small MCMC schedules with kernels that emit a prescribed error-code
pattern (per chain and per iteration), then prints a digest of

- SamplingResults.get_error_log (all / posterior only),
- Summary.error_summary, Summary.error_df (merged / per chain), Summary.sample_info,
  the text / html / markdown representations,
- the pickle round trip and the ArviZ conversion (with and without warmup),
- the exceptional paths (no transition infos, no posterior epoch, unknown code).

Usage:  PYTHONPATH=<worktree> python equiv.py
"""

from __future__ import annotations

import hashlib
import logging
import os
import shutil
import tempfile
import warnings
from collections.abc import Sequence
from dataclasses import dataclass
from typing import ClassVar

warnings.filterwarnings("ignore")
logging.disable(logging.CRITICAL)

import jax  # noqa: E402
import jax.numpy as jnp  # noqa: E402
import numpy as np  # noqa: E402
import pandas as pd  # noqa: E402

from liesel.experimental.arviz import to_arviz_inference_data  # noqa: E402
from liesel.goose.builder import EngineBuilder  # noqa: E402
from liesel.goose.chain import EpochChainManager  # noqa: E402
from liesel.goose.engine import KernelErrorLog, SamplingResults  # noqa: E402
from liesel.goose.epoch import EpochConfig, EpochState, EpochType  # noqa: E402
from liesel.goose.interface import DictInterface  # noqa: E402
from liesel.goose.kernel import (  # noqa: E402
    DefaultTransitionInfo,
    ModelMixin,
    TransitionOutcome,
    TuningOutcome,
    WarmupOutcome,
)
from liesel.goose.pytree import register_dataclass_as_pytree  # noqa: E402
from liesel.goose.summary_m import Summary, _make_error_summary  # noqa: E402
from liesel.option import Option  # noqa: E402

pd.set_option("display.width", 250)
pd.set_option("display.max_columns", 50)
pd.set_option("display.max_rows", 500)

LINES: list[str] = []
TMP: list[str] = []


def out(*parts) -> None:
    line = " ".join(str(p) for p in parts)
    LINES.append(line)
    print(line)


def arr_digest(x) -> str:
    kind = type(x).__module__.split(".")[0] + "." + type(x).__name__
    a = np.asarray(x)
    h = hashlib.sha256(np.ascontiguousarray(a).tobytes()).hexdigest()[:16]
    small = a.tolist() if a.size <= 24 else "..."
    return f"<{kind} {a.dtype} {a.shape} {h} {small}>"


def tree_digest(tree) -> str:
    leaves, treedef = jax.tree_util.tree_flatten(tree)
    return str(treedef) + " :: " + " ".join(arr_digest(leaf) for leaf in leaves)


# --------------------------------------------------------------------------------------
# a kernel that returns a prescribed error code
# --------------------------------------------------------------------------------------


@register_dataclass_as_pytree
@dataclass
class PatState:
    pass


@register_dataclass_as_pytree
@dataclass
class PatTuningInfo:
    error_code: int
    time: int


class PatternKernel(ModelMixin):
    """Error code of chain ``c`` at time ``t`` is ``table[c, t]``."""

    error_book: ClassVar[dict[int, str]] = {
        0: "no errors",
        1: "error one",
        2: "error two",
        7: "error seven",
    }
    needs_history: ClassVar[bool] = False
    identifier: str = ""

    def __init__(self, position_keys: Sequence[str], table: np.ndarray):
        self._model = None
        self.position_keys = tuple(position_keys)
        self.table = jnp.asarray(table, dtype=jnp.int32)

    def init_state(self, prng_key, model_state):
        return PatState()

    def start_epoch(self, prng_key, kernel_state, model_state, epoch: EpochState):
        return kernel_state

    def end_epoch(self, prng_key, kernel_state, model_state, epoch: EpochState):
        return kernel_state

    def transition(self, prng_key, kernel_state, model_state, epoch: EpochState):
        position = self.model.extract_position(self.position_keys, model_state)
        for key in position:
            position[key] = position[key] + 1.0
        new_model_state = self.model.update_state(position, model_state)
        cid = model_state["cid"].astype(jnp.int32)
        code = self.table[cid, epoch.time]
        info = DefaultTransitionInfo(code, 1.0, 1)
        return TransitionOutcome(info, kernel_state, new_model_state)

    def tune(self, prng_key, kernel_state, model_state, epoch: EpochState, history):
        return TuningOutcome(PatTuningInfo(0, epoch.time), kernel_state)

    def end_warmup(self, prng_key, kernel_state, model_state, tuning_history):
        return WarmupOutcome(0, kernel_state)


def run(num_chains: int, epochs: list[EpochConfig], tables: list[np.ndarray]):
    builder = EngineBuilder(1, num_chains)
    state = {"cid": jnp.arange(num_chains, dtype=jnp.float32)}
    keys = []
    for i, _ in enumerate(tables):
        key = f"p{i}"
        shape = (2,) if i % 2 == 0 else ()
        state[key] = jnp.zeros((num_chains,) + shape) + 0.25 * i
        keys.append(key)
    for key, table in zip(keys, tables):
        builder.add_kernel(PatternKernel([key], table))
    builder.set_model(DictInterface(log_prob_fn=lambda s: 0.0))
    builder.set_initial_values(state, multiple_chains=True)
    builder.set_epochs(epochs)
    builder.show_progress = False
    engine = builder.build()
    engine.sample_all_epochs()
    return engine.get_results()


# --------------------------------------------------------------------------------------
# digests
# --------------------------------------------------------------------------------------


def show_error_log(tag: str, opt) -> None:
    out(tag, "type", type(opt).__name__, "is_none", opt.is_none())
    if opt.is_none():
        return
    log = opt.unwrap()
    out(tag, "keys", list(log.keys()))
    for name, kel in log.items():
        assert isinstance(kel, KernelErrorLog)
        out(tag, name, "fields", kel._fields)
        out(tag, name, "ident", repr(kel.kernel_ident))
        out(tag, name, "cls", repr(kel.kernel_cls.map(lambda c: c.__name__)))
        out(tag, name, "transition", arr_digest(kel.transition))
        out(tag, name, "codes", arr_digest(kel.error_codes))


def show_error_summary(tag: str, es) -> None:
    out(tag, "kernels", list(es.keys()))
    for kname, per_code in es.items():
        out(tag, kname, "codes", [(type(k).__name__, int(k)) for k in per_code])
        for code, entry in per_code.items():
            post = entry.count_per_chain_posterior
            out(
                tag,
                kname,
                type(entry).__name__,
                type(entry.error_code).__name__,
                int(entry.error_code),
                repr(entry.error_msg),
                arr_digest(entry.count_per_chain),
                "None" if post is None else arr_digest(post),
            )


def show_df(tag: str, df: pd.DataFrame) -> None:
    out(tag, "shape", df.shape, "index names", list(df.index.names))
    out(tag, "columns", list(df.columns), "dtypes", [str(t) for t in df.dtypes])
    out(tag, "index", [tuple(str(i) for i in ix) for ix in df.index.tolist()][:60])
    for line in df.to_string().splitlines():
        out(tag, "|", line)


def check_conservation(results: SamplingResults, summary: Summary) -> None:
    """The property itself: counts in the data frame match the stored codes."""
    all_tis = results.transition_infos.combine_all().unwrap()
    post_tis = results.get_posterior_transition_infos()
    df = summary.error_df(per_chain=True)
    for kname in all_tis:
        total = np.asarray(all_tis[kname].error_code)
        post = np.asarray(post_tis[kname].error_code)
        for code in np.unique(total):
            if code == 0:
                continue
            msg = PatternKernel.error_book[int(code)]
            for chain in range(total.shape[0]):
                n_all = int(np.sum(total[chain] == code))
                n_post = int(np.sum(post[chain] == code))
                got_post = df.loc[(kname, int(code), msg, "posterior", chain), "count"]
                got_warm = df.loc[(kname, int(code), msg, "warmup", chain), "count"]
                assert int(got_post) == n_post, (kname, code, chain)
                assert int(got_warm) == n_all - n_post, (kname, code, chain)
    out("conservation", "ok")


def exercise(tag: str, results: SamplingResults, tmpdir: str) -> None:
    out("=" * 20, tag)
    show_error_log(tag + " log-default", results.get_error_log())
    show_error_log(tag + " log-all", results.get_error_log(False))
    show_error_log(tag + " log-post", results.get_error_log(True))
    show_error_log(tag + " log-post-kw", results.get_error_log(posterior_only=True))

    out(tag, "samples", tree_digest(results.get_samples()))
    out(tag, "posterior", tree_digest(results.get_posterior_samples()))
    out(tag, "post-tis", tree_digest(results.get_posterior_transition_infos()))
    out(tag, "kernels_by_pos_key", results.get_kernels_by_pos_key())

    for per_chain in (False, True):
        summary = Summary(results, per_chain=per_chain)
        stag = f"{tag} summary[per_chain={per_chain}]"
        out(stag, "sample_info", {k: (type(v).__name__, int(v)) for k, v in summary.sample_info.items()})
        out(stag, "config", summary.config)
        out(stag, "kernels_by_pos_key", summary.kernels_by_pos_key)
        show_error_summary(stag + " es", summary.error_summary)
        show_df(stag + " error_df()", summary.error_df())
        show_df(stag + " error_df(False)", summary.error_df(False))
        show_df(stag + " error_df(per_chain=True)", summary.error_df(per_chain=True))
        show_df(stag + " _error_df()", summary._error_df())
        out(stag, "repr", hashlib.sha256(repr(summary).encode()).hexdigest())
        out(stag, "html", hashlib.sha256(summary._repr_html_().encode()).hexdigest())
        out(stag, "md", hashlib.sha256(summary._repr_markdown_().encode()).hexdigest())
        out(stag, "str", hashlib.sha256(str(summary).encode()).hexdigest())
        for line in repr(summary).splitlines():
            out(stag, "repr|", line)
        check_conservation(results, summary)

    # pickle round trip
    path = os.path.join(tmpdir, tag.replace(" ", "_") + ".pkl")
    ret = results.pkl_save(path)
    out(tag, "pkl_save returns", repr(ret), "size>0", os.path.getsize(path) > 0)
    loaded = SamplingResults.pkl_load(path)
    out(tag, "pkl type", type(loaded).__name__)
    out(tag, "pkl samples", tree_digest(loaded.get_samples()))
    out(tag, "pkl posterior", tree_digest(loaded.get_posterior_samples()))
    show_error_log(tag + " pkl log-all", loaded.get_error_log())
    show_error_log(tag + " pkl log-post", loaded.get_error_log(True))
    show_error_summary(tag + " pkl es", Summary(loaded).error_summary)
    same = jax.tree_util.tree_map(
        lambda a, b: bool(np.array_equal(np.asarray(a), np.asarray(b))),
        results.get_samples(),
        loaded.get_samples(),
    )
    out(tag, "pkl equal", same)

    # arviz
    for include_warmup in (False, True):
        if include_warmup:
            idat = to_arviz_inference_data(results, include_warmup=True)
        else:
            idat = to_arviz_inference_data(results)
        atag = f"{tag} arviz[warmup={include_warmup}]"
        out(atag, "type", type(idat).__name__, "groups", idat.groups())
        for group in idat.groups():
            ds = idat[group]
            attrs = {
                k: v
                for k, v in ds.attrs.items()
                if k not in ("created_at", "arviz_version")
            }
            out(atag, group, "attrs", sorted(attrs.items()))
            out(atag, group, "dims", sorted((str(k), int(v)) for k, v in ds.sizes.items()))
            for var in sorted(ds.data_vars):
                out(atag, group, var, ds[var].dims, arr_digest(ds[var].values))
    idat_pos = to_arviz_inference_data(results, True)
    out(tag, "arviz positional groups", idat_pos.groups())


def guarded(tag: str, fn) -> None:
    try:
        val = fn()
    except Exception as exc:  # noqa: BLE001
        msg = str(exc).replace(TMP[0], "<tmp>") if TMP else str(exc)
        cut = msg.find(" in SamplingResults(")
        if cut >= 0:
            msg = msg[:cut] + " in SamplingResults(...)"
        out(tag, "raised", type(exc).__name__, repr(msg[:120]))
    else:
        out(tag, "returned", type(val).__name__)
        return val


# --------------------------------------------------------------------------------------
# scenarios
# --------------------------------------------------------------------------------------


def table_from(num_chains: int, total: int, entries) -> np.ndarray:
    table = np.zeros((num_chains, total + 2), dtype=np.int32)
    for chain, time, code in entries:
        table[chain, time] = code
    return table


def main() -> None:
    tmp = tempfile.mkdtemp(prefix="c19_equiv_")
    TMP.append(tmp)

    # S1: three chains, two kernels, errors in warmup and in the posterior
    epochs1 = [
        EpochConfig(EpochType.INITIAL_VALUES, 1, 1, None),
        EpochConfig(EpochType.BURNIN, 12, 1, None),
        EpochConfig(EpochType.POSTERIOR, 20, 1, None),
    ]
    rng = np.random.default_rng(19)
    t_a = rng.choice([0, 0, 0, 1, 2], size=(3, 40)).astype(np.int32)
    t_b = table_from(3, 40, [(0, 3, 7), (1, 3, 7), (2, 20, 1), (2, 21, 1), (0, 30, 2)])
    exercise("S1 mixed", run(3, epochs1, [t_a, t_b]), tmp)

    # S2: single chain, warmup-only errors, second kernel without any error
    t_a = table_from(1, 40, [(0, 1, 1), (0, 2, 1), (0, 5, 2), (0, 11, 7)])
    t_b = table_from(1, 40, [])
    exercise("S2 warmup-only single chain", run(1, epochs1, [t_a, t_b]), tmp)

    # S3: two chains, posterior-only errors, several warmup epochs, thinning
    epochs3 = [
        EpochConfig(EpochType.INITIAL_VALUES, 1, 1, None),
        EpochConfig(EpochType.FAST_ADAPTATION, 6, 1, None),
        EpochConfig(EpochType.SLOW_ADAPTATION, 6, 2, None),
        EpochConfig(EpochType.BURNIN, 6, 1, None),
        EpochConfig(EpochType.POSTERIOR, 12, 3, None),
    ]
    t_a = table_from(2, 40, [(c, t, 1 + (t + c) % 2) for c in (0, 1) for t in range(18, 31, 2)])
    exercise("S3 posterior-only thinning", run(2, epochs3, [t_a]), tmp)

    # S4: no errors at all, three kernels
    z = table_from(2, 40, [])
    exercise("S4 no errors", run(2, epochs1, [z, z, z]), tmp)

    # S5: all transitions fail in every chain, two posterior epochs
    epochs5 = [
        EpochConfig(EpochType.INITIAL_VALUES, 1, 1, None),
        EpochConfig(EpochType.BURNIN, 4, 1, None),
        EpochConfig(EpochType.POSTERIOR, 4, 1, None),
        EpochConfig(EpochType.POSTERIOR, 8, 1, None),
    ]
    t_a = np.full((4, 40), 2, dtype=np.int32)
    exercise("S5 all fail", run(4, epochs5, [t_a]), tmp)

    # S6: a code that is missing in the error book -> KeyError when summarising
    t_a = table_from(2, 40, [(1, 15, 3), (0, 2, 1)])
    res6 = run(2, epochs1, [t_a])
    out("=" * 20, "S6 unknown code")
    show_error_log("S6 log-all", res6.get_error_log())
    show_error_log("S6 log-post", res6.get_error_log(True))
    guarded("S6 Summary", lambda: Summary(res6))

    # S7: hand-made results (numpy leaves, no kernel classes)
    out("=" * 20, "S7 hand-made")
    errs = np.array([0, 0, 1, 0, 0, 0, 1, 1, 0, 2, 2, 0]).reshape((2, -1))
    ti = DefaultTransitionInfo(errs, np.zeros((2, 6)), np.zeros((2, 6), np.int8))

    def handmade(epoch_type, with_data=True):
        em = EpochChainManager()
        em.advance_epoch(EpochConfig(epoch_type, 6, 1, None))
        if with_data:
            em.append({"kern0": ti, "kern1": ti})
        return SamplingResults(
            EpochChainManager(),
            em,
            Option.none(),
            Option.none(),
            Option.none(),
            Option.none(),
            Option.none(),
            Option.none(),
        )

    sr_post = handmade(EpochType.POSTERIOR)
    show_error_log("S7 post-epoch log-all", sr_post.get_error_log())
    show_error_log("S7 post-epoch log-post", sr_post.get_error_log(True))
    es = _make_error_summary(sr_post.get_error_log(False).unwrap(), sr_post.get_error_log(True))
    show_error_summary("S7 post-epoch es", es)

    sr_warm = handmade(EpochType.BURNIN)
    show_error_log("S7 warm-epoch log-all", sr_warm.get_error_log())
    opt = sr_warm.get_error_log(True)
    show_error_log("S7 warm-epoch log-post", opt)
    out("S7 warm-epoch log-post value", repr(opt))
    es = _make_error_summary(sr_warm.get_error_log().unwrap(), opt)
    show_error_summary("S7 warm-epoch es (no posterior)", es)
    es = _make_error_summary(sr_warm.get_error_log().unwrap(), Option.none())
    show_error_summary("S7 warm-epoch es (Option.none)", es)
    es = _make_error_summary({}, Option.none())
    out("S7 empty log es", es)

    sr_empty = handmade(EpochType.POSTERIOR, with_data=False)
    guarded("S7 empty log-all", lambda: sr_empty.get_error_log())
    guarded("S7 empty log-all False", lambda: sr_empty.get_error_log(False))
    res = guarded("S7 empty log-post", lambda: sr_empty.get_error_log(True))
    out("S7 empty log-post value", repr(res))
    guarded("S7 empty posterior samples", lambda: sr_empty.get_posterior_samples())
    guarded("S7 empty samples", lambda: sr_empty.get_samples())
    guarded("S7 empty post tis", lambda: sr_empty.get_posterior_transition_infos())
    guarded("S7 empty kernels_by_pos_key", lambda: sr_empty.get_kernels_by_pos_key())
    guarded("S7 empty tuning times", lambda: sr_empty.get_tuning_times())
    guarded("S7 empty arviz", lambda: to_arviz_inference_data(sr_empty))
    guarded("S7 pkl_load missing", lambda: SamplingResults.pkl_load(os.path.join(tmp, "nope.pkl")))

    # S8: results without warmup epochs (only initial values + posterior)
    epochs8 = [
        EpochConfig(EpochType.INITIAL_VALUES, 1, 1, None),
        EpochConfig(EpochType.POSTERIOR, 10, 1, None),
    ]
    t_a = table_from(2, 40, [(0, 0, 1), (1, 4, 2), (1, 5, 2)])
    res8 = run(2, epochs8, [t_a])
    out("=" * 20, "S8 no warmup epochs")
    show_error_log("S8 log-all", res8.get_error_log())
    show_error_log("S8 log-post", res8.get_error_log(True))
    s8 = Summary(res8)
    out("S8 sample_info", {k: (type(v).__name__, float(v)) for k, v in s8.sample_info.items()})
    show_error_summary("S8 es", s8.error_summary)
    show_df("S8 error_df", s8.error_df())
    show_df("S8 error_df per chain", s8.error_df(per_chain=True))
    guarded("S8 arviz warmup", lambda: to_arviz_inference_data(res8, include_warmup=True))
    idat = to_arviz_inference_data(res8)
    out("S8 arviz groups", idat.groups())

    shutil.rmtree(tmp, ignore_errors=True)
    out("TOTAL", hashlib.sha256("\n".join(LINES).encode()).hexdigest())


if __name__ == "__main__":
    main()
