"""
Deterministic equivalence driver for the RW / IWLS / MH kernels, mh_step and the
IWLS utilities.

Run from the worktree root with the worktree on PYTHONPATH:

    PYTHONPATH=$PWD /venv/bin/python _twin/<name>/equiv.py

It prints one line per scenario with a SHA-256 digest of every output leaf (dtype,
shape and raw bytes), plus digests of the traced jaxprs of the kernels' transition
functions.  Two library versions are behaviourally identical on these scenarios iff
the printed text is identical.
"""

import hashlib
import itertools
import os
import re
import warnings

import jax
import jax.numpy as jnp
import numpy as np

import liesel.goose as gs
from liesel.goose import iwls_utils
from liesel.goose.epoch import EpochConfig, EpochType
from liesel.goose.mh import mh_step
from liesel.goose.mh_kernel import MHProposal
from liesel.option import Option

warnings.simplefilter("error")  # a new (or vanished) warning must show up


# --------------------------------------------------------------------------------------
# digest helpers
# --------------------------------------------------------------------------------------


def digest(tree) -> str:
    h = hashlib.sha256()
    leaves, treedef = jax.tree_util.tree_flatten(tree)
    h.update(str(treedef).encode())
    for leaf in leaves:
        if isinstance(leaf, Option):  # not a pytree: digest the wrapped value
            h.update(b"Option")
            h.update(digest(leaf.value).encode())
            continue
        if isinstance(leaf, type):
            h.update(("type " + leaf.__module__ + "." + leaf.__qualname__).encode())
            continue
        if isinstance(leaf, str):
            h.update(("str " + leaf).encode())
            continue
        arr = np.asarray(leaf)
        if arr.dtype == object:
            raise TypeError(f"cannot digest a leaf of type {type(leaf)!r}")
        h.update(str(arr.dtype).encode())
        h.update(str(arr.shape).encode())
        h.update(arr.tobytes())
    return h.hexdigest()[:24]


def text_digest(text: str) -> str:
    # printed jaxprs contain ``<function ... at 0x7f...>`` for custom_jvp thunks;
    # the addresses differ from process to process and are masked
    text = re.sub(r"0x[0-9a-fA-F]+", "0xADDR", text)
    return hashlib.sha256(text.encode()).hexdigest()[:24]


def emit(label: str, value: str) -> None:
    print(f"{label:<72s} {value}")


def guarded(fn):
    """Returns a digest of the result or of the exception type + message."""
    try:
        return digest(fn())
    except Exception as exc:  # noqa: BLE001
        return "EXC " + type(exc).__name__ + " " + text_digest(str(exc))


# --------------------------------------------------------------------------------------
# 1. IWLS utilities
# --------------------------------------------------------------------------------------


def spd_chol(dim: int, seed: int):
    rng = np.random.default_rng(seed)
    a = rng.normal(size=(dim, dim))
    prec = a @ a.T + dim * np.eye(dim)
    return jnp.asarray(np.linalg.cholesky(prec), dtype=jnp.float32)


def section_utils() -> None:
    for dim, seed in itertools.product([1, 2, 5], [0, 1]):
        chol = spd_chol(dim, seed)
        rng = np.random.default_rng(100 + seed)
        x = jnp.asarray(rng.normal(size=dim), dtype=jnp.float32)
        mean = jnp.asarray(rng.normal(size=dim), dtype=jnp.float32)
        key = jax.random.PRNGKey(seed)
        for mode, wrap in (("eager", lambda f: f), ("jit", jax.jit)):
            emit(
                f"utils/solve d={dim} s={seed} {mode}",
                guarded(lambda: wrap(iwls_utils.solve)(chol, x)),
            )
            emit(
                f"utils/mvn_log_prob d={dim} s={seed} {mode}",
                guarded(lambda: wrap(iwls_utils.mvn_log_prob)(x, mean, chol)),
            )
            emit(
                f"utils/mvn_log_prob(kw) d={dim} s={seed} {mode}",
                guarded(
                    lambda: wrap(iwls_utils.mvn_log_prob)(
                        x=x, mean=mean, chol_inv_cov=chol
                    )
                ),
            )
            emit(
                f"utils/mvn_sample d={dim} s={seed} {mode}",
                guarded(lambda: wrap(iwls_utils.mvn_sample)(key, mean, chol)),
            )
            emit(
                f"utils/mvn_sample(kw) d={dim} s={seed} {mode}",
                guarded(
                    lambda: wrap(iwls_utils.mvn_sample)(
                        prng_key=key, mean=mean, chol_inv_cov=chol
                    )
                ),
            )
            emit(
                f"utils/solve(kw) d={dim} s={seed} {mode}",
                guarded(lambda: wrap(iwls_utils.solve)(chol_lhs=chol, rhs=x)),
            )
    emit(
        "utils/triangular_solve alias",
        str(iwls_utils.triangular_solve is jax.lax.linalg.triangular_solve),
    )
    # shape errors must stay the same exceptions
    emit(
        "utils/solve shape mismatch",
        guarded(lambda: iwls_utils.solve(spd_chol(2, 0), jnp.ones(3))),
    )
    emit(
        "utils/mvn_log_prob shape mismatch",
        guarded(
            lambda: iwls_utils.mvn_log_prob(jnp.ones(3), jnp.ones(3), spd_chol(2, 0))
        ),
    )


# --------------------------------------------------------------------------------------
# 2. models (all with analytic gradient and Hessian)
# --------------------------------------------------------------------------------------

_rng = np.random.default_rng(7)
_X = jnp.asarray(
    np.column_stack([np.ones(12), _rng.uniform(-1, 1, size=(12, 2))]),
    dtype=jnp.float32,
)
_counts = jnp.asarray(_rng.poisson(2.0, size=12), dtype=jnp.float32)
_ybin = jnp.asarray(_rng.integers(0, 2, size=12), dtype=jnp.float32)


def lp_scalar_normal(ms):
    # N(1.5, 0.7^2), one scalar key
    return -0.5 * ((ms["x"] - 1.5) / 0.7) ** 2


def lp_vector_poisson(ms):
    # Poisson regression with N(0, 1) prior, one vector key
    eta = _X @ ms["b"]
    return jnp.sum(_counts * eta - jnp.exp(eta)) - 0.5 * jnp.sum(ms["b"] ** 2)


def lp_multi_logit(ms):
    # logistic regression, coefficients spread over a scalar, a vector and a matrix key
    coef = jnp.concatenate([jnp.atleast_1d(ms["a"]), ms["b"]])
    eta = _X @ coef
    ll = jnp.sum(_ybin * eta - jnp.logaddexp(0.0, eta))
    prior = -0.5 * jnp.sum(coef**2) - 0.5 * jnp.sum((ms["m"] - 0.25) ** 2) * 2.0
    return ll + prior


def lp_nan_region(ms):
    # log-density that is nan for x <= 0 (log of a negative number)
    return 2.0 * jnp.log(ms["x"]) - ms["x"]


def lp_inf_region(ms):
    # uniform-ish: -inf outside of (-0.5, 0.5), quadratic inside
    inside = jnp.abs(ms["x"]) < 0.5
    return jnp.where(inside, -0.5 * ms["x"] ** 2, -jnp.inf)


def f32(x):
    return jnp.asarray(x, dtype=jnp.float32)


MODELS = {
    "scalar_normal": (
        lp_scalar_normal,
        {"x": f32(0.3), "untouched": f32([1.0, 2.0])},
        ["x"],
    ),
    "vector_poisson": (
        lp_vector_poisson,
        {"b": f32([0.2, -0.1, 0.4]), "untouched": f32(3.0)},
        ["b"],
    ),
    "multi_logit": (
        lp_multi_logit,
        {
            "a": f32(0.1),
            "b": f32([0.3, -0.2]),
            "m": f32([[0.0, 0.5], [0.25, -0.25]]),
        },
        ["a", "b", "m"],
    ),
    "multi_logit_partial": (
        lp_multi_logit,
        {
            "a": f32(0.1),
            "b": f32([0.3, -0.2]),
            "m": f32([[0.0, 0.5], [0.25, -0.25]]),
        },
        ["m", "a"],
    ),
    "nan_region": (lp_nan_region, {"x": f32(0.4)}, ["x"]),
    "inf_region": (lp_inf_region, {"x": f32(0.45)}, ["x"]),
}


# --------------------------------------------------------------------------------------
# 3. kernels
# --------------------------------------------------------------------------------------


def make_sym_proposal(keys):
    def proposal_fn(key, model_state, step_size):
        pos = {}
        for i, k in enumerate(keys):
            sub = jax.random.fold_in(key, i)
            val = model_state[k]
            pos[k] = val + step_size * jax.random.normal(sub, jnp.shape(val))
        return MHProposal(position=pos, log_correction=0.0)

    return proposal_fn


def make_asym_proposal(keys):
    """Drifting Gaussian proposal: x' ~ N(x + s, s^2), correction is analytic."""

    def proposal_fn(key, model_state, step_size):
        pos = {}
        corr = 0.0
        for i, k in enumerate(keys):
            sub = jax.random.fold_in(key, i)
            val = model_state[k]
            mean_fwd = val + step_size
            new = mean_fwd + step_size * jax.random.normal(sub, jnp.shape(val))
            fwd = jax.scipy.stats.norm.logpdf(new, mean_fwd, step_size).sum()
            bwd = jax.scipy.stats.norm.logpdf(val, new + step_size, step_size).sum()
            corr = corr + (bwd - fwd)
            pos[k] = new
        return MHProposal(position=pos, log_correction=corr)

    return proposal_fn


class AttrProposal:
    """A proposal object that is *not* a tuple, only has the two attributes."""

    def __init__(self, position, log_correction):
        self.position = position
        self.log_correction = log_correction


def make_attr_proposal(keys):
    inner = make_asym_proposal(keys)

    def proposal_fn(key, model_state, step_size):
        prop = inner(key, model_state, step_size)
        return AttrProposal(prop.position, prop.log_correction)

    return proposal_fn


def make_chol_info_fn(log_prob, keys, template):
    """User-supplied information: Cholesky of the negative Hessian plus a ridge."""
    from jax.flatten_util import ravel_pytree

    _, unravel = ravel_pytree({k: template[k] for k in keys})

    def chol_info_fn(model_state):
        flat, _ = ravel_pytree({k: model_state[k] for k in keys})

        def flat_lp(fp):
            return log_prob({**model_state, **unravel(fp)})

        info = -jax.hessian(flat_lp)(flat) + 0.5 * jnp.eye(flat.shape[0])
        return jnp.linalg.cholesky(info)

    return chol_info_fn


def kernels_for(name, log_prob, state, keys):
    out = {
        "rw": gs.RWKernel(keys),
        "rw_opts": gs.RWKernel(
            keys, 0.3, da_target_accept=0.4, da_gamma=0.1, da_kappa=0.6, da_t0=5
        ),
        "mh_sym": gs.MHKernel(keys, make_sym_proposal(keys)),
        "mh_asym": gs.MHKernel(keys, make_asym_proposal(keys), 0.5),
        "mh_asym_da": gs.MHKernel(
            keys,
            make_asym_proposal(keys),
            initial_step_size=0.5,
            da_tune_step_size=True,
            da_target_accept=0.3,
        ),
        "mh_attr": gs.MHKernel(keys, make_attr_proposal(keys), 0.5),
        "iwls": gs.IWLSKernel(keys),
        "iwls_opts": gs.IWLSKernel(
            keys, None, 0.7, da_target_accept=0.6, da_gamma=0.1, da_kappa=0.6, da_t0=5
        ),
    }
    if name not in ("nan_region", "inf_region"):
        out["iwls_userinfo"] = gs.IWLSKernel(
            keys, make_chol_info_fn(log_prob, keys, state), initial_step_size=0.9
        )
    return out


def epoch_state(epoch_type, time_in_epoch):
    cfg = EpochConfig(epoch_type, duration=50, thinning=1, optional=None)
    es = cfg.to_state(nth_epoch=1, time_before_epoch=20)
    es.advance_time(time_in_epoch)
    return es


STEP_SIZES = [None, 1e-3, 0.25, 1.0, 3.0]  # None: the kernel's initial step size
EPOCHS = [
    ("posterior", EpochType.POSTERIOR, 0),
    ("burnin", EpochType.BURNIN, 3),
    ("fast", EpochType.FAST_ADAPTATION, 0),
    ("slow", EpochType.SLOW_ADAPTATION, 7),
]


def run_transition(kernel, fn, key, model_state, step_size, epoch):
    kstate = kernel.init_state(key, model_state)
    if step_size is not None:
        kstate.step_size = f32(step_size)
    outcome = fn(key, kstate, model_state, epoch)
    return (outcome.info, outcome.kernel_state, outcome.model_state)


def section_kernels() -> None:
    for mname, (log_prob, state, keys) in MODELS.items():
        model = gs.DictInterface(log_prob)
        for kname, kernel in kernels_for(mname, log_prob, state, keys).items():
            kernel.set_model(model)
            emit(
                f"kernel/{mname}/{kname} attrs",
                text_digest(
                    repr(
                        (
                            kernel.position_keys,
                            kernel.initial_step_size,
                            kernel.da_target_accept,
                            kernel.da_gamma,
                            kernel.da_kappa,
                            kernel.da_t0,
                            kernel.identifier,
                            kernel.needs_history,
                            sorted(kernel.error_book.items()),
                            sorted(vars(kernel)),
                        )
                    )
                ),
            )
            emit(
                f"kernel/{mname}/{kname} init_state",
                guarded(lambda: kernel.init_state(jax.random.PRNGKey(0), state)),
            )

            # jaxpr of the public transition (both branches of the adaptation cond)
            def traced():
                ks = kernel.init_state(jax.random.PRNGKey(0), state)
                ep = epoch_state(EpochType.FAST_ADAPTATION, 2)
                return str(
                    jax.make_jaxpr(kernel.transition)(
                        jax.random.PRNGKey(0), ks, state, ep
                    )
                )

            try:
                emit(f"kernel/{mname}/{kname} jaxpr", text_digest(traced()))
            except Exception as exc:  # noqa: BLE001
                emit(f"kernel/{mname}/{kname} jaxpr", "EXC " + type(exc).__name__)

            jitted = jax.jit(kernel.transition)  # compiled once per kernel
            for seed in range(4):
                key = jax.random.PRNGKey(1000 + seed)
                for step in STEP_SIZES:
                    for ename, etype, tie in EPOCHS:
                        ep = epoch_state(etype, tie)
                        # jitted public entry point
                        emit(
                            f"kernel/{mname}/{kname} transition jit "
                            f"k={seed} s={step} e={ename}",
                            guarded(
                                lambda: run_transition(
                                    kernel, jitted, key, state, step, ep
                                )
                            ),
                        )
                    # eager private entry points
                    if seed >= 2 or step in (1e-3, 3.0):
                        continue
                    ep = epoch_state(EpochType.SLOW_ADAPTATION, 4)
                    for method in ("_standard_transition", "_adaptive_transition"):
                        emit(
                            f"kernel/{mname}/{kname} {method} eager k={seed} s={step}",
                            guarded(
                                lambda: run_transition(
                                    kernel,
                                    getattr(kernel, method),
                                    key,
                                    state,
                                    step,
                                    ep,
                                )
                            ),
                        )

            # a short chain driven by hand: state is fed back, so accepted moves,
            # rejected moves and the dual averaging updates compound
            def chain():
                ks = kernel.init_state(jax.random.PRNGKey(0), state)
                ms = state
                trans = jitted
                trace = []
                for t in range(25):
                    etype = EpochType.FAST_ADAPTATION if t < 15 else EpochType.POSTERIOR
                    ep = epoch_state(etype, t % 15)
                    if t in (0, 15):
                        ks = kernel.start_epoch(jax.random.PRNGKey(5), ks, ms, ep)
                    out = trans(jax.random.PRNGKey(2000 + t), ks, ms, ep)
                    ks, ms = out.kernel_state, out.model_state
                    trace.append((out.info, ks, ms))
                    if t == 14:
                        tun = kernel.tune(jax.random.PRNGKey(6), ks, ms, ep)
                        trace.append((tun.info, tun.kernel_state))
                        ks = kernel.end_epoch(jax.random.PRNGKey(7), ks, ms, ep)
                        wo = kernel.end_warmup(jax.random.PRNGKey(8), ks, ms, None)
                        trace.append((wo.error_code, wo.kernel_state))
                return trace

            emit(f"kernel/{mname}/{kname} chain", guarded(chain))

            # plain-text coverage summary: accepted / rejected moves, error codes
            try:
                infos = [t[0] for t in chain() if hasattr(t[0], "position_moved")]
                moved = sum(int(i.position_moved) for i in infos)
                codes = sorted({int(i.error_code) for i in infos})
                accs = [float(i.acceptance_prob) for i in infos]
                summary = (
                    f"moved={moved}/{len(infos)} codes={codes} "
                    f"acc_min={min(accs):.6g} acc_max={max(accs):.6g}"
                )
            except Exception as exc:  # noqa: BLE001
                summary = "EXC " + type(exc).__name__
            emit(f"kernel/{mname}/{kname} chain summary", summary)

    # kernel without a model: same exception as before
    for kernel in (
        gs.RWKernel(["x"]),
        gs.IWLSKernel(["x"]),
        gs.MHKernel(["x"], make_sym_proposal(["x"])),
    ):
        emit(
            f"kernel/no-model/{type(kernel).__name__}",
            guarded(
                lambda: run_transition(
                    kernel,
                    kernel._standard_transition,
                    jax.random.PRNGKey(0),
                    {"x": f32(0.0)},
                    None,
                    epoch_state(EpochType.POSTERIOR, 0),
                )
            ),
        )


# --------------------------------------------------------------------------------------
# 4. mh_step directly
# --------------------------------------------------------------------------------------


def section_mh_step() -> None:
    model = gs.DictInterface(lp_scalar_normal)
    state = MODELS["scalar_normal"][1]
    corrections = [
        None,
        0.0,
        -0.3,
        5.0,
        f32(0.7),
        jnp.inf,
        -jnp.inf,
        jnp.nan,
        np.float64(0.25),
        3,
    ]
    for i, corr in enumerate(corrections):
        for prop in (0.3, 1.5, 2.9, -40.0, jnp.nan, jnp.inf):
            for mode, wrap in (("eager", lambda f: f), ("jit", jax.jit)):

                def call():
                    key = jax.random.PRNGKey(i)
                    proposal = {"x": f32(prop)}
                    if corr is None:
                        fn = wrap(lambda k, p, s: mh_step(k, model, p, s))
                        info, ms = fn(key, proposal, state)
                    else:
                        fn = wrap(lambda k, p, s, c: mh_step(k, model, p, s, c))
                        info, ms = fn(key, proposal, state, corr)
                    return info, ms

                emit(f"mh_step corr#{i}={corr} prop={prop} {mode}", guarded(call))

    def kw_call():
        info, ms = mh_step(
            prng_key=jax.random.PRNGKey(3),
            model=model,
            proposal={"x": f32(1.0)},
            model_state=state,
            log_correction=-0.1,
        )
        return info, ms

    emit("mh_step keywords", guarded(kw_call))

    def jaxpr():
        return str(
            jax.make_jaxpr(lambda k, p, s, c: mh_step(k, model, p, s, c))(
                jax.random.PRNGKey(0), {"x": f32(1.0)}, state, f32(0.2)
            )
        )

    emit("mh_step jaxpr", text_digest(jaxpr()))


# --------------------------------------------------------------------------------------
# 5. the engine end to end
# --------------------------------------------------------------------------------------


def section_engine() -> None:
    log_prob, state, keys = MODELS["vector_poisson"]
    specs = {
        "rw": lambda: gs.RWKernel(keys),
        "iwls": lambda: gs.IWLSKernel(keys),
        "iwls_userinfo": lambda: gs.IWLSKernel(
            keys, make_chol_info_fn(log_prob, keys, state)
        ),
        "mh_asym_da": lambda: gs.MHKernel(
            keys, make_asym_proposal(keys), 0.3, da_tune_step_size=True
        ),
        "mh_asym": lambda: gs.MHKernel(keys, make_asym_proposal(keys), 0.3),
    }
    for name, make in specs.items():

        def run():
            builder = gs.EngineBuilder(seed=11, num_chains=2)
            builder.add_kernel(make())
            builder.set_model(gs.DictInterface(log_prob))
            builder.set_initial_values(state)
            builder.set_duration(warmup_duration=200, posterior_duration=60)
            builder.show_progress = False
            engine = builder.build()
            engine.sample_all_epochs()
            results = engine.get_results()
            return (
                results.get_posterior_samples(),
                results.get_samples(),
                results.get_posterior_transition_infos(),
                results.get_tuning_times(),
                results.get_error_log(False),
            )

        emit(f"engine/{name}", guarded(run))


def main() -> None:
    import liesel

    emit("jax", jax.__version__)
    # the copy under test must be the one on PYTHONPATH, not the installed package
    root = os.path.realpath(os.environ.get("PYTHONPATH", "").split(os.pathsep)[0])
    imported = os.path.realpath(liesel.__file__)
    emit("liesel imported from PYTHONPATH", str(imported.startswith(root + os.sep)))
    section_utils()
    section_mh_step()
    section_kernels()
    section_engine()


if __name__ == "__main__":
    main()
