"""
Deterministic exerciser for the blockwise kernel composition (property C09).

Prints one line per scenario with a sha256 digest over the raw bytes of every
result array (chains, transition infos, kernel states, error codes), so two
runs agree iff every number is bit-identical.  No path is hard-coded: the
library is whatever ``import liesel`` resolves to (set PYTHONPATH).
"""

import dataclasses
import hashlib
import logging
import os
import re
import warnings

os.environ.setdefault("JAX_PLATFORMS", "cpu")
warnings.filterwarnings("ignore")
logging.disable(logging.CRITICAL)

import jax  # noqa: E402
import jax.numpy as jnp  # noqa: E402
import numpy as np  # noqa: E402
import tensorflow_probability.substrates.jax.distributions as tfd  # noqa: E402

import liesel.goose as gs  # noqa: E402
import liesel.model as lsl  # noqa: E402
from liesel.goose.epoch import EpochConfig, EpochType  # noqa: E402
from liesel.goose.kernel_sequence import KernelSequence  # noqa: E402
from liesel.goose.mh import mh_step  # noqa: E402
from liesel.goose.types import Position  # noqa: E402
from liesel.goose.warmup import stan_epochs  # noqa: E402


def digest(tree) -> str:
    h = hashlib.sha256()
    leaves, treedef = jax.tree_util.tree_flatten(tree)
    h.update(str(treedef).encode())
    for leaf in leaves:
        arr = np.asarray(leaf)
        h.update(str(arr.dtype).encode())
        h.update(str(arr.shape).encode())
        h.update(np.ascontiguousarray(arr).tobytes())
    return h.hexdigest()[:24]


def show(label, tree):
    print(f"{label:<46s} {digest(tree)}")


def outcome(label, fn):
    try:
        res = fn()
    except Exception as exc:  # noqa: BLE001
        msg = re.sub(r"0x[0-9a-f]+", "0x..", str(exc))
        print(f"{label:<46s} raised {type(exc).__name__}: {msg}")
    else:
        show(label, res)


# ---------------------------------------------------------------------------
# models
# ---------------------------------------------------------------------------

rng = np.random.default_rng(7)
N = 25
X = np.column_stack([np.ones(N), rng.uniform(-1, 1, size=N)]).astype(np.float32)
Y = (X @ np.array([0.5, -1.0]) + 0.3 * rng.normal(size=N)).astype(np.float32)


def liesel_model():
    beta = lsl.param(
        jnp.zeros(2), lsl.Dist(tfd.Normal, loc=0.0, scale=10.0), name="beta"
    )
    log_sigma = lsl.param(
        jnp.array(0.0), lsl.Dist(tfd.Normal, loc=0.0, scale=3.0), name="log_sigma"
    )
    shift = lsl.param(
        jnp.array(0.1), lsl.Dist(tfd.Normal, loc=0.0, scale=1.0), name="shift"
    )
    xobs = lsl.obs(X, name="X")
    mu = lsl.Var(
        lsl.Calc(lambda x, b, s: x @ b + s, xobs, beta, shift), name="mu"
    )
    sigma = lsl.Var(lsl.Calc(jnp.exp, log_sigma), name="sigma")
    y = lsl.obs(Y, lsl.Dist(tfd.Normal, loc=mu, scale=sigma), name="y")
    return lsl.GraphBuilder().add(y).build_model()


def dict_log_prob(state):
    mu = state["X"] @ state["beta"] + state["shift"]
    sigma = jnp.exp(state["log_sigma"])
    lp = jnp.sum(jax.scipy.stats.norm.logpdf(state["y"], mu, sigma))
    lp += jnp.sum(jax.scipy.stats.norm.logpdf(state["beta"], 0.0, 10.0))
    lp += jax.scipy.stats.norm.logpdf(state["log_sigma"], 0.0, 3.0)
    lp += jax.scipy.stats.norm.logpdf(state["shift"], 0.0, 1.0)
    return lp


def dict_state():
    return {
        "X": jnp.asarray(X),
        "y": jnp.asarray(Y),
        "beta": jnp.zeros(2),
        "log_sigma": jnp.array(0.0),
        "shift": jnp.array(0.1),
    }


def gibbs_shift(model, liesel):
    def draw(prng_key, model_state):
        pos = model.extract_position(["beta", "log_sigma"], model_state)
        centre = 0.1 * jnp.tanh(jnp.sum(pos["beta"])) - 0.05 * pos["log_sigma"]
        return {"shift": centre + 0.2 * jax.random.normal(prng_key)}

    return draw


def mh_proposal(model):
    # asymmetric proposal with a non-trivial correction
    def propose(key, model_state, step_size):
        cur = model.extract_position(["log_sigma"], model_state)["log_sigma"]
        z = jax.random.normal(key)
        new = cur + step_size * (z + 0.25)
        fwd = -0.5 * z**2
        zb = (cur - new) / step_size - 0.25
        bwd = -0.5 * zb**2
        return gs.MHProposal({"log_sigma": new}, bwd - fwd)

    return propose


def kernel_sets():
    return {
        "iwls+gibbs+rw": lambda m, L: [
            gs.IWLSKernel(["beta"]),
            gs.GibbsKernel(["shift"], gibbs_shift(m, L)),
            gs.RWKernel(["log_sigma"]),
        ],
        "rw+nuts+gibbs": lambda m, L: [
            gs.RWKernel(["log_sigma"]),
            gs.NUTSKernel(["beta"], max_treedepth=4),
            gs.GibbsKernel(["shift"], gibbs_shift(m, L)),
        ],
        "gibbs+hmc+mh": lambda m, L: [
            gs.GibbsKernel(["shift"], gibbs_shift(m, L)),
            gs.HMCKernel(["beta"], num_integration_steps=5),
            gs.MHKernel(["log_sigma"], mh_proposal(m)),
        ],
    }


def run_engine(label, liesel, make_kernels, seed):
    if liesel:
        model = liesel_model()
        interface = gs.LieselInterface(model)
        state = model.state
    else:
        interface = gs.DictInterface(dict_log_prob)
        state = dict_state()

    builder = gs.EngineBuilder(seed, num_chains=2)
    for ker in make_kernels(interface, liesel):
        builder.add_kernel(ker)
    builder.set_model(interface)
    builder.set_initial_values(state)
    builder.set_epochs(
        stan_epochs(
            warmup_duration=70,
            posterior_duration=25,
            init_duration=15,
            term_duration=15,
            base_duration=10,
        )
    )
    if liesel:
        builder.positions_included = ["mu", "sigma", "_model_log_prob", "y_log_prob"]
    engine = builder.build()
    engine.sample_all_epochs()
    results = engine.get_results()
    samples = results.get_samples()
    show(f"{label} samples", dict(samples))
    show(f"{label} infos", results.transition_infos.combine_all().unwrap())
    show(f"{label} tuning", results.tuning_infos.unwrap().get().unwrap())
    show(f"{label} final kstates", engine._kernel_states)
    show(f"{label} final mstate", engine._model_states)
    # coherence of the final recorded state (cheap sanity output)
    if liesel:
        last = {k: np.asarray(v)[0, -1] for k, v in samples.items()}
        pos = {k: last[k] for k in ("beta", "log_sigma", "shift")}
        fresh = interface.update_state(Position(pos), model.state)
        ok = np.array_equal(
            np.asarray(fresh["_model_log_prob"].value), last["_model_log_prob"]
        )
        print(f"{label:<46s} coherent={ok}")


# ---------------------------------------------------------------------------
# direct (unjitted) use of the kernel sequence and of mh_step
# ---------------------------------------------------------------------------


def manual_sequence(label, liesel, make_kernels, seed, jit):
    if liesel:
        model = liesel_model()
        interface = gs.LieselInterface(model)
        mstate = model.state
    else:
        interface = gs.DictInterface(dict_log_prob)
        mstate = dict_state()

    kernels = make_kernels(interface, liesel)
    for i, ker in enumerate(kernels):
        ker.set_model(interface)
        ker.identifier = f"kernel_{i:02d}"
    kseq = KernelSequence(kernels)
    assert kseq.get_kernels() == kernels

    key = jax.random.PRNGKey(seed)
    keys = jax.random.split(key, 40)
    kstates = kseq.init_states(keys[0], mstate)
    show(f"{label} init", kstates)

    configs = [
        EpochConfig(EpochType.INITIAL_VALUES, 1, 1, None),
        EpochConfig(EpochType.FAST_ADAPTATION, 4, 1, None),
        EpochConfig(EpochType.SLOW_ADAPTATION, 4, 1, None),
        EpochConfig(EpochType.POSTERIOR, 4, 1, None),
    ]
    trans = jax.jit(kseq.transition) if jit else kseq.transition
    t = 0
    ki = 1
    tune_infos = None
    trail = []
    for nr, cfg in enumerate(configs[1:], start=1):
        epoch = cfg.to_state(nr, t)
        kstates = kseq.start_epoch(keys[ki], kstates, mstate, epoch)
        ki += 1
        for _ in range(cfg.duration):
            epoch.time_in_epoch += 1
            res = trans(keys[ki], kstates, mstate, epoch)
            ki += 1
            mstate, kstates = res.model_state, res.kernel_states
            trail.append((mstate, kstates, res.infos))
        t += cfg.duration
        kstates = kseq.end_epoch(keys[ki], kstates, mstate, epoch)
        ki += 1
        if EpochType.is_adaptation(cfg.type):
            tres = kseq.tune(keys[ki], kstates, mstate, epoch, None)
            ki += 1
            kstates, tune_infos = tres.kernel_states, tres.infos
            trail.append((kstates, tune_infos))
            if cfg.type == EpochType.SLOW_ADAPTATION:
                for hist in (None, tune_infos):
                    wres = kseq.end_warmup(keys[ki], kstates, mstate, hist)
                    ki += 1
                    trail.append((wres.kernel_states, wres.error_codes))
                kstates = wres.kernel_states
    show(f"{label} trail", trail)
    print(f"{label:<46s} info order {list(res.infos)}")

    # boundary: fewer kernel states than kernels
    epoch = configs[-1].to_state(3, t)
    outcome(
        f"{label} short states",
        lambda: kseq.transition(keys[ki], kstates[:-1], mstate, epoch),
    )
    outcome(
        f"{label} short start_epoch",
        lambda: kseq.start_epoch(keys[ki], kstates[:1], mstate, epoch),
    )
    outcome(
        f"{label} missing history",
        lambda: kseq.end_warmup(keys[ki], kstates, mstate, {"kernel_00": None}),
    )


def sequence_constructor_cases():
    a, b = gs.RWKernel(["x"]), gs.RWKernel(["y"])
    outcome("kseq empty identifier", lambda: KernelSequence([a, b]).get_kernels())
    a.identifier = b.identifier = "same"
    outcome("kseq duplicate identifier", lambda: KernelSequence([a, b]).get_kernels())
    b.identifier = "other"
    outcome("kseq ok", lambda: len(KernelSequence((a, b)).get_kernels()))
    outcome("kseq none", lambda: len(KernelSequence([]).get_kernels()))
    empty = KernelSequence([])
    outcome(
        "kseq none transition",
        lambda: empty.transition(jax.random.PRNGKey(0), [], {"x": 1.0}, None),
    )
    outcome("kernel without model", lambda: a.model)
    outcome("kernel has_model", lambda: (a.has_model(), b.has_model()))


def mh_cases():
    interface = gs.DictInterface(dict_log_prob)
    state = dict_state()
    cases = {
        "better": ({"beta": jnp.array([0.5, -1.0])}, 0.0),
        "much worse": ({"beta": jnp.array([30.0, 30.0])}, 0.0),
        "slightly worse": ({"log_sigma": jnp.array(0.05)}, 0.0),
        "equal": ({"beta": jnp.zeros(2)}, 0.0),
        "nan proposal": ({"beta": jnp.array([jnp.nan, 0.0])}, 0.0),
        "nan correction": ({"beta": jnp.zeros(2)}, jnp.nan),
        "inf correction": ({"log_sigma": jnp.array(0.02)}, jnp.inf),
        "-inf correction": ({"beta": jnp.array([0.5, -1.0])}, -jnp.inf),
        "corrected": ({"log_sigma": jnp.array(0.3)}, 1.25),
    }
    for name, (prop, corr) in cases.items():
        for seed in range(6):
            key = jax.random.PRNGKey(seed)
            for jit in (False, True):
                fn = jax.jit(mh_step, static_argnums=1) if jit else mh_step
                info, new = fn(key, interface, prop, state, corr)
                show(f"mh {name} seed={seed} jit={jit}", (info, new))
                print(
                    f"   code={int(info.error_code)} acc={float(info.acceptance_prob)!r}"
                    f" moved={bool(info.position_moved)}"
                )
    info, new = mh_step(jax.random.PRNGKey(3), interface, {"shift": 0.3}, state)
    show("mh default correction", (info, new))

    model = liesel_model()
    li = gs.LieselInterface(model)
    for seed in (0, 1, 2, 3):
        for prop in (
            {"beta": jnp.array([0.4, -0.9])},
            {"log_sigma": jnp.array(0.4)},
            {"shift": jnp.array(5.0)},
        ):
            info, new = mh_step(jax.random.PRNGKey(seed), li, prop, model.state)
            show(f"mh liesel {list(prop)[0]} seed={seed}", (info, new))


def interface_cases():
    @dataclasses.dataclass
    class DState:
        x: float
        y: float

    di = gs.DataclassInterface(lambda s: -(s.x**2) - s.y**2)
    s0 = DState(1.0, 2.0)
    s1 = di.update_state({"x": 3.0, "y": -1.0}, s0)
    print("dataclass", s0, s1, di.log_prob(s1), di.extract_position(["y"], s1))
    outcome("dataclass missing field", lambda: di.update_state({"x": 0.0, "z": 1}, s0))
    print("dataclass after failure", s0)

    model = liesel_model()
    li = gs.LieselInterface(model)
    st = li.update_state({"beta": jnp.array([1.0, 2.0]), "shift_value": 0.7}, model.state)
    show("liesel update var+node", st)
    show("liesel extract", li.extract_position(["beta", "mu", "sigma_value"], st))
    outcome("liesel unknown key", lambda: li.update_state({"nope": 1.0}, model.state))
    outcome("liesel extract unknown", lambda: li.extract_position(["nope"], st))
    show("liesel empty position", li.update_state({}, st))

    ker = gs.RWKernel(["beta", "log_sigma"])
    ker.set_model(li)
    show("mixin position", ker.position(st))
    f = ker.log_prob_fn(st)
    p = {"beta": jnp.array([0.2, 0.1]), "log_sigma": jnp.array(-0.3)}
    show("mixin log_prob_fn", f(p))
    show("mixin grad", jax.grad(f)(p))
    show("mixin jit value_and_grad", jax.jit(jax.value_and_grad(f))(p))


def main(engine_seeds=(1, 2), manual=True):
    sets = kernel_sets()
    for name, make in sets.items():
        for liesel in (True, False):
            for seed in engine_seeds:
                tag = f"{name} {'lsl' if liesel else 'dict'} s{seed}"
                run_engine(f"engine {tag}", liesel, make, seed)
    if manual:
        for name, make in sets.items():
            for liesel in (True, False):
                tag = f"{name} {'lsl' if liesel else 'dict'}"
                manual_sequence(f"manual-jit {tag}", liesel, make, 11, jit=True)
        for liesel in (True, False):
            tag = "lsl" if liesel else "dict"
            manual_sequence(
                f"manual-nojit iwls+gibbs+rw {tag}", liesel, sets["iwls+gibbs+rw"], 5, False
            )
    sequence_constructor_cases()
    mh_cases()
    interface_cases()


if __name__ == "__main__":
    main()
