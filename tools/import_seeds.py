#!/usr/bin/env python3
"""
Copies confirmed seeded changes from the sub-agents' scratch worktrees into
/verif/seeded/<PROP>_<name>/ (patch.diff, demo, notes, meta.json) and records which of
the checks report them.  Usage: tools/import_seeds.py [/tmp/wt]
"""
import json
import os
import shutil
import subprocess
import sys

HERE = os.path.dirname(os.path.dirname(os.path.abspath(__file__)))
ROOTS = sys.argv[1:] or ["/tmp/wt", "/tmp/wt2", "/tmp/wt3"]
BUILT = [l.strip() for l in open(os.path.join(HERE, "tools", "built.txt")) if l.strip()]


def run_checks(patch):
    assert not subprocess.run(["git", "-C", "/repo", "status", "--porcelain", "--", "liesel"],
                              capture_output=True, text=True).stdout.strip(), "/repo dirty"
    subprocess.run(["git", "-C", "/repo", "apply", patch], check=True)
    hits = {}
    try:
        for p in BUILT:
            r = subprocess.run(["python3-vt", "-m", "lsa", "check", p, "--no-selftest"],
                               cwd=HERE, capture_output=True, text=True)
            if r.returncode != 0:
                lines = [l for l in r.stdout.splitlines() if " -- " in l and "[" in l]
                hits[p] = {"exit": r.returncode, "reports": [l[:300] for l in lines[:4]]}
    finally:
        subprocess.run(["git", "-C", "/repo", "checkout", "--", "."], check=True)
    return hits


def main():
    out_root = os.path.join(HERE, "seeded")
    os.makedirs(out_root, exist_ok=True)
    rows = []
    # re-measure the seeds that are already committed (their scratch origin may be gone)
    done = set()
    for d in sorted(os.listdir(out_root)):
        mp = os.path.join(out_root, d, "meta.json")
        if os.path.isfile(mp):
            meta = json.load(open(mp))
            hits = run_checks(os.path.join(out_root, d, "patch.diff"))
            meta["detected_by"], meta["reports"] = sorted(hits), hits
            json.dump(meta, open(mp, "w"), indent=1)
            rows.append((meta["property"], meta["name"], sorted(hits)))
            done.add(d)
            print(meta["property"], meta["name"], "->", sorted(hits) or "MISSED")
    pairs = []
    for SRC in ROOTS:
        if not os.path.isdir(SRC):
            continue
        for prop in sorted(os.listdir(SRC)):
            sd = os.path.join(SRC, prop, "_seed")
            if os.path.isdir(sd):
                pairs.append((SRC, prop, sd))
    for SRC, prop, sd in pairs:
        for name in sorted(os.listdir(sd)):
            if f"{prop}_{name}" in done:
                continue
            d = os.path.join(sd, name)
            cj = os.path.join(d, "confirm.json")
            if not (os.path.isfile(os.path.join(d, "patch.diff")) and os.path.isfile(cj)):
                continue
            conf = json.load(open(cj))
            if not conf.get("confirmed"):
                print("skip (not confirmed)", prop, name)
                continue
            dst = os.path.join(out_root, f"{prop}_{name}")
            os.makedirs(dst, exist_ok=True)
            for f in ("patch.diff", "demo.py", "test_demo.py", "harness.py", "notes.md"):
                if os.path.isfile(os.path.join(d, f)):
                    shutil.copy(os.path.join(d, f), os.path.join(dst, f))
            hits = run_checks(os.path.join(dst, "patch.diff"))
            notes = open(os.path.join(d, "notes.md")).read() if os.path.isfile(
                os.path.join(d, "notes.md")) else ""
            meta = {
                "property": prop,
                "name": name,
                "origin": "written by an independent sub-agent that saw only the property "
                          "text and a scratch worktree of /repo (nothing from /verif)"
                          + ("; second round: told which earlier seeds to avoid repeating"
                             if SRC.endswith("wt2") else ""),
                "needs_to_manifest": _needs(notes),
                "confirmed_by_me": {
                    "how": "tools/confirm_seed.sh in a fresh scratch worktree of /repo: demo at "
                           "HEAD, demo with the patch, full pinned test suite with the patch",
                    "demo_exit_at_head": conf["demo_rc_at_head"],
                    "demo_exit_with_patch": conf["demo_rc_with_patch"],
                    "suite_with_patch": conf["suite_summary"],
                },
                "ran": "git -C /repo apply patch.diff; ./check <P> --tier quick for every "
                       "claimed property; git -C /repo checkout -- .",
                "detected_by": sorted(hits),
                "reports": hits,
            }
            json.dump(meta, open(os.path.join(dst, "meta.json"), "w"), indent=1)
            rows.append((prop, name, sorted(hits)))
            print(prop, name, "->", sorted(hits) or "MISSED")
    json.dump([{"property": p, "name": n, "detected_by": h} for p, n, h in rows],
              open(os.path.join(out_root, "INDEX.json"), "w"), indent=1)


def _needs(notes: str) -> str:
    low = notes.lower()
    for key in ("needs", "trigger", "manifest"):
        i = low.find(key)
        if i >= 0:
            return " ".join(notes[i:i + 600].split())[:500]
    return " ".join(notes.split())[:300]


if __name__ == "__main__":
    main()
