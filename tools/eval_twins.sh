#!/bin/bash
# usage: tools/eval_twins.sh /tmp/tw1  -- every <root>/<P>/_twin/<name>/patch.diff is a change an
# independent sub-agent wrote as behaviour-preserving; all checks must stay silent on it.
# Prints the checks that alarm (rc 1) or break (rc 2) per patch.
root="$1"
for P in $(ls "$root" | grep -v prompt); do
  for d in "$root"/$P/_twin/*/; do
    [ -f "$d/patch.diff" ] || continue
    [ -f "$d/.evaluated" ] && [ -z "$FORCE" ] && continue
    r=$(/verif/tools/eval_seed_scratch.sh "$d/patch.diff" 2>&1 | grep -E "^== " | sed 's/== //; s/ rc=/:/' | tr '\n' ' ')
    echo "$P $(basename $d): ${r:-silent}"
    echo "${r:-silent}" > "$d/.evaluated"
  done
done
