import ast

from .runner import (V, expr, expr_is, is_assign_to, is_expr_call, replace_expr,
                     replace_stmt, stmt)

K = "liesel/goose/kernel.py"
N = "liesel/goose/nuts.py"
H = "liesel/goose/hmc.py"
B = "liesel/goose/builder.py"

VARIANTS = [
    V("c04_old_state_density", "M", K, "ModelMixin.log_prob_fn.log_prob_fn",
      *replace_stmt("return self.model.log_prob(new_model_state)",
                    "return self.model.log_prob(model_state)"),
      note="the density handed to blackjax is flat (ignores the position)", expect_rule="C04.R1"),
    V("c04_swapped_update_args", "M", K, "ModelMixin.log_prob_fn.log_prob_fn",
      *replace_expr("self.model.update_state(position, model_state)",
                    "self.model.update_state(self.position(model_state), model_state)"),
      note="closure re-inserts the old position", expect_rule="C04.R1"),
    V("c04_nuts_returns_input", "M", N, "NUTSKernel._standard_transition",
      *replace_stmt("model_state = self.model.update_state(blackjax_state.position, model_state)",
                    "new_state = self.model.update_state(blackjax_state.position, model_state)"),
      note="the move is computed and dropped", expect_rule="C04.R3"),
    V("c04_hmc_writes_old_position", "M", H, "HMCKernel._standard_transition",
      *replace_expr("self.model.update_state(blackjax_state.position, model_state)",
                    "self.model.update_state(self.position(model_state), model_state)"),
      note="old position written back", expect_rule="C04.R3"),
    V("c04_steps_hardcoded", "M", H, "HMCKernel._standard_transition",
      *replace_expr("self._blackjax_kernel(logdensity_fn=log_prob_fn, step_size=kernel_state.step_size, "
                    "inverse_mass_matrix=kernel_state.inverse_mass_matrix, "
                    "num_integration_steps=self.num_integration_steps)",
                    "self._blackjax_kernel(logdensity_fn=log_prob_fn, step_size=kernel_state.step_size, "
                    "inverse_mass_matrix=kernel_state.inverse_mass_matrix, num_integration_steps=10)"),
      note="user's num_integration_steps ignored during sampling", expect_rule="C04.R2"),
    V("c04_initial_step_size", "M", N, "NUTSKernel._standard_transition",
      *replace_expr("step_size=kernel_state.step_size", "step_size=self.initial_step_size"),
      note="placeholder"),
    V("c04_no_dup_check", "M", B, "EngineBuilder.build",
      lambda nd: isinstance(nd, ast.If) and "dupl.is_some()" in ast.unparse(nd.test), lambda nd: None,
      note="two kernels may claim one position key", expect_rule="C04.R4"),
    V("c04_dup_first_kernel_only", "M", B, "EngineBuilder.build",
      *replace_expr("_find_duplicate(pos_keys)", "_find_duplicate(list(self._kernels[0].position_keys))"),
      note="duplicates checked within the first kernel only", expect_rule="C04.R4"),
    # ---- twins
    V("c04_t_kw", "T", K, "ModelMixin.log_prob_fn.log_prob_fn",
      *replace_expr("self.model.update_state(position, model_state)",
                    "self.model.update_state(model_state=model_state, position=position)"),
      note="keyword arguments"),
    V("c04_t_tmp", "T", N, "NUTSKernel._standard_transition",
      *replace_stmt("log_prob_fn = self.log_prob_fn(model_state)",
                    "target = self.log_prob_fn(model_state)\nlog_prob_fn = target"),
      note="temporary"),
]
VARIANTS = [v for v in VARIANTS if v.vid != "c04_initial_step_size"]
VARIANTS.append(V("c04_step_size_init", "M", N, "NUTSKernel._standard_transition",
                  lambda nd: isinstance(nd, ast.keyword) and nd.arg == "step_size",
                  lambda nd: ast.keyword(arg="step_size", value=expr("self.initial_step_size")),
                  note="tuned step size ignored", expect_rule="C04.R2"))
