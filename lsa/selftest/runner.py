"""
Self-test of the checkers, both directions.

Every variant is an AST-computed edit of the *current* /repo source applied to a
scratch copy (outside /repo and /verif, removed afterwards):

  kind 'M' (mutant)  the edit breaks the property's mechanism; the check must report
                     at least one violated obligation of that property.
  kind 'T' (twin)    a behaviour-preserving refactor; the check must stay silent.

A variant whose site cannot be found (because /repo was edited) is recorded as
skipped and never affects the verdict on /repo itself.
"""

from __future__ import annotations

import ast
import copy
import importlib
import json
import os
import shutil
import subprocess
import tempfile
import traceback
from concurrent.futures import ProcessPoolExecutor
from dataclasses import dataclass
from typing import Callable


@dataclass
class Variant:
    vid: str
    kind: str  # 'M' or 'T'
    file: str  # path relative to the repo root
    scope: str  # dotted path of nested defs/classes inside the file, '' = module
    find: Callable[[ast.AST], bool]
    repl: Callable[[ast.AST], object]  # -> AST node | list of stmts | None (delete)
    note: str = ""
    expect_rule: str | None = None  # optional: rule id that must be among the reports
    nth: int = 0  # which match to edit


def _find_scope(tree: ast.Module, scope: str, kind_hint=None):
    node = tree
    if not scope:
        return node
    for part in scope.split("."):
        want_setter = part.endswith("#setter")
        part_name = part.replace("#setter", "")
        found = None
        for st in ast.walk(node) if node is tree and False else _defs(node):
            if st.name == part_name:
                if isinstance(st, ast.FunctionDef):
                    is_setter = any(isinstance(d, ast.Attribute) and d.attr == "setter"
                                    for d in st.decorator_list)
                    if is_setter != want_setter:
                        continue
                found = st
                break
        if found is None:
            return None
        node = found
    return node


def _defs(node):
    """Direct (possibly conditionally nested) defs/classes of a scope."""
    stack = list(getattr(node, "body", []))
    while stack:
        st = stack.pop(0)
        if isinstance(st, (ast.FunctionDef, ast.AsyncFunctionDef, ast.ClassDef)):
            yield st
        else:
            for f in ("body", "orelse", "finalbody"):
                stack.extend(getattr(st, f, []) or [])
            for h in getattr(st, "handlers", []) or []:
                stack.extend(h.body)


class _Editor(ast.NodeTransformer):
    def __init__(self, find, repl, nth):
        self.find, self.repl, self.nth = find, repl, nth
        self.seen = 0
        self.done = False

    def generic_visit(self, node):
        return super().generic_visit(node)

    def visit(self, node):
        if not self.done:
            try:
                hit = self.find(node)
            except Exception:
                hit = False
            if hit:
                if self.seen == self.nth:
                    self.done = True
                    new = self.repl(copy.deepcopy(node))
                    if new is None:
                        return ast.Pass() if isinstance(node, ast.stmt) else node
                    return new
                self.seen += 1
        return self.generic_visit(node)


def apply_variant(v: Variant, root: str) -> bool:
    path = os.path.join(root, v.file)
    with open(path, encoding="utf-8") as fh:
        src = fh.read()
    tree = ast.parse(src)
    scope = _find_scope(tree, v.scope)
    if scope is None:
        return False
    ed = _Editor(v.find, v.repl, v.nth)
    if scope is tree:
        ed.visit(tree)
    else:
        # edit inside the scope only (do not replace the scope node itself)
        for fieldname, value in ast.iter_fields(scope):
            if isinstance(value, list):
                new_list = []
                for item in value:
                    if isinstance(item, ast.AST):
                        r = ed.visit(item)
                        if isinstance(r, list):
                            new_list.extend(r)
                        elif r is not None:
                            new_list.append(r)
                    else:
                        new_list.append(item)
                setattr(scope, fieldname, new_list)
            elif isinstance(value, ast.AST):
                setattr(scope, fieldname, ed.visit(value))
    if not ed.done:
        return False
    ast.fix_missing_locations(tree)
    out = ast.unparse(tree)
    compile(out, v.file, "exec")  # must still compile
    with open(path, "w", encoding="utf-8") as fh:
        fh.write(out)
    return True


def _run_one(args):
    prop, vid, root = args
    # imported here: runs in a worker process
    from ..__main__ import run_rules
    from ..core.loader import AnalysisError
    from ..core.report import load_known, match_known
    try:
        ctx = run_rules(prop, root, "quick")
    except AnalysisError as e:
        return vid, "analysis-error", [str(e)]
    except Exception:
        return vid, "crash", [traceback.format_exc()[-800:]]
    known = load_known()
    bad = [o for o in ctx.obligations if not o.ok and not match_known(o, prop, known)]
    if not bad and ctx.min_failures:
        return vid, "analysis-error", list(ctx.min_failures)
    return vid, "violation" if bad else "pass", [
        f"{o.where} {o.construct} {o.rule} {o.what} -- {o.detail}"[:400] for o in bad]


def seeded_for(prop: str):
    base = os.path.join(os.path.dirname(os.path.dirname(os.path.dirname(
        os.path.abspath(__file__)))), "seeded")
    out = []
    if not os.path.isdir(base):
        return out
    for d in sorted(os.listdir(base)):
        mp = os.path.join(base, d, "meta.json")
        pp = os.path.join(base, d, "patch.diff")
        if os.path.isfile(mp) and os.path.isfile(pp):
            try:
                meta = json.load(open(mp))
            except Exception:
                continue
            if prop in meta.get("detected_by", []):
                out.append(("seed_" + d, pp))
    return out


def twins_for(prop: str):
    """Independently written behaviour-preserving patches (committed under /verif/twins)
    this property's check is on record as silent for."""
    base = os.path.join(os.path.dirname(os.path.dirname(os.path.dirname(
        os.path.abspath(__file__)))), "twins")
    out = []
    if not os.path.isdir(base):
        return out
    for d in sorted(os.listdir(base)):
        mp = os.path.join(base, d, "meta.json")
        pp = os.path.join(base, d, "patch.diff")
        if os.path.isfile(mp) and os.path.isfile(pp):
            try:
                meta = json.load(open(mp))
            except Exception:
                continue
            if prop in meta.get("silent_for", []):
                out.append(("twin_" + d, pp))
    return out


def variants_for(prop: str) -> list[Variant]:
    try:
        mod = importlib.import_module(f"lsa.selftest.v_{prop.lower()}")
    except ModuleNotFoundError:
        return []
    return list(mod.VARIANTS)


def run_selftest(prop: str, repo_root: str, jobs: int = 16, verbose: bool = False,
                 only: str | None = None) -> dict:
    variants = variants_for(prop)
    if only:
        variants = [v for v in variants if v.vid == only]
    summary = {"mutants": 0, "detected": 0, "twins": 0, "silent": 0,
               "skipped_site_not_found": 0, "failures": [], "details": {},
               "seeded_changes": len(seeded_for(prop))}
    if not variants and not seeded_for(prop) and not twins_for(prop):
        return summary
    base = "/dev/shm" if os.path.isdir("/dev/shm") and os.access("/dev/shm", os.W_OK) \
        else tempfile.gettempdir()
    scratch = tempfile.mkdtemp(prefix="lsa_selftest_", dir=base)
    try:
        tasks = []
        for v in variants:
            root = os.path.join(scratch, v.vid)
            shutil.copytree(os.path.join(repo_root, "liesel"), os.path.join(root, "liesel"),
                            ignore=shutil.ignore_patterns("__pycache__"))
            try:
                found = apply_variant(v, root)
            except SyntaxError as e:
                summary["failures"].append(f"{v.vid}: variant does not compile: {e}")
                continue
            if not found:
                summary["skipped_site_not_found"] += 1
                summary["details"][v.vid] = "skipped (site not found)"
                continue
            tasks.append((prop, v.vid, root))
            # independently seeded changes (committed under /verif/seeded) that this
        # property's check is on record as reporting: regression corpus
        for sid, patch in seeded_for(prop):
            if only and only != sid:
                continue
            root = os.path.join(scratch, sid)
            shutil.copytree(os.path.join(repo_root, "liesel"), os.path.join(root, "liesel"),
                            ignore=shutil.ignore_patterns("__pycache__"))
            r = subprocess.run(["git", "apply", "-p1", patch], cwd=root,
                               capture_output=True, text=True)
            if r.returncode != 0:
                summary["skipped_site_not_found"] += 1
                summary["details"][sid] = "skipped (patch does not apply to this tree)"
                continue
            variants.append(Variant(sid, "M", "", "", None, None,
                                    note="independently seeded change (see seeded/)"))
            tasks.append((prop, sid, root))
        for tid, patch in twins_for(prop):
            if only and only != tid:
                continue
            root = os.path.join(scratch, tid)
            shutil.copytree(os.path.join(repo_root, "liesel"), os.path.join(root, "liesel"),
                            ignore=shutil.ignore_patterns("__pycache__"))
            r = subprocess.run(["git", "apply", "-p1", patch], cwd=root,
                               capture_output=True, text=True)
            if r.returncode != 0:
                summary["skipped_site_not_found"] += 1
                summary["details"][tid] = "skipped (patch does not apply to this tree)"
                continue
            variants.append(Variant(tid, "T", "", "", None, None,
                                    note="independent behaviour-preserving change (see twins/)"))
            tasks.append((prop, tid, root))
        by_id = {v.vid: v for v in variants}
        with ProcessPoolExecutor(max_workers=max(1, min(jobs, len(tasks) or 1))) as ex:
            for vid, status, msgs in ex.map(_run_one, tasks):
                v = by_id[vid]
                summary["details"][vid] = {"kind": v.kind, "status": status,
                                           "note": v.note, "reports": msgs[:3]}
                if v.kind == "M":
                    summary["mutants"] += 1
                    hit = status == "violation"
                    if hit and v.expect_rule:
                        hit = any(v.expect_rule in m for m in msgs)
                    if hit:
                        summary["detected"] += 1
                    else:
                        summary["failures"].append(
                            f"{vid}: mutant not detected (status={status}) -- {v.note}"
                            + (f" {msgs[:1]}" if msgs else ""))
                else:
                    summary["twins"] += 1
                    if status == "pass":
                        summary["silent"] += 1
                    else:
                        summary["failures"].append(
                            f"{vid}: refactor twin raised an alarm (status={status}) -- "
                            f"{v.note} {msgs[:2]}")
                if verbose:
                    print(f"  {vid:28s} {v.kind} {status:14s} {msgs[0][:150] if msgs else ''}")
    finally:
        shutil.rmtree(scratch, ignore_errors=True)
    return summary


# ------------------------------------------------------------------ edit helpers


def expr(src: str) -> ast.expr:
    return ast.parse(src, mode="eval").body


def stmt(src: str) -> list[ast.stmt]:
    return ast.parse(src).body


def is_assign_to(node, name: str) -> bool:
    if isinstance(node, ast.Assign):
        return any(ast.unparse(t) == name for t in node.targets)
    if isinstance(node, (ast.AnnAssign, ast.AugAssign)):
        return ast.unparse(node.target) == name
    return False


def is_call_named(node, name: str) -> bool:
    return isinstance(node, ast.Call) and ast.unparse(node.func) == name


def is_expr_call(node, name: str) -> bool:
    return isinstance(node, ast.Expr) and is_call_named(node.value, name)


def src_is(node, text: str) -> bool:
    try:
        return ast.unparse(node) == ast.unparse(ast.parse(text).body[0])
    except Exception:
        return False


def expr_is(node, text: str) -> bool:
    try:
        return isinstance(node, ast.expr) and ast.unparse(node) == ast.unparse(expr(text))
    except Exception:
        return False


def V(vid, kind, file, scope, find, repl, note="", expect_rule=None, nth=0) -> Variant:
    return Variant(vid, kind, file, scope, find, repl, note, expect_rule, nth)


def replace_expr(old: str, new: str):
    """(find, repl) pair replacing the expression ``old`` by ``new``."""
    return (lambda nd: expr_is(nd, old)), (lambda nd: expr(new))


def replace_stmt(old: str, new: str | None):
    """(find, repl) pair replacing the statement ``old`` (None deletes it)."""
    return (lambda nd: isinstance(nd, ast.stmt) and src_is(nd, old)), (
        lambda nd: (stmt(new) if new is not None else None))
