"""Helpers shared by the rule modules."""

from __future__ import annotations

import ast

from ..core.loader import AnchorMissing, ClassInfo, FunctionInfo, Repo
from ..core.terms import (Term, evaluate, fn_name, kw, make_inliner, n, pretty,
                          subterms)

UNIFORM = ("jax.random.uniform",)
SPLIT = ("jax.random.split",)
COND = ("jax.lax.cond",)

LIB_FACTS = {
    "uniform": "jax.random.uniform(key) has support [0, 1): 0 attainable, 1 not",
    "exp_clip": "jnp.exp: [-inf,+inf] -> [0,+inf]; jnp.clip(x, max=m) <= m; both "
                "NaN-preserving",
    "cond": "jax.lax.cond(p, t, f, *ops) evaluates t iff p",
    "dict_order": "JAX flattens dict pytrees in sorted key order (ravel_pytree, "
                  "tree_leaves, tree_map, crossing jit/vmap); dict.values()/items()/"
                  "keys(), iteration and comprehensions use insertion order",
    "blackjax": "blackjax hmc/nuts init(position, logdensity_fn) and .step preserve the "
                "position pytree structure and read inverse_mass_matrix[i] as belonging "
                "to coordinate i of ravel_pytree(position)",
    "keys": "a PRNG key must be consumed at most once; jax.random.split(k, n) yields n "
            "pairwise distinct fresh keys and consumes k",
    "gcd": "math.gcd(*xs) divides every x",
    "toposort": "networkx.topological_sort yields every edge's source before its target "
                "and raises on a cycle",
    "tfd_td": "tfd.TransformedDistribution(d, T) is the law of T.forward(X), X~d; "
              ".bijector returns T; tfb.Invert(b).forward = b.inverse and vice versa",
    "gamma": "b / Gamma(a, 1) is InverseGamma(a, b); jax.random.categorical(key, "
             "logits=l) draws i with probability proportional to exp(l_i)",
    "pickle": "pickle/dill round-trip objects whose __getstate__/__setstate__ are inverse",
    "scan": "jax.lax.scan(f, init, xs) calls f(carry, x) once per leading-axis element "
            "of xs, in order, threading the carry",
    "vmap": "jax.vmap(f, in_axes)(*args) maps f over axis in_axes[i] of args[i]; None "
            "broadcasts the argument",
}


def is_call(t: Term, *names: str) -> bool:
    if not (isinstance(t, tuple) and t and t[0] == "call"):
        return False
    f = fn_name(t[1]) or ""
    return any(f == nm or f.endswith("." + nm) for nm in names)


def find_calls(t: Term, *names: str) -> list[Term]:
    return [x for x in subterms(t) if is_call(x, *names)]


def cond_parts(t: Term):
    """(pred, true_fn, false_fn, operands) of a jax.lax.cond call term."""
    if not is_call(t, "jax.lax.cond"):
        return None
    pred = kw(t, "pred", 0)
    tf = kw(t, "true_fun", 1)
    ff = kw(t, "false_fun", 2)
    ops = t[2][3:]
    return pred, tf, ff, ops


def thunk_value(repo: Repo, f: Term, args: tuple = ()) -> Term | None:
    """Value returned by calling a closure term with no (or bound) arguments."""
    if f is None:
        return None
    if f[0] == "lambda":
        params, body = f[1], f[2]
        if len(args) == len(params):
            from ..core.terms import substitute
            return substitute(body, {n(p): a for p, a in zip(params, args)})
        if not params:
            return body
        return None
    if f[0] == "fn":
        fi = repo.functions.get(f[1])
        if fi is None:
            return None
        return evaluate(repo, fi).ret()
    return None


def method(repo: Repo, ci: ClassInfo, name: str, kind=None, own=False) -> FunctionInfo:
    fi = ci.own_method(name, kind) if own else repo.lookup_method(ci, name, kind)
    if fi is None:
        raise AnchorMissing(f"method {ci.qualname}.{name} not found")
    return fi


def eval_method(repo: Repo, ci: ClassInfo, name: str, inline=True, depth=3, kind=None):
    fi = method(repo, ci, name, kind)
    inl = make_inliner(repo, self_class=ci) if inline else None
    return fi, evaluate(repo, fi, inline=inl, inline_depth=depth)


def short(t: Term, limit: int = 160) -> str:
    s = pretty(t)
    return s if len(s) <= limit else s[: limit - 3] + "..."


def strip_casts(t: Term) -> Term:
    """Drop value-preserving wrappers."""
    while is_call(t, "typing.cast") and len(t[2]) == 2:
        t = t[2][1]
    return t


def kernel_classes(repo: Repo) -> dict[str, ClassInfo]:
    """The built-in kernel classes, discovered structurally: classes of
    liesel.goose that define ``error_book`` and a transition method."""
    out = {}
    for q, ci in repo.classes.items():
        if not q.startswith("liesel.goose."):
            continue
        if ci.class_attr("error_book") is None:
            continue
        if repo.lookup_method(ci, "transition") is None:
            continue
        if ci.module.name == "liesel.goose.types":
            continue
        out[ci.name] = ci
    return out


def stmt_of(fi: FunctionInfo, pred) -> list[ast.stmt]:
    return [s for s in ast.walk(fi.node) if isinstance(s, ast.stmt) and pred(s)]
