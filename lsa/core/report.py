"""
Obligations, findings, evidence and exit codes.

exit 0  every obligation discharged (or matched by an open known finding)
exit 1  VIOLATION  (an obligation is refuted or could not be proven)
exit 2  ANALYSIS-ERROR (anchor vanished, instance count below the confirmed minimum,
        internal error) -- never a silent pass, never reported as a violation
"""

from __future__ import annotations

import ast
import json
import os
import re
import time
from dataclasses import dataclass, field

from .loader import AnalysisError, FunctionInfo, Repo

VERIF_DIR = os.path.dirname(os.path.dirname(os.path.dirname(os.path.abspath(__file__))))


def norm_stmt(node_or_text) -> str:
    """Normalised statement text used as a (line-independent) finding key."""
    if isinstance(node_or_text, ast.AST):
        try:
            text = ast.unparse(node_or_text)
        except Exception:
            text = ast.dump(node_or_text)
    else:
        text = str(node_or_text)
    text = re.sub(r"\s+", " ", text).strip()
    return text[:300]


@dataclass
class Obligation:
    rule: str  # e.g. "C05.R3"
    construct: str  # qualname of the function / class the obligation is about
    what: str  # one-line statement of the obligation
    ok: bool
    status: str  # "discharged" | "refuted" | "unproven"
    detail: str = ""
    where: str = ""  # file:line
    stmt: str = ""  # normalised offending statement
    facts: dict = field(default_factory=dict)
    nontrivial: bool = True

    def key(self) -> tuple:
        return (self.rule, self.construct, self.stmt)


class Context:
    def __init__(self, prop: str, repo: Repo, tier: str):
        self.prop = prop
        self.repo = repo
        self.tier = tier
        self.obligations: list[Obligation] = []
        self.analysed_functions: set[str] = set()
        self.call_sites = 0
        self.paths = 0
        self.unresolved: list[str] = []
        self.trusted: list[str] = []
        self.not_decided: list[str] = []
        self.rules: dict[str, str] = {}
        self.extra: dict = {}
        self.minima: list[tuple[str, int, int]] = []
        self.min_failures: list[str] = []

    # ---------------------------------------------------------------- helpers

    def rule(self, rid: str, text: str) -> None:
        self.rules[rid] = text

    def trust(self, *facts: str) -> None:
        for f in facts:
            if f not in self.trusted:
                self.trusted.append(f)

    def undecided(self, *clauses: str) -> None:
        self.not_decided.extend(clauses)

    def saw(self, *fis: FunctionInfo) -> None:
        for fi in fis:
            if fi is not None:
                self.analysed_functions.add(fi.qualname)

    def where(self, fi: FunctionInfo | None, node: ast.AST | None = None) -> str:
        if fi is None:
            return ""
        line = getattr(node, "lineno", None) or fi.lineno
        return f"{fi.file}:{line}"

    def ob(self, rule: str, construct, what: str, ok, detail: str = "",
           node: ast.AST | None = None, stmt=None, facts: dict | None = None,
           unproven: bool = False, nontrivial: bool = True) -> bool:
        fi = construct if isinstance(construct, FunctionInfo) else None
        cname = construct.qualname if hasattr(construct, "qualname") else str(construct)
        if fi is not None:
            self.saw(fi)
        ok = bool(ok)
        status = "discharged" if ok else ("unproven" if unproven else "refuted")
        where = ""
        if fi is not None:
            where = self.where(fi, node)
        elif hasattr(construct, "file"):
            where = f"{construct.file}:{getattr(node, 'lineno', None) or construct.node.lineno}"
        if stmt is None:
            stmt = norm_stmt(node) if (node is not None and not ok) else ""
        else:
            stmt = norm_stmt(stmt)
        self.obligations.append(
            Obligation(rule, cname, what, ok, status, detail, where, stmt if not ok else "",
                       facts or {}, nontrivial)
        )
        return ok

    def include(self, prop: str, rule: str, only=None) -> None:
        """Run the rules of a neighbouring property (or the subset `only` of its rule
        ids) as obligations of this one: the mechanisms are shared, so a change that
        breaks the neighbour's mechanism breaks this property too."""
        import importlib
        mod = importlib.import_module(f"lsa.rules.{prop.lower()}")
        mod.check(_Included(self, rule, set(only) if only else None, prop))

    def require_min(self, what: str, found: int, minimum: int) -> None:
        """Instance-count floor: below it the rule would pass vacuously."""
        self.minima.append((what, found, minimum))
        if found < minimum:
            # deferred: a tree that lost rule instances usually also violates an
            # obligation, and that report must not be masked by the analysis error
            self.min_failures.append(
                f"rule instance count for '{what}' is {found}, below the confirmed "
                f"minimum {minimum} (the rule would pass vacuously)")


class _Included:
    """View of a Context used while a neighbouring property's rules run on behalf of this
    one: their obligations are recorded under this property's rule id (the original rule
    id stays in the text), optionally restricted to some of the neighbour's rules."""

    _OWN = ("_ctx", "_rule", "_only", "_src")

    def __init__(self, ctx, rule, only, src):
        object.__setattr__(self, "_ctx", ctx)
        object.__setattr__(self, "_rule", rule)
        object.__setattr__(self, "_only", only)
        object.__setattr__(self, "_src", src)

    def __getattr__(self, name):
        return getattr(self._ctx, name)

    def __setattr__(self, name, value):
        setattr(self._ctx, name, value)

    def rule(self, rid, text):
        return None

    def undecided(self, *clauses):
        return None

    def include(self, *a, **k):
        return None

    def require_min(self, what, found, minimum):
        if self._only is not None:
            # a partial include: the floor belongs to rules that are not taken over (the
            # owner's own check keeps it)
            return None
        return self._ctx.require_min(f"[{self._src}] {what}", found, minimum)

    def ob(self, rule, construct, what, ok, *args, **kw):
        if self._only is not None and rule not in self._only:
            return bool(ok)
        return self._ctx.ob(self._rule, construct, f"[{rule}] {what}", ok, *args, **kw)


# ------------------------------------------------------------------ known findings


def load_known(path: str | None = None) -> dict:
    path = path or os.path.join(VERIF_DIR, "known_findings.json")
    if not os.path.exists(path):
        return {"open": [], "fixed": []}
    with open(path) as fh:
        return json.load(fh)


def match_known(ob: Obligation, prop: str, known: dict) -> dict | None:
    for k in known.get("open", []):
        if k.get("property") != prop or k.get("rule") != ob.rule:
            continue
        if k.get("construct") != ob.construct:
            continue
        if k.get("stmt") and k["stmt"] != ob.stmt:
            continue
        return k
    return None


# ------------------------------------------------------------------ finishing


def finish(ctx: Context, t0: float, seed: int, selftest: dict | None = None) -> int:
    known = load_known()
    failed = [o for o in ctx.obligations if not o.ok]
    known_hits, violations = [], []
    for o in failed:
        k = match_known(o, ctx.prop, known)
        (known_hits if k else violations).append((o, k))

    for o, k in known_hits:
        print(f"KNOWN-FINDING: property={ctx.prop} {k.get('what', o.what)} "
              f"[{o.rule} {o.construct}]")

    evdir = os.environ.get("LSA_EVIDENCE_DIR") or os.path.join(VERIF_DIR, "evidence")
    os.makedirs(evdir, exist_ok=True)
    replay = os.path.join(evdir, f"{ctx.prop}.violations.json")
    if violations:
        with open(replay, "w") as fh:
            json.dump(
                {"property": ctx.prop,
                 "violations": [o.__dict__ for o, _ in violations]}, fh, indent=1)
        for o, _ in violations:
            print(f"{o.where} {o.construct} -- {o.rule} [{o.status}] -- {o.what}"
                  f" -- {o.detail}")
    elif os.path.exists(replay):
        os.remove(replay)

    discharged = [o for o in ctx.obligations if o.ok]
    distinct = {(o.rule, o.construct, o.what) for o in ctx.obligations if o.nontrivial}
    # a spread of samples: a few per rule
    samples, per_rule = [], {}
    for o in ctx.obligations:
        n = per_rule.get(o.rule, 0)
        if n < 2:
            per_rule[o.rule] = n + 1
            samples.append({"rule": o.rule, "construct": o.construct,
                            "obligation": o.what, "status": o.status,
                            "where": o.where, "facts": o.facts,
                            **({"detail": o.detail} if o.detail else {})})
    coverage = {
        "explanation": (
            f"Static analysis (lsa) of {ctx.repo.root}/liesel: "
            + " ".join(f"{r}: {t}" for r, t in sorted(ctx.rules.items()))
            + " A passing run means the mechanism clauses below are intact on every "
              "path of the analysed constructs; it does not prove the value-level "
              "clauses listed under not_decided."
        ),
        "obligations": len(ctx.obligations),
        "discharged": len(discharged),
        "evaluations": len(ctx.obligations),
        "distinct_nontrivial": len(distinct),
        "rule": "one obligation per (rule, construct, statement of the obligation); "
                "an obligation whose premise was vacuous is marked nontrivial=false "
                "and not counted as distinct",
        "samples": samples,
        "analysed": {
            "files": len(ctx.repo.modules),
            "functions_total": len(ctx.repo.functions),
            "functions_consulted": sorted(ctx.analysed_functions),
            "call_sites": ctx.call_sites,
            "paths": ctx.paths,
            "source_digest": ctx.repo.digest,
        },
        "instance_minima": [
            {"what": w, "found": f, "minimum": m} for w, f, m in ctx.minima
        ],
        "unresolved_calls": ctx.unresolved[:50],
        "trusted_base": ctx.trusted,
        "not_decided": ctx.not_decided,
        "rules": ctx.rules,
        "known_findings_matched": [k.get("id") for _, k in known_hits],
        "exhaustive": False,
        "checker_cmd": f"./check {ctx.prop} --tier {ctx.tier}",
    }
    coverage.update(ctx.extra)
    if selftest is not None:
        coverage["selftest"] = selftest
    ev = {
        "property_id": ctx.prop,
        "tier": ctx.tier,
        "seed": seed,
        "level": "other",
        "coverage": coverage,
        "assumptions": ctx.trusted + [
            "the rules speak about the classes liesel ships; monkey-patching and user "
            "subclasses are out of scope",
            "calls into JAX/TFP/blackjax are summarised by the frozen library facts in "
            "trusted_base",
        ],
        "wall_s": round(time.time() - t0, 3),
        "violations": len(violations),
    }
    with open(os.path.join(evdir, f"{ctx.prop}.json"), "w") as fh:
        json.dump(ev, fh, indent=1, default=str)

    print(f"[{ctx.prop}] obligations={len(ctx.obligations)} discharged={len(discharged)} "
          f"violations={len(violations)} known={len(known_hits)} "
          f"functions={len(ctx.analysed_functions)} wall={ev['wall_s']}s")
    if violations:
        for m in ctx.min_failures:
            print(f"(also: {m})")
        print(f"VIOLATION property={ctx.prop} replay={replay}")
        return 1
    if ctx.min_failures:
        for m in ctx.min_failures:
            print(f"ANALYSIS-ERROR property={ctx.prop} {m}")
        return 2
    return 0
