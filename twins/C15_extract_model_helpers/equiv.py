"""
Deterministic exerciser for the code that property C15 rests on: building models
(completeness, names, outputs, topological order, cycle / duplicate / reserved-name
rejection), freezing, and the round trips pop+rebuild / copy / deepcopy / copy=True /
save+load. Prints one line per observation and a sha256 digest of all lines.

Run it with PYTHONPATH pointing at the liesel tree under test.
"""

from __future__ import annotations

import copy
import hashlib
import io
import logging
import os
import pickle
import tempfile
import warnings

import jax
import jax.numpy as jnp
import numpy as np
import tensorflow_probability.substrates.jax.distributions as tfd

import liesel.model as lsl
from liesel.model.model import GraphBuilder, Model, load_model, save_model
from liesel.model.nodes import (
    Calc,
    Dist,
    Group,
    InputGroup,
    NodeState,
    TransientCalc,
    Value,
    Var,
    obs,
    param,
)

LINES: list[str] = []


def out(*parts) -> None:
    line = " ".join(str(p) for p in parts)
    LINES.append(line)
    print(line)


class ListHandler(logging.Handler):
    def emit(self, record):
        # first line only: debug records carry tracebacks with line numbers
        first = (record.getMessage().splitlines() or [""])[0]
        out("LOG", record.name, record.levelname, first)


_handler = ListHandler(level=logging.DEBUG)
_liesel_logger = logging.getLogger("liesel")
_liesel_logger.addHandler(_handler)
_liesel_logger.setLevel(logging.DEBUG)
_liesel_logger.propagate = False


def val(x) -> str:
    """An exact, address-free rendering of a value."""
    if x is None:
        return "None"
    if isinstance(x, (bool, int, str)):
        return repr(x)
    if isinstance(x, float):
        return float(x).hex()
    if isinstance(x, (list, tuple)):
        return type(x).__name__ + "[" + ",".join(val(i) for i in x) + "]"
    if isinstance(x, dict):
        return "{" + ",".join(f"{k}:{val(v)}" for k, v in x.items()) + "}"
    try:
        a = np.asarray(x)
        return f"{a.dtype}{a.shape}:{hashlib.sha256(a.tobytes()).hexdigest()[:16]}"
    except Exception:  # pragma: no cover
        return type(x).__name__


def attempt(label, fn):
    try:
        res = fn()
    except Exception as e:  # noqa
        out(label, "RAISED", type(e).__name__, str(e))
        return None
    out(label, "ok")
    return res


def names(nodes) -> list[str]:
    return [n.name for n in nodes]


def describe(label: str, model: Model) -> None:
    out(label, "repr", repr(model))
    out(label, "nodes", list(model.nodes))
    out(label, "vars", list(model.vars))
    out(label, "sorted", names(model._sorted_nodes))
    out(label, "simulation", names(model._simulation_nodes))
    out(label, "seed_nodes", names(model._seed_nodes))
    out(label, "node_graph_nodes", names(model.node_graph.nodes))
    out(label, "node_graph_edges", [(a.name, b.name) for a, b in model.node_graph.edges])
    out(label, "var_graph_nodes", names(model.var_graph.nodes))
    out(label, "var_graph_edges", [(a.name, b.name) for a, b in model.var_graph.edges])
    out(label, "groups", {k: sorted(g.nodes_and_vars) for k, g in model.groups().items()})

    for name, node in model.nodes.items():
        out(
            label,
            "node",
            name,
            type(node).__name__,
            "in",
            names(node.inputs),
            {k: v.name for k, v in node.kwinputs.items()},
            "all_in",
            names(node.all_input_nodes()),
            "out",
            names(node.outputs),
            "model_is_self",
            node.model is model,
            "var",
            node.var.name if node.var else None,
            "needs_seed",
            node.needs_seed,
        )

    # outputs are the exact inverse of inputs
    inverse_ok = True
    for node in model.nodes.values():
        for other in model.nodes.values():
            a = node in other.all_input_nodes()
            b = other in node.outputs
            inverse_ok = inverse_ok and (a == b)
    out(label, "outputs_inverse_of_inputs", inverse_ok)

    # topological order
    pos = {n: i for i, n in enumerate(model._sorted_nodes)}
    topo_ok = all(
        pos[i] < pos[n] for n in model.nodes.values() for i in n.all_input_nodes()
    )
    out(label, "topological", topo_ok)

    for name, var in model.vars.items():
        out(
            label,
            "var",
            name,
            "nodes",
            names(var.nodes),
            "in_vars",
            names(var.all_input_vars()),
            "out_vars",
            names(var.all_output_vars()),
            "out_nodes",
            names(var.all_output_nodes()),
            "flags",
            var.observed,
            var.parameter,
            var.strong,
            var.has_dist,
            var.role,
            "model_is_self",
            var.model is model,
        )

    state = model.state
    out(label, "state", {k: (val(s.value), s.outdated, val(s.extra)) for k, s in state.items()})
    out(label, "log_lik", val(model.log_lik), "log_prior", val(model.log_prior))
    out(label, "log_prob", val(model.log_prob))


def state_digest(model: Model) -> str:
    return val({k: (val(s.value), s.outdated) for k, s in model.state.items()})


# ---------------------------------------------------------------------------------------
# graph factories
# ---------------------------------------------------------------------------------------


def rng_calc(seed, x):
    return x + jax.random.normal(seed, jnp.shape(x))


def make_graph(seeded: bool = True, groups: bool = True):
    """Shared inputs, unnamed nodes, a seeded node, dists, groups, an input group."""
    X = obs(jnp.arange(12.0).reshape(6, 2) / 7.0, name="X")
    b_loc = Var(0.0, name="b_loc")
    b_scale = Var(10.0, name="b_scale")
    beta = param(
        jnp.array([0.25, -0.5]),
        Dist(tfd.Normal, loc=b_loc, scale=b_scale),
        name="beta",
    )
    shared = Value(2.0)  # unnamed, shared by two nodes
    mu = Var(Calc(lambda X, b, s: X @ b * s, X, beta, shared), name="mu")
    sigma = param(
        1.5,
        Dist(tfd.InverseGamma, concentration=Value(3.0), scale=shared),
        name="sigma",
    )
    y = obs(
        jnp.linspace(-1.0, 1.0, 6),
        Dist(tfd.Normal, loc=mu, scale=sigma),
        name="y",
    )
    extras = []
    taken = Value(7.0, _name="n0")  # collides with the first generated node name
    extras.append(taken)
    ig = InputGroup(mu, scale=sigma)
    tc = TransientCalc(lambda g: g.args[0].sum() * g.kwargs["scale"], ig, _name="tc")
    extras.append(tc)
    unnamed_var = Var(Calc(lambda a, b: a + b, taken, shared))
    extras.append(unnamed_var)

    if seeded:
        noisy = Calc(rng_calc, x=mu, _name="noisy", _needs_seed=True)
        extras.append(noisy)

    if groups:
        Group("loc", X=X, beta=beta)
        Group("scale", sigma=sigma, shared=shared)

    return y, extras


def build(seeded=True, groups=True, copy_=False, to_float32=True):
    y, extras = make_graph(seeded, groups)
    gb = GraphBuilder(to_float32=to_float32).add(y, *extras)
    return gb, gb.build_model(copy=copy_)


# ---------------------------------------------------------------------------------------
# scenarios
# ---------------------------------------------------------------------------------------


def scenario_build():
    for seeded in (False, True):
        for f32 in (True, False):
            gb, model = build(seeded=seeded, to_float32=f32)
            describe(f"build[s={seeded},f32={f32}]", model)
            out("gb_after_build", gb, gb.nodes, gb.vars)

    # Model(...) with grow=True directly, iterable given as a generator
    y, extras = make_graph()
    model = Model(nv for nv in [y, *extras])
    describe("model_from_generator", model)

    # grow=False from a complete list, and from a single-pass generator
    gb, model = build()
    nodes, vars_ = model._release_nodes_and_vars()
    everything = [*nodes.values(), *vars_.values()]
    m2 = Model(everything + everything[:3], grow=False)
    describe("grow_false_list", m2)
    m2._release_nodes_and_vars()
    m3 = attempt("grow_false_generator", lambda: Model((nv for nv in everything), grow=False))
    if m3 is not None:
        out("grow_false_generator", list(m3.nodes), list(m3.vars))
        m3._release_nodes_and_vars()

    # empty model
    empty = GraphBuilder().build_model()
    describe_small("empty", empty)
    empty2 = Model([])
    describe_small("empty2", empty2)


def describe_small(label, model):
    out(label, repr(model), list(model.nodes), list(model.vars), names(model._sorted_nodes))
    out(label, "state", {k: (val(s.value), s.outdated) for k, s in model.state.items()})
    for name, node in model.nodes.items():
        out(label, name, "in", names(node.all_input_nodes()), "out", names(node.outputs))


def scenario_names():
    # generated names avoid the names that are taken
    a = Value(1.0, _name="n1")
    b = Value(2.0)
    c = Value(3.0)
    d = Calc(lambda a, b, c: a + b + c, a, b, c)
    v = Var(d)
    w = Var(Calc(lambda v: v * 2, v), name="v0")
    u = Var(Calc(lambda w: w * 2, w))
    model = GraphBuilder().add(u).build_model()
    describe_small("auto_names", model)

    gb = GraphBuilder()
    n1, n2, n3 = Value(1.0), Value(2.0, _name="n0"), Value(3.0)
    GraphBuilder._do_set_missing_names([n1, n2, n3], prefix="n")
    out("do_set_missing_names", names([n1, n2, n3]))
    GraphBuilder._do_set_missing_names([], prefix="n")
    x1, x2 = Value(1.0, _name="x1"), Value(1.0, _name="x0")
    x3, x4, x5 = Value(0.0), Value(0.0), Value(0.0)
    GraphBuilder._do_set_missing_names([x3, x1, x4, x2, x5], prefix="x")
    out("do_set_missing_names2", names([x3, x1, x4, x2, x5]))

    # duplicates
    def dup_nodes():
        a = Value(1.0, _name="dup")
        b = Value(2.0, _name="dup")
        c = Value(2.0, _name="dup2")
        d = Value(2.0, _name="dup2")
        return GraphBuilder().add(Calc(lambda a, b, c, d: a + b, a, b, c, d)).build_model()

    attempt("dup_nodes", dup_nodes)

    def dup_vars():
        a = Var(1.0, name="dupvar")
        b = Var(2.0, name="dupvar")
        a.value_node.name = "other_value"
        a.var_value_node.name = "other_var_value"
        return GraphBuilder().add(Var(Calc(lambda a, b: a + b, a, b), name="s")).build_model()

    attempt("dup_vars", dup_vars)

    def dup_groups():
        a = Var(1.0, name="ga")
        b = Var(2.0, name="gb")
        Group("G", a=a)
        Group("G", b=b)
        Group("H", a=a)
        Group("H", b=b)
        return Model([a, b])

    attempt("dup_groups", dup_groups)

    def dup_groups_gb():
        a = Var(1.0, name="ga")
        b = Var(2.0, name="gb")
        g1 = Group("G", a=a)
        g2 = Group("G", b=b)
        return GraphBuilder().add_groups(g1, g2)

    attempt("dup_groups_gb", dup_groups_gb)

    def same_group_twice():
        a = Var(1.0, name="ga")
        b = Var(2.0, name="gb")
        g1 = Group("G", a=a, b=b)
        m = GraphBuilder().add_groups(g1, g1).build_model()
        return m

    m = attempt("same_group_twice", same_group_twice)
    out("same_group_twice", list(m.nodes), list(m.groups()))

    def dup_nodes_direct():
        a = Value(1.0, _name="dd")
        b = Value(2.0, _name="dd")
        v = Var(1.0, name="dv")
        w = Var(1.0, name="dv")
        return Model([a, b, v, w], grow=False)

    attempt("dup_nodes_direct", dup_nodes_direct)

    def dup_vars_direct():
        v = Var(1.0, name="dv")
        w = Var(1.0, name="dv")
        return Model([v, w], grow=False)

    attempt("dup_vars_direct", dup_vars_direct)

    def reserved():
        a = Value(1.0, _name="_model_x")
        return GraphBuilder().add(a).build_model()

    attempt("reserved", reserved)

    def reserved_input():
        a = Value(1.0, _name="_modelfoo")
        return GraphBuilder().add(Calc(lambda a: a, a, _name="c")).build_model()

    attempt("reserved_input", reserved_input)

    def cycle():
        a = Calc(lambda x: x, Value(0.0, _name="z"), _name="a")
        b = Calc(lambda x: x, a, _name="b")
        a.set_inputs(b)
        return GraphBuilder().add(b).build_model()

    attempt("cycle", cycle)

    def self_cycle():
        a = Calc(lambda x: x, Value(0.0, _name="z"), _name="a")
        a.set_inputs(a)
        return Model([a])

    attempt("self_cycle", self_cycle)

    def not_addable():
        return GraphBuilder().add(1.0)

    attempt("not_addable", not_addable)


def scenario_freeze():
    gb, model = build()
    before = state_digest(model)
    struct_before = [
        (n.name, names(n.inputs), sorted(n.kwinputs), names(n.outputs), n.needs_seed)
        for n in model.nodes.values()
    ]
    node = model.nodes["mu_value"]
    dist = model.nodes["y_log_prob"]
    var = model.vars["sigma"]
    other = Value(1.0, _name="other")

    attempt("freeze.set_inputs", lambda: node.set_inputs(other))
    attempt("freeze.add_inputs", lambda: node.add_inputs(other, k=other))
    attempt("freeze.name", lambda: setattr(node, "name", "renamed"))
    attempt("freeze.needs_seed", lambda: setattr(node, "needs_seed", True))
    attempt("freeze.function", lambda: setattr(node, "function", lambda *a: 0.0))
    attempt("freeze.dist.at", lambda: setattr(dist, "at", other))
    attempt("freeze.dist.distribution", lambda: setattr(dist, "distribution", tfd.Normal))
    attempt("freeze.dist.per_obs", lambda: setattr(dist, "per_obs", False))
    attempt("freeze.var.name", lambda: setattr(var, "name", "renamed"))
    attempt("freeze.var.dist_node", lambda: setattr(var, "dist_node", None))
    attempt("freeze.var.value_node", lambda: setattr(var, "value_node", 3.0))
    attempt("freeze.var.observed", lambda: setattr(var, "observed", True))
    attempt("freeze.var.parameter", lambda: setattr(var, "parameter", False))
    attempt("freeze.var.transform", lambda: var.transform())
    attempt("freeze.var.role", lambda: setattr(var, "role", "r"))
    attempt("freeze.var.auto_transform", lambda: setattr(var, "auto_transform", False))

    # a node of a live model cannot be taken into a var / another model
    attempt("freeze.foreign_value_node", lambda: Var(node, name="thief"))
    attempt("freeze.foreign_dist_node", lambda: Var(1.0, dist, name="thief2"))
    attempt("freeze.second_model", lambda: Model([model.vars["y"]]))
    attempt("freeze.second_model_nogrow", lambda: Model(list(model.nodes.values()), grow=False))
    attempt("freeze.gb_rename", lambda: GraphBuilder().add(model.vars["y"]).rename("mu", "nu"))
    attempt(
        "freeze.gb_replace",
        lambda: GraphBuilder().add(model.vars["y"]).replace_node(node, other),
    )

    struct_after = [
        (n.name, names(n.inputs), sorted(n.kwinputs), names(n.outputs), n.needs_seed)
        for n in model.nodes.values()
    ]
    out("freeze.struct_unchanged", struct_before == struct_after)
    out("freeze.state_unchanged", before == state_digest(model))
    out("freeze.all_in_model", all(n.model is model for n in model.nodes.values()))
    describe("freeze.after", model)

    # unfrozen nodes: the model-only accessors are rejected
    free = Calc(lambda x: x, 1.0, _name="free")
    attempt("free.outputs", lambda: free.outputs)
    attempt("free.all_output_nodes", lambda: free.all_output_nodes())
    attempt("free.flag_outdated", lambda: free.flag_outdated())
    fv = Var(1.0, name="fv")
    attempt("free.var.all_output_nodes", lambda: fv.all_output_nodes())
    attempt("free.var.all_output_vars", lambda: fv.all_output_vars())
    out("free.outdated", free.outdated, free.model, fv.model)
    free.add_inputs(2.0, k=3.0).add_inputs(k=4.0, j=Var(5.0, name="jv"))
    out("free.add_inputs", [val(i.value) for i in free.inputs], {k: val(v.value) for k, v in free.kwinputs.items()})
    view = free.kwinputs
    free.set_inputs(6.0, z=7.0)
    out("free.set_inputs_live_view", list(view), [val(i.value) for i in free.all_input_nodes()])
    out("free.to_node", type(Calc._to_node(fv)).__name__, type(Calc._to_node(3)).__name__, Calc._to_node(free) is free)
    attempt("free.set_model_twice", lambda: model.nodes["mu_value"]._set_model(model))
    attempt("free.set_var_twice", lambda: model.nodes["mu_value"]._set_var(fv))

    # when the model dies, the nodes are free again
    y, extras = make_graph(seeded=False, groups=False)
    m = Model([y])
    out("weak.before", y.value_node.model is m)
    del m
    import gc

    gc.collect()
    out("weak.after", y.value_node.model, y.model)
    attempt("weak.rename", lambda: setattr(y, "name", "y2"))
    out("weak.name", y.name, y.value_node.name)


def perturb(model: Model):
    model.vars["beta"].value = jnp.array([1.0, 1.0], dtype=model.vars["beta"].value.dtype)
    if model._seed_nodes:
        model.set_seed(jax.random.PRNGKey(42))


def scenario_roundtrip():
    for seeded in (False, True):
        tag = f"rt[s={seeded}]"
        gb, model = build(seeded=seeded)
        reference = state_digest(model)
        out(tag, "reference", reference)

        # build with copy=True
        y, extras = make_graph(seeded)
        gb2 = GraphBuilder().add(y, *extras)
        mcopy = gb2.build_model(copy=True)
        out(tag, "copy=True gb kept", len(gb2.nodes), len(gb2.vars))
        out(tag, "copy=True same state", state_digest(mcopy) == reference)
        out(tag, "copy=True originals free", y.model, [e.model for e in extras])
        out(tag, "copy=True distinct", all(mcopy.vars[v.name] is not v for v in [y]))
        describe(tag + ".copy=True", mcopy)
        m_again = attempt(tag + ".copy=True then build", lambda: gb2.build_model())
        if m_again is not None:
            out(tag, "copy=True then build", state_digest(m_again) == reference)

        # Model(copy=True) directly
        y3, extras3 = make_graph(seeded)
        mc3 = Model([y3, *extras3], copy=True)
        out(tag, "Model(copy=True)", state_digest(mc3) == reference, y3.model)

        # deepcopy
        mdeep = copy.deepcopy(model)
        out(tag, "deepcopy same", state_digest(mdeep) == reference)
        out(tag, "deepcopy nodes model", all(n.model is mdeep for n in mdeep.nodes.values()))
        perturb(mdeep)
        out(tag, "deepcopy independent", state_digest(model) == reference, state_digest(mdeep) == reference)
        describe(tag + ".deepcopy_perturbed", mdeep)

        # computational copy
        mcomp = model._copy_computational_model()
        out(tag, "comp copy", state_digest(model) == reference)
        out(tag, "comp copy state", {k: (val(s.value), s.outdated) for k, s in mcomp.state.items()})

        # save / load through a handle and through a path
        buf = io.BytesIO()
        save_model(model, buf)
        buf.seek(0)
        mload = load_model(buf)
        out(tag, "load(handle) same", state_digest(mload) == reference)
        out(tag, "load(handle) model", all(n.model is mload for n in mload.nodes.values()))
        with tempfile.TemporaryDirectory() as d:
            path = os.path.join(d, "m.dill")
            save_model(model, path)
            mload2 = load_model(path)
        out(tag, "load(path) same", state_digest(mload2) == reference)
        perturb(mload2)
        out(tag, "load independent", state_digest(model) == reference)
        describe(tag + ".loaded_perturbed", mload2)
        out(tag, "deep==load perturbed", state_digest(mload2) == state_digest(mdeep))

        # node state protocol
        node = model.nodes["mu_value"]
        st = node.__getstate__()
        out(tag, "getstate keys", list(st), st["_model"] is model)
        free = Value(1.0, _name="free")
        st2 = free.__getstate__()
        out(tag, "getstate free", list(st2), st2["_model"])
        free2 = pickle.loads(pickle.dumps(free))
        out(tag, "pickled free", free2.name, free2.model, val(free2.value), free2._model())
        fcopy = copy.deepcopy(node)  # drags the whole model along
        out(tag, "deepcopy node", fcopy.model is not model, fcopy.model is not None and list(fcopy.model.nodes) == list(model.nodes))

        # copy_nodes_and_vars + rebuild
        cn, cv = model.copy_nodes_and_vars()
        out(tag, "copy_nv keys", list(cn), list(cv))
        out(tag, "copy_nv free", all(n.model is None for n in cn.values()))
        out(tag, "copy_nv kwinputs", {k: sorted(n.kwinputs) for k, n in cn.items() if n.kwinputs})
        out(tag, "copy_nv original intact", state_digest(model) == reference, all(n.model is model for n in model.nodes.values()))
        mrebuilt = GraphBuilder().add(*cn.values(), *cv.values()).build_model()
        out(tag, "copy_nv rebuilt same", state_digest(mrebuilt) == reference)
        out(tag, "copy_nv rebuilt nodes", list(mrebuilt.nodes) == list(model.nodes), sorted(mrebuilt.nodes) == sorted(model.nodes))
        perturb(mrebuilt)
        out(tag, "copy_nv independent", state_digest(model) == reference)

        # pop + rebuild, twice
        perturb(model)
        perturbed = state_digest(model)
        for i in range(2):
            pn, pv = model.pop_nodes_and_vars()
            out(tag, i, "pop keys", list(pn), list(pv))
            out(tag, i, "pop old model", repr(model), list(model.nodes), len(model.node_graph), len(model.var_graph), model._sorted_nodes, model._seed_nodes)
            out(tag, i, "pop free", all(n.model is None for n in pn.values()), all(v.model is None for v in pv.values()))
            out(tag, i, "pop kwinputs", {k: sorted(n.kwinputs) for k, n in pn.items() if n.kwinputs})
            model = GraphBuilder().add(*pn.values(), *pv.values()).build_model()
            out(tag, i, "pop rebuilt", list(model.nodes))
            if model._seed_nodes:
                model.set_seed(jax.random.PRNGKey(42))
            out(tag, i, "pop rebuilt same", state_digest(model) == perturbed)
        describe(tag + ".pop_rebuilt", model)

        # pop, mutate, rebuild
        pn, pv = model.pop_nodes_and_vars()
        pv["b_loc"].value = 1.0
        old_dist = pv["sigma"].dist_node
        pv["sigma"].dist_node = Dist(tfd.Exponential, rate=2.0)
        rest = [n for n in pn.values() if n is not old_dist]
        attempt(
            tag + ".pop_mutated_dup",
            lambda: Model(
                [*pn.values(), pv["sigma"].dist_node, *pv.values()], grow=False
            ),
        )
        out(tag, "after rejected build", all(n.model is None for n in pn.values()))
        model = Model([*rest, *pv.values()])
        describe(tag + ".pop_mutated", model)
        pn, pv = model.pop_nodes_and_vars()
        attempt(
            tag + ".pop_mutated_dup_grow",
            lambda: Model([*pn.values(), old_dist, *pv.values()]),
        )
        out(
            tag,
            "after rejected grow build",
            all(n.model is None for n in pn.values()),
            {k: {kw: i.name for kw, i in n.kwinputs.items()} for k, n in pn.items() if n.kwinputs},
        )


def scenario_builder_features():
    # user-defined model nodes
    y, extras = make_graph()
    gb = GraphBuilder().add(y, *extras)
    gb.log_lik_node = Calc(lambda x: x.sum(), y.dist_node, _name="my_ll")
    gb.log_prior_node = Value(-3.0, _name="my_lp")
    gb.log_prob_node = Calc(lambda a, b: a + b, gb.log_lik_node, gb.log_prior_node, _name="my_lpr")
    attempt("user_nodes.bad", lambda: setattr(gb, "log_lik_node", y))
    out("all_nodes_and_vars", [names(x) for x in gb._all_nodes_and_vars()])
    out("count_node_names", gb.count_node_names())
    out("count_var_names", gb.count_var_names())
    out("gb.groups", list(gb.groups()))
    gbc = gb.copy()
    out("gb.copy", gbc, gbc.log_lik_node is gb.log_lik_node, gbc.nodes == gb.nodes, gbc.nodes is not gb.nodes)
    model = gb.build_model()
    describe("user_nodes", model)
    out("user_nodes.gb_cleared", gb.log_lik_node, gb.log_prior_node, gb.log_prob_node, gb.nodes, gb.vars)

    # order of discovery
    y, extras = make_graph()
    gb = GraphBuilder().add(*extras).add(y).add(y, extras[0])
    out("discovery", [names(x) for x in gb._all_nodes_and_vars()])
    gb2 = GraphBuilder().add(gb)
    out("discovery.nested", [names(x) for x in gb2._all_nodes_and_vars()])
    gb.rename("mu", "nu").rename_nodes("^n0$", "taken").rename_vars("beta", "BETA")
    out("renamed", [names(x) for x in gb._all_nodes_and_vars()])
    new = Value(5.0, _name="five")
    gb.replace_node(extras[0], new)
    out("replaced", [names(x) for x in gb._all_nodes_and_vars()])
    model = gb.build_model()
    describe("renamed_replaced", model)

    # auto transform
    lam = param(2.0, Dist(tfd.Exponential, rate=1.0), name="lam")
    lam.auto_transform = True
    z = obs(jnp.array([0.5, 1.5]), Dist(tfd.Exponential, rate=lam), name="z")
    gb = GraphBuilder().add(z)
    with warnings.catch_warnings():
        warnings.simplefilter("ignore")
        model = gb.build_model()
    describe("auto_transform", model)

    # update paths
    gb, model = build()
    model.auto_update = False
    model.vars["beta"].value = jnp.array([2.0, 2.0], dtype=jnp.float32)
    out("update.outdated", {k: n.outdated for k, n in model.nodes.items()})
    model.update("mu_value")
    out("update.mu", {k: n.outdated for k, n in model.nodes.items()})
    out("update.recursive_inputs", names(model._recursive_inputs("y_log_prob")))
    model.update("_model_log_lik", "tc")
    out("update.ll", {k: n.outdated for k, n in model.nodes.items()})
    model.update()
    out("update.all", {k: n.outdated for k, n in model.nodes.items()}, state_digest(model))
    attempt("update.unknown", lambda: model.update("nope"))
    model.auto_update = True
    model.simulate(jax.random.PRNGKey(3), skip=("beta",))
    out("simulate", state_digest(model))

    st = model.state
    model.state = {k: NodeState(s.value, s.outdated) for k, s in st.items()}
    out("state_roundtrip", state_digest(model))


def random_graph(rng):
    """A random DAG of values, calcs, vars and dists with shared and keyword inputs."""
    pool = []  # nodes or vars that can serve as inputs
    roots = []
    n = rng.randint(3, 9)

    for i in range(n):
        name = rng.choice(["", "", f"x{i}", f"n{rng.randint(0, 3)}_{i}", f"n{i}", f"v{i}"])
        kind = rng.choice(["value", "calc", "calc", "var", "varcalc", "distvar"])

        if not pool and kind in ("calc", "varcalc"):
            kind = "value"

        if kind == "value":
            obj = Value(float(i), _name=name)
        elif kind == "var":
            obj = Var(float(i) + 0.5, name=name)
        elif kind == "distvar":
            loc = rng.choice(pool) if pool and rng.random() < 0.6 else 0.0
            obj = Var(
                float(i) / 4.0,
                Dist(tfd.Normal, loc=loc, scale=1.0 + i),
                name=name or f"d{i}",
            )
            if rng.random() < 0.5:
                obj.parameter = True
            else:
                obj.observed = True
        else:
            k = rng.randint(1, min(3, len(pool)))
            ins = [rng.choice(pool) for _ in range(k)]
            kw = {}
            if rng.random() < 0.5:
                kw["extra"] = rng.choice(pool)
            calc = Calc(
                lambda *a, **k: sum(jnp.sum(x) for x in a) + sum(jnp.sum(x) for x in k.values()),
                *ins,
                _name=name if kind == "calc" else "",
                **kw,
            )
            obj = calc if kind == "calc" else Var(calc, name=name)

        pool.append(obj)

        if rng.random() < 0.4 or i == n - 1:
            roots.append(obj)

    return roots


def scenario_random():
    import random

    for seed in range(12):
        rng = random.Random(seed)
        tag = f"rand[{seed}]"
        roots = random_graph(rng)
        gb = GraphBuilder().add(*roots)
        out(tag, "found", [names(x) for x in gb._all_nodes_and_vars()])
        out(tag, "counts", gb.count_node_names(), gb.count_var_names())
        model = attempt(tag + ".build", gb.build_model)

        if model is None:
            continue

        describe_small(tag, model)
        out(tag, "vars", list(model.vars), "graph", [(a.name, b.name) for a, b in model.var_graph.edges])
        ref = state_digest(model)
        out(tag, "deepcopy", state_digest(copy.deepcopy(model)) == ref)
        buf = io.BytesIO()
        save_model(model, buf)
        buf.seek(0)
        out(tag, "load", state_digest(load_model(buf)) == ref)
        cn, cv = model.copy_nodes_and_vars()
        m2 = attempt(tag + ".rebuild_copy", lambda: Model([*cn.values(), *cv.values()]))
        if m2 is not None:
            out(tag, "rebuild_copy", state_digest(m2) == ref, list(m2.nodes))
        pn, pv = model.pop_nodes_and_vars()
        m3 = attempt(tag + ".rebuild_pop", lambda: Model([*pn.values(), *pv.values()]))
        if m3 is not None:
            out(tag, "rebuild_pop", state_digest(m3) == ref, list(m3.nodes), names(m3._sorted_nodes))
            for name in list(m3.nodes)[:: max(1, len(m3.nodes) // 3)]:
                out(tag, "recursive_inputs", name, names(m3._recursive_inputs(name)))


def scenario_missing_names_stress():
    import random

    rng = random.Random(2024)
    acc = hashlib.sha256()

    for trial in range(300):
        k = rng.randint(0, 9)
        items = [
            Value(0.0, _name=rng.choice(["", "", "", "n0", "n1", "n2", "n3", "n5", "n10", "m", "n01"]))
            for _ in range(k)
        ]
        GraphBuilder._do_set_missing_names(items, prefix="n")
        acc.update(("|".join(names(items)) + "\n").encode())
        if trial < 8:
            out("missing_names_stress", trial, names(items))

    out("missing_names_stress digest", acc.hexdigest())


def scenario_state_protocol():
    gb, model = build()
    node = model.nodes["mu_value"]
    st = node.__getstate__()
    out("proto.keys", list(st), list(st) == list(node.__dict__))
    out("proto.same_items", all(st[k] is node.__dict__[k] for k in st if k != "_model"))
    out("proto.not_dict", st is not node.__dict__, type(st).__name__)
    shallow = copy.copy(node)
    out("proto.shallow", shallow is not node, shallow.model is model, shallow.name, shallow._kwinputs is node._kwinputs)
    attempt("proto.shallow_frozen", lambda: shallow.set_inputs())
    blank = Value.__new__(Value)
    blank.__setstate__({"_model": None, "_name": "blank", "_value": 1.0})
    out("proto.setstate_none", blank.model, blank._model(), blank.name, sorted(blank.__dict__))
    blank2 = Value.__new__(Value)
    blank2.__setstate__({"_model": model, "_name": "blank2"})
    out("proto.setstate_model", blank2.model is model, type(blank2._model).__name__)
    buf = io.BytesIO()
    out("proto.save_returns", save_model(model, buf), len(buf.getvalue()) > 0)
    with tempfile.TemporaryDirectory() as d:
        path = os.path.join(d, "x.dill")
        out("proto.save_path_returns", save_model({"a": 1}, path), load_model(path))
    attempt("proto.load_missing", lambda: load_model(os.path.join("no", "such", "file.dill")))
    attempt("proto.load_bad_handle", lambda: load_model(io.BytesIO(b"")))
    attempt("proto.save_bad_handle", lambda: save_model(model, None))
    out("proto.wrapped_names", Calc.set_inputs.__name__, Calc.add_inputs.__qualname__, Var.name.fset.__name__, Calc.all_output_nodes.__name__)
    tn = TransientCalc(lambda x: x, 1.0, _name="t")
    out("proto.outdated_free", tn.outdated, Calc(lambda x: x, 1.0).outdated, Value(1.0).outdated)
    c = Calc(lambda x: x, 1.0, _name="c")
    c.state = NodeState(5.0, "weird")
    out("proto.outdated_raw_free", c.outdated)
    m = Model([c])
    c.state = NodeState(5.0, "weird")
    out("proto.outdated_raw_in_model", c.outdated, c.state)


def main():
    scenario_state_protocol()
    scenario_random()
    scenario_missing_names_stress()
    scenario_build()
    scenario_names()
    scenario_freeze()
    scenario_roundtrip()
    scenario_builder_features()
    digest = hashlib.sha256("\n".join(LINES).encode()).hexdigest()
    print("LINES", len(LINES))
    print("DIGEST", digest)


if __name__ == "__main__":
    main()
